#!/venv/bin/python
"""Regenerate coq/Gen/*.v from /repo's working tree.  Files are rewritten only when their
content changes.  A translator failure leaves a Gen file that does not compile (so every
proof that depends on it fails) and is reported on stdout as `TRANSLATOR-FAILED <name>`."""
import os, sys, traceback
HERE = os.path.dirname(os.path.abspath(__file__))
sys.path.insert(0, HERE)
REPO = os.environ.get("LASIO_REPO", "/repo")
GEN = os.path.join(os.path.dirname(HERE), "coq", "Gen")

def write_if_changed(path, text):
    old = open(path).read() if os.path.exists(path) else None
    if old != text:
        with open(path, "w") as f:
            f.write(text)
        return True
    return False

def main():
    os.makedirs(GEN, exist_ok=True)
    failed = []
    jobs = []
    import regexes
    jobs.append(("Regexes", lambda: regexes.render(*regexes.collect(REPO))))
    try:
        import tables
        jobs.append(("Tables", lambda: tables.render(REPO)))
    except ImportError:
        pass
    try:
        import skeleton
        jobs.append(("Skel", lambda: skeleton.render(REPO)))
    except ImportError:
        pass
    try:
        import funcs
        jobs.append(("Funcs", lambda: funcs.render(REPO)))
    except ImportError:
        pass
    for name, fn in jobs:
        path = os.path.join(GEN, name + ".v")
        try:
            text = fn()
        except Exception as e:
            failed.append(name)
            msg = traceback.format_exc().replace("*)", "* )")
            text = "(* translator failed:\n%s*)\nTRANSLATOR_FAILED.\n" % msg
            print("TRANSLATOR-FAILED %s: %s" % (name, e))
        ch = write_if_changed(path, text)
        print("gen %s %s" % (name, "updated" if ch else "unchanged"))
    return 1 if failed else 0

if __name__ == "__main__":
    sys.exit(main())
