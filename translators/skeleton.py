"""Translate the open/close skeleton of lasio's I/O entry points into Coq (coq/Gen/Skel.v).

render(repo) walks the Python `ast` of
    lasio/reader.py : adhoc_test_encoding, open_with_codecs, open_file
    lasio/las.py    : LASFile.read, LASFile.write, LASFile.to_csv
in the CURRENT working tree and prints definitions `skel_* : stmt` over the IR of
coq/Model/IOSkel.v.  The translation is conservative and fails closed:

* every statement that evaluates anything but names and constants (a call, subscript,
  attribute access, arithmetic, comparison, ...) becomes `MayRaise`; `raise`/`assert`/`import`
  too;
* recognised idioms
    x = open(..) | x = io.open(..) | x = <m>.<opener>(..)
                                                      -> Open x   (opener: any name of OPENERS —
                                                         open, FileIO, fdopen, TextIOWrapper,
                                                         NamedTemporaryFile, GzipFile, ZipFile, ...)
    with open(..) as x: body                          -> With x body
    x.close()                                         -> Close x   (CloseArg x if x may hold
                                                         an object supplied by the caller)
    x = <constant | untracked name | StringIO(..) | a lasio function that calls nothing but
         isinstance/str/.absolute()>  (x a tracked variable)
                                                      -> Rebind x  (rejected by the analysis
                                                         wherever x may still hold an open file)
    x = <any other call / expression>  (x tracked)    -> SkelError: the value could be a handle
                                                         opened through an API this table does not know
    F = False ... F = True; x = open(..) ... if F: x.close()
                                                      -> Open x ... Guarded x (Close x)   (opened-flag)
    if hasattr(x, "close"): x.close()                 -> Guarded x (Close x / CloseArg x)
    a, b = helper(..)  /  v = helper(..)              -> Call skel_helper   (helper = one of the
                                                         translated functions; the returned handle
                                                         and the target variable share one id)
    try/finally, try/except, if/else, for, while, break, continue, return
* anything else that involves an opener, `close`, a translated helper, an opened-flag, or that
  rebinds a tracked variable raises SkelError — Gen/Skel.v then does not compile and every
  theorem of Props/C20.v fails.

`Guarded x b` runs b or — only when x does not hold an open file lasio opened — skips it: when the
guard of `if F: x.close()` / `if hasattr(x,"close"): x.close()` is false the variable does not hold
a file lasio opened (checked: F is set only next to the `open` and never reset; a file object has a
close attribute).
"""
import ast
import os

HELPERS = ["adhoc_test_encoding", "open_with_codecs", "open_file"]
API = ["read", "write", "to_csv"]
# functions outside las.py/reader.py that contain an open site of their own (the command-line entry point
# `las2las`-style converter): translated so that "no open site outside the translated functions" can be
# stated for the WHOLE package
EXTRA = ["convert_version"]
ALL_FUNCTIONS = HELPERS + API + EXTRA
# callables that hand back an OS-level handle (a denylist: whatever is called by one of these names —
# bare, or as the last attribute of a dotted name — is an open site).  urlopen / openpyxl are not listed:
# handles opened by those libraries on lasio's behalf are outside the property's wording (c20.ASSUMPTIONS).
OPENERS = frozenset([
    "open", "FileIO", "fdopen", "open_code", "TextIOWrapper", "BufferedReader", "BufferedWriter",
    "BufferedRandom", "BufferedRWPair", "NamedTemporaryFile", "TemporaryFile", "SpooledTemporaryFile",
    "mkstemp", "GzipFile", "BZ2File", "LZMAFile", "ZipFile", "TarFile", "popen", "Popen", "openpty",
    "pipe", "pipe2", "dup", "dup2", "socket", "socketpair", "create_connection", "fromfd", "makefile",
    "mmap", "memmap", "DataSource", "StreamReaderWriter", "EncodedFile", "FileInput",
])
# constructors of in-memory objects: never a handle, whatever their arguments
SAFE_CTORS = frozenset(["StringIO", "BytesIO"])
# the only callees a lasio function may use and still count as "returns no handle it opened"
PURE_CALLEES = frozenset(["isinstance", "str", "repr", "len", "absolute", "__str__", "fspath", "resolve"]) | SAFE_CTORS
COQ_NAME = {"adhoc_test_encoding": "skel_adhoc", "open_with_codecs": "skel_open_with_codecs",
            "open_file": "skel_open_file", "read": "skel_read", "write": "skel_write",
            "to_csv": "skel_to_csv", "convert_version": "skel_convert_version"}


class SkelError(Exception):
    pass


def fail(node, msg):
    raise SkelError("line %s: %s" % (getattr(node, "lineno", "?"), msg))


# ---------------------------------------------------------------------------------------
def callee_name(n):
    """last component of the called name: f(..) -> f, a.b.f(..) -> f; None for anything else"""
    if not isinstance(n, ast.Call):
        return None
    if isinstance(n.func, ast.Name):
        return n.func.id
    if isinstance(n.func, ast.Attribute):
        return n.func.attr
    return None


def is_open_call(n):
    return callee_name(n) in OPENERS


def helper_of_call(n):
    if not isinstance(n, ast.Call):
        return None
    f = n.func
    if isinstance(f, ast.Name) and f.id in HELPERS:
        return f.id
    if isinstance(f, ast.Attribute) and f.attr in HELPERS:
        return f.attr
    return None


def is_close_stmt(s):
    """`x.close()` as a statement -> x, else None"""
    if (isinstance(s, ast.Expr) and isinstance(s.value, ast.Call) and not s.value.args
            and not s.value.keywords and isinstance(s.value.func, ast.Attribute)
            and s.value.func.attr == "close" and isinstance(s.value.func.value, ast.Name)):
        return s.value.func.value.id
    return None


def pure(e):
    if e is None or isinstance(e, ast.Constant):
        return True
    if isinstance(e, ast.Name):
        return True
    if isinstance(e, (ast.Tuple, ast.List)):
        return all(pure(x) for x in e.elts)
    return False


def simple_targets(ts):
    for t in ts:
        if isinstance(t, ast.Name):
            continue
        if isinstance(t, (ast.Tuple, ast.List)) and simple_targets(t.elts):
            continue
        return False
    return True


def stored_names(t):
    out = []
    for n in ast.walk(t):
        if isinstance(n, ast.Name) and isinstance(n.ctx, (ast.Store, ast.Del)):
            out.append(n.id)
    return out


# ---------------------------------------------------------------------------------------
class Summary:
    def __init__(self, name):
        self.name = name
        self.coq = COQ_NAME[name]
        self.ret_index = None      # position of the handle in the returned tuple (None: single / none)
        self.ret_hid = None
        self.ret_arity = None      # length of the returned tuple (None: not a tuple)
        self.ret_pcs = False       # the returned variable may hold a caller-supplied object
        self.term = None
        self.lineno = 0
        self.file = ""


class World:
    def __init__(self):
        self.hids = []             # (hid, function, variable, line)
        self.summaries = {}
        self.handle_free_fns = {}  # relfile -> names of module-level functions that call only PURE_CALLEES

    def new_hid(self, fn, var, line):
        h = len(self.hids)
        self.hids.append((h, fn, var, line))
        return h


class FnTr:
    """translation of one function"""

    def __init__(self, world, name, node, relfile):
        self.w = world
        self.name = name
        self.node = node
        self.relfile = relfile
        a = node.args
        self.params = {x.arg for x in a.posonlyargs + a.args + a.kwonlyargs}
        if a.vararg:
            self.params.add(a.vararg.arg)
        if a.kwarg:
            self.params.add(a.kwarg.arg)
        self.hid = {}              # variable -> handle id
        self.pcs = set(self.params)   # variables that may hold caller-supplied objects
        self.flags = {}            # flag name -> guarded variable
        self.rets = None           # list of returned tracked variables (same at every return)
        self.open_lines = []       # (line, hid) of the open sites, for the harness
        self.collect_bindings()
        self.prepass()

    # ---- pre-pass: tracked variables, flags ------------------------------------------
    def prepass(self):
        body = self.node.body
        for n in ast.walk(self.node):
            if n is not self.node and isinstance(n, (ast.FunctionDef, ast.AsyncFunctionDef, ast.ClassDef,
                                                     ast.Lambda)) and self.mentions_io(n):
                fail(n, "nested function/class/lambda touching open/close")
            if isinstance(n, (ast.Global, ast.Nonlocal, ast.AsyncWith, ast.AsyncFor, ast.Await,
                              ast.Yield, ast.YieldFrom)) or type(n).__name__ in ("Match", "TryStar"):
                fail(n, "unsupported construct %s" % type(n).__name__)
        # variables bound by an open idiom or by a helper returning a handle
        for n in ast.walk(self.node):
            if isinstance(n, ast.Assign) and len(n.targets) == 1:
                t = n.targets[0]
                if is_open_call(n.value):
                    if not isinstance(t, ast.Name):
                        fail(n, "open(..) assigned to something that is not a plain variable")
                    self.bind_open(t.id, n)
                h = helper_of_call(n.value)
                if h is not None:
                    s = self.w.summaries.get(h)
                    if s is None:
                        fail(n, "call of %s before it was translated" % h)
                    if s.ret_hid is not None:
                        v = self.ret_target(t, s, n)
                        if v in self.hid and self.hid[v] != s.ret_hid:
                            fail(n, "variable %s bound to two different handles" % v)
                        self.hid[v] = s.ret_hid
                        if s.ret_pcs:
                            self.pcs.add(v)
            if isinstance(n, ast.With):
                for it in n.items:
                    if is_open_call(it.context_expr):
                        if len(n.items) != 1:
                            fail(n, "with-statement with several items")
                        if it.optional_vars is None:
                            self.bind_open("<anonymous@%d>" % n.lineno, n)
                        elif isinstance(it.optional_vars, ast.Name):
                            self.bind_open(it.optional_vars.id, n)
                        else:
                            fail(n, "with open(..) as <not a plain variable>")
        # flags: `if F: x.close()`
        for n in ast.walk(self.node):
            if isinstance(n, ast.If) and isinstance(n.test, ast.Name) and len(n.body) == 1 \
                    and not n.orelse and is_close_stmt(n.body[0]) is not None:
                f, x = n.test.id, is_close_stmt(n.body[0])
                if self.flags.get(f, x) != x:
                    fail(n, "flag %s guards two variables" % f)
                self.flags[f] = x
        # variables closed explicitly get an id too (parameters closed by the function)
        for n in ast.walk(self.node):
            if isinstance(n, ast.stmt):
                x = is_close_stmt(n)
                if x is not None and x not in self.hid:
                    if x in self.params:
                        self.hid[x] = self.w.new_hid(self.name, x, n.lineno)
                    else:
                        fail(n, "close() on %s, which no recognised open binds" % x)
        self.first_io_line = min([n.lineno for n in ast.walk(self.node)
                                  if isinstance(n, ast.Call) and (is_open_call(n) or helper_of_call(n))]
                                 or [10 ** 9])
        self.check_flags()

    def bind_open(self, var, node):
        if var not in self.hid:
            self.hid[var] = self.w.new_hid(self.name, var, node.lineno)
        self.open_lines.append((node.lineno, self.hid[var]))

    def ret_target(self, t, s, n):
        if s.ret_index is None:
            if not isinstance(t, ast.Name):
                fail(n, "result of %s must be bound to a plain variable" % s.name)
            return t.id
        if not isinstance(t, ast.Tuple) or len(t.elts) <= s.ret_index \
                or not isinstance(t.elts[s.ret_index], ast.Name):
            fail(n, "result of %s must be unpacked into a tuple with a plain variable at position %d"
                 % (s.name, s.ret_index))
        # the Call node grants the caller's variable the handle: sound only if nothing can fail between the
        # callee's `return` and the store into that variable — the tuple has exactly the callee's arity (no
        # ValueError on unpacking) and every target stored BEFORE the handle is a plain name (stores run left
        # to right; `self.x, f = helper()` could raise with the open file bound to nothing)
        if any(isinstance(e, ast.Starred) for e in t.elts) or len(t.elts) != s.ret_arity:
            fail(n, "result of %s (a %d-tuple at every return) unpacked into %d targets"
                 % (s.name, s.ret_arity, len(t.elts)))
        for e in t.elts[: s.ret_index]:
            if not isinstance(e, ast.Name):
                fail(n, "a store that can raise precedes the store of the handle returned by %s" % s.name)
        return t.elts[s.ret_index].id

    def check_flags(self):
        """F = False only at the top of the function before any open; F = True only next to the
        open of the guarded variable; every open of a flag-guarded variable has its F = True;
        F is read only as the test of `if F: x.close()`."""
        if not self.flags:
            return
        ok_nodes = set()
        top = self.node.body

        def is_const_assign(s, f, val):
            return (isinstance(s, ast.Assign) and len(s.targets) == 1 and isinstance(s.targets[0], ast.Name)
                    and s.targets[0].id == f and isinstance(s.value, ast.Constant) and s.value.value is val)

        def is_open_of(s, x):
            return (isinstance(s, ast.Assign) and len(s.targets) == 1 and isinstance(s.targets[0], ast.Name)
                    and s.targets[0].id == x and is_open_call(s.value))

        def blocks(node, in_try):
            for field in ("body", "orelse", "finalbody"):
                b = getattr(node, field, None)
                if isinstance(b, list) and b and isinstance(b[0], ast.stmt):
                    yield b, in_try or (isinstance(node, ast.Try) and field == "body")
            for h in getattr(node, "handlers", []) or []:
                yield h.body, in_try

        def visit(node, in_try):
            for b, it in blocks(node, in_try):
                for i, s in enumerate(b):
                    for f, x in self.flags.items():
                        if is_const_assign(s, f, False):
                            if b is not top or s.lineno >= self.first_io_line:
                                fail(s, "flag %s reset to False after an open" % f)
                            ok_nodes.add(s.targets[0])
                        if is_const_assign(s, f, True):
                            nxt = b[i + 1] if i + 1 < len(b) else None
                            prv = b[i - 1] if i > 0 else None
                            if nxt is not None and is_open_of(nxt, x):
                                if it:
                                    fail(s, "flag %s set before the open inside a try block" % f)
                            elif not (prv is not None and is_open_of(prv, x)):
                                fail(s, "flag %s set to True away from the open of %s" % (f, x))
                            ok_nodes.add(s.targets[0])
                        if is_open_of(s, x):
                            nxt = b[i + 1] if i + 1 < len(b) else None
                            prv = b[i - 1] if i > 0 else None
                            if not ((nxt is not None and is_const_assign(nxt, f, True))
                                    or (prv is not None and is_const_assign(prv, f, True))):
                                fail(s, "open of %s without setting its flag %s" % (x, f))
                        if isinstance(s, ast.If) and isinstance(s.test, ast.Name) and s.test.id == f \
                                and len(s.body) == 1 and not s.orelse and is_close_stmt(s.body[0]) == x:
                            ok_nodes.add(s.test)
                    visit(s, it)

        visit(self.node, False)
        for n in ast.walk(self.node):
            if isinstance(n, ast.Name) and n.id in self.flags and n not in ok_nodes:
                fail(n, "opened-flag %s used outside the recognised idiom" % n.id)
        for f, x in self.flags.items():
            for n in ast.walk(self.node):
                if isinstance(n, ast.With):
                    for it in n.items:
                        if isinstance(it.optional_vars, ast.Name) and it.optional_vars.id == x:
                            fail(n, "flag-guarded variable %s also bound by with" % x)

    def name_is_handle_free(self, nm, seen):
        """nm is an untracked parameter, or a local every binding of which is a handle-free value"""
        if nm in self.hid or nm in OPENERS or nm in seen:
            return False
        bs = self.bindings.get(nm)
        if bs is None:
            return nm in self.params
        return all(b is not None and self.handle_free_value(b, seen | {nm}) for b in bs)

    def collect_bindings(self):
        """name -> list of the values it is assigned (None = bound in a way that is not `name = value`)"""
        self.bindings = {}
        for n in ast.walk(self.node):
            if isinstance(n, ast.Assign):
                for t in n.targets:
                    if isinstance(t, ast.Name):
                        self.bindings.setdefault(t.id, []).append(n.value)
                    else:
                        for nm in stored_names(t):
                            self.bindings.setdefault(nm, []).append(None)
            elif isinstance(n, (ast.AnnAssign, ast.AugAssign, ast.NamedExpr)):
                for nm in stored_names(n.target):
                    self.bindings.setdefault(nm, []).append(None)
            elif isinstance(n, (ast.For, ast.comprehension)):
                for nm in stored_names(n.target):
                    self.bindings.setdefault(nm, []).append(None)
            elif isinstance(n, ast.With):
                for it in n.items:
                    if it.optional_vars is not None:
                        for nm in stored_names(it.optional_vars):
                            self.bindings.setdefault(nm, []).append(None)
            elif isinstance(n, ast.ExceptHandler) and n.name:
                self.bindings.setdefault(n.name, []).append(None)
            elif isinstance(n, (ast.Import, ast.ImportFrom)):
                for a in n.names:
                    self.bindings.setdefault((a.asname or a.name).split(".")[0], []).append(None)
            elif isinstance(n, (ast.FunctionDef, ast.ClassDef)) and n is not self.node:
                self.bindings.setdefault(n.name, []).append(None)
        for nm in self.params:
            if nm in self.bindings:
                self.bindings[nm].append(ast.Constant(value=None))     # the caller's value: not opened by lasio

    # ---- fail-closed scan of anything translated generically --------------------------
    def mentions_io(self, node):
        for n in ast.walk(node):
            if is_open_call(n) or helper_of_call(n):
                return True
            if isinstance(n, ast.Name) and (n.id in OPENERS or n.id in HELPERS):
                return True
            if isinstance(n, ast.Attribute) and (n.attr in ("close", "__exit__", "__enter__", "detach", "closefd")
                                                 or n.attr in OPENERS or n.attr in HELPERS):
                return True
            if isinstance(n, ast.Constant) and isinstance(n.value, str) and (n.value == "close" or n.value in OPENERS):
                return True
            if isinstance(n, ast.alias) and (n.name.split(".")[-1] in OPENERS or (n.asname or "") in OPENERS):
                return True
        return False

    def generic_ok(self, node, what, allow_store=False):
        """node (an expression or a simple statement) is about to become Skip/MayRaise"""
        if node is None:
            return
        if self.mentions_io(node):
            fail(node, "%s involves open/close/a translated helper outside the recognised idioms" % what)
        for n in ast.walk(node):
            if isinstance(n, ast.Name) and n.id in self.flags:
                fail(n, "opened-flag %s used outside the recognised idiom" % n.id)
            if isinstance(n, ast.Name) and isinstance(n.ctx, (ast.Store, ast.Del)) and n.id in self.hid \
                    and not (allow_store and isinstance(n.ctx, ast.Store)):
                fail(n, "tracked variable %s rebound outside the recognised idioms" % n.id)
            if isinstance(n, ast.NamedExpr):
                fail(n, "assignment expression")

    # ---- statements -------------------------------------------------------------------
    def block(self, stmts, top=False):
        out = []
        for s in stmts:
            out.extend(self.stmt(s, top))
        return out

    def seq(self, items):
        return ("Seqs", items)

    def expr_effect(self, e, what, line):
        """[] if e is pure, [MayRaise] otherwise (after the fail-closed scan)"""
        self.generic_ok(e, what)
        return [] if pure(e) else [("MayRaise", line, what)]

    def close_of(self, x, node, guarded_by_flag):
        if x not in self.hid:
            fail(node, "close() on %s, which no recognised open binds" % x)
        if x in self.pcs and not guarded_by_flag:
            return ("CloseArg", self.hid[x], node.lineno, x)
        return ("Close", self.hid[x], node.lineno, x)

    def stmt(self, s, top=False):
        L = s.lineno
        if isinstance(s, ast.Pass):
            return []
        if isinstance(s, ast.Break):
            return [("Break", L)]
        if isinstance(s, ast.Continue):
            return [("Continue", L)]
        if isinstance(s, ast.Expr):
            x = is_close_stmt(s)
            if x is not None:
                if x in self.flags.values():
                    fail(s, "unguarded close() of flag-guarded variable %s" % x)
                return [self.close_of(x, s, False)]
            h = helper_of_call(s.value)
            if h is not None:
                return self.call_helper(s, s.value, None)
            if isinstance(s.value, ast.Constant):
                return []
            return self.expr_effect(s.value, "expression", L)
        if isinstance(s, ast.Assign):
            return self.assign(s, top)
        if isinstance(s, ast.AnnAssign):
            if s.value is None:
                return []
            self.generic_ok(s, "annotated assignment")
            return [("MayRaise", L, "annotated assignment")]
        if isinstance(s, ast.AugAssign):
            self.generic_ok(s, "augmented assignment")
            return [("MayRaise", L, "augmented assignment")]
        if isinstance(s, (ast.Raise, ast.Assert, ast.Import, ast.ImportFrom, ast.Delete)):
            self.generic_ok(s, type(s).__name__.lower())
            if isinstance(s, (ast.Import, ast.ImportFrom)):
                for a in s.names:
                    nm = (a.asname or a.name).split(".")[0]
                    if nm in self.hid or nm in self.flags or nm in OPENERS:
                        fail(s, "import rebinds %s" % nm)
            return [("MayRaise", L, type(s).__name__.lower())]
        if isinstance(s, ast.Return):
            return self.ret(s)
        if isinstance(s, ast.If):
            return self.if_(s)
        if isinstance(s, (ast.For, ast.While)):
            return self.loop(s)
        if isinstance(s, ast.Try):
            return self.try_(s)
        if isinstance(s, ast.With):
            return self.with_(s)
        if isinstance(s, (ast.FunctionDef, ast.ClassDef)):
            self.generic_ok(s, "nested definition")
            if s.name in self.hid or s.name in self.flags:
                fail(s, "definition rebinds %s" % s.name)
            return [("MayRaise", L, "nested definition")]
        fail(s, "unsupported statement %s" % type(s).__name__)

    def assign(self, s, top):
        L = s.lineno
        if len(s.targets) == 1 and isinstance(s.targets[0], ast.Name):
            t = s.targets[0].id
            if is_open_call(s.value):
                for a in list(s.value.args) + [k.value for k in s.value.keywords]:
                    self.generic_ok(a, "argument of open")
                if isinstance(s.value.func, ast.Attribute):
                    self.generic_ok(s.value.func.value, "receiver of .open")
                return [("Open", self.hid[t], L, t)]
            if t in self.flags:
                return []          # checked by check_flags
        h = helper_of_call(s.value)
        if h is not None and len(s.targets) == 1:
            return self.call_helper(s, s.value, s.targets[0])
        # aliasing a tracked variable (y = x, self.f = x) is not a recognised idiom
        vals = s.value.elts if isinstance(s.value, (ast.Tuple, ast.List)) else [s.value]
        for v in vals:
            if isinstance(v, ast.Name) and v.id in self.hid:
                fail(s, "tracked variable %s aliased" % v.id)
        self.generic_ok(s, "assignment", allow_store=True)
        out = [] if (pure(s.value) and simple_targets(s.targets)) else [("MayRaise", L, "assignment")]
        # x = <not a file lasio opens>, e.g. the sentinel file_obj = "": the analysis rejects
        # it wherever x may still hold an open file.  The value must be one this table KNOWS not to be a
        # handle: a constant, an untracked name, an in-memory constructor, or a lasio function that calls
        # nothing but isinstance/str/...; anything else (x = io.FileIO(p), x = os.fdopen(fd), x = helper(p)
        # with an unknown helper, tuple unpacking of a call) could be a file opened through an API the
        # translator does not know, and x is later closed / returned as THE handle: fail closed.
        for t in s.targets:
            for nm in stored_names(t):
                if nm in self.hid:
                    if not (isinstance(t, ast.Name) and self.handle_free_value(s.value)):
                        fail(s, "tracked variable %s bound from a value that cannot be classified as "
                                "not-a-handle (only constants, untracked names, %s and call-free lasio "
                                "functions are)" % (nm, "/".join(sorted(SAFE_CTORS))))
                    out.append(("Rebind", self.hid[nm], L, nm))
        return out

    def handle_free_value(self, v, seen=None):
        if isinstance(v, ast.Constant):
            return True
        if isinstance(v, ast.Name):
            return self.name_is_handle_free(v.id, seen or frozenset())
        if isinstance(v, ast.Call):
            nm = callee_name(v)
            if nm in SAFE_CTORS:
                return True
            if isinstance(v.func, ast.Name) and nm in self.w.handle_free_fns.get(self.relfile, ()):
                return True
        return False

    def call_helper(self, s, call, target):
        L = s.lineno
        h = helper_of_call(call)
        sm = self.w.summaries.get(h)
        if sm is None:
            fail(s, "call of %s before it was translated" % h)
        out = []
        for a in list(call.args) + [k.value for k in call.keywords]:
            self.generic_ok(a, "argument of %s" % h)
        if isinstance(call.func, ast.Attribute):
            self.generic_ok(call.func.value, "receiver")
        out.append(("MayRaise", L, "arguments of %s" % h))
        out.append(("Call", sm.coq, L))
        if sm.ret_hid is not None:
            if target is None:
                fail(s, "result of %s (an open file) is dropped" % h)
            v = self.ret_target(target, sm, s)
            assert self.hid[v] == sm.ret_hid
            others = [e for i, e in enumerate(target.elts) if i != sm.ret_index] if isinstance(target, ast.Tuple) else []
        else:
            others = [target] if target is not None else []
        for o in others:
            for nm in stored_names(o):
                if nm in self.hid or nm in self.flags:
                    fail(s, "tracked variable %s rebound" % nm)
            self.generic_ok(o, "target")
        if not simple_targets(others):
            out.append(("MayRaise", L, "store of the other results"))
        return out

    def ret(self, s):
        L = s.lineno
        v = s.value
        elts = [] if v is None else (list(v.elts) if isinstance(v, ast.Tuple) else [v])
        names = [e.id for e in elts if isinstance(e, ast.Name) and e.id in self.hid]
        idx = [i for i, e in enumerate(elts) if isinstance(e, ast.Name) and e.id in self.hid]
        if len(names) > 1:
            fail(s, "several handles returned")
        out = []
        # tracked names deeper inside the value are ordinary uses
        if v is not None:
            self.generic_ok(v, "return value")
            if not pure(v):
                out.append(("MayRaise", L, "return value"))
        r = (names, (idx[0] if (idx and isinstance(v, ast.Tuple)) else None),
             (len(v.elts) if (names and isinstance(v, ast.Tuple)) else None))
        if names and isinstance(v, ast.Tuple) and any(isinstance(e, ast.Starred) for e in v.elts):
            fail(s, "starred element in a returned tuple that carries a handle")
        if self.rets is None:
            self.rets = r
        elif self.rets != r:
            fail(s, "return statements hand over different handles")
        out.append(("Return", L))
        return out

    def if_(self, s):
        L = s.lineno
        # if F: x.close()
        if isinstance(s.test, ast.Name) and s.test.id in self.flags:
            x = self.flags[s.test.id]
            if len(s.body) == 1 and not s.orelse and is_close_stmt(s.body[0]) == x:
                c = self.close_of(x, s.body[0], True)
                return [("Guarded", self.hid[x], c, L, "if %s" % s.test.id)]
            fail(s, "opened-flag %s used outside the recognised idiom" % s.test.id)
        # if hasattr(x, "close"): x.close()
        t = s.test
        if (isinstance(t, ast.Call) and isinstance(t.func, ast.Name) and t.func.id == "hasattr"
                and len(t.args) == 2 and not t.keywords and isinstance(t.args[0], ast.Name)
                and isinstance(t.args[1], ast.Constant) and t.args[1].value == "close"):
            x = t.args[0].id
            if len(s.body) == 1 and not s.orelse and is_close_stmt(s.body[0]) == x:
                if x in self.flags.values():
                    fail(s, "unguarded close() of flag-guarded variable %s" % x)
                c = self.close_of(x, s.body[0], False)
                return [("Guarded", self.hid[x], c, L, 'if hasattr(%s, "close")' % x)]
            fail(s, 'hasattr(.., "close") outside the recognised idiom')
        out = self.expr_effect(s.test, "if-test", L)
        a = self.block(s.body)
        b = self.block(s.orelse)
        out.append(("If", self.seq(a), self.seq(b), L))
        return out

    def loop(self, s):
        L = s.lineno
        if s.orelse:
            fail(s, "loop with else clause")
        out = []
        if isinstance(s, ast.For):
            for nm in stored_names(s.target):
                if nm in self.hid or nm in self.flags:
                    fail(s, "loop variable rebinds %s" % nm)
            self.generic_ok(s.target, "loop target")
            self.generic_ok(s.iter, "iterable")
            out.append(("MayRaise", L, "iter()"))
            head = ("MayRaise", L, "next()")
        else:
            self.generic_ok(s.test, "while-test")
            head = ("MayRaise", L, "while-test")
        body = [head] + self.block(s.body)
        out.append(("Loop", self.seq(body), L))
        out.append(("MayRaise", L, "last next()/test"))
        return out

    def try_(self, s):
        L = s.lineno
        if s.orelse:
            fail(s, "try with else clause")
        t = self.seq(self.block(s.body))
        if s.handlers:
            hs = []
            for h in s.handlers:
                if h.name and (h.name in self.hid or h.name in self.flags):
                    fail(h, "except ... as rebinds %s" % h.name)
                self.generic_ok(h.type, "exception class")
                hs.append(self.seq(self.block(h.body)))
            hterm = hs[-1]
            for x in reversed(hs[:-1]):
                hterm = ("If", x, hterm, L)
            t = ("TryExcept", t, hterm, L)
        if s.finalbody:
            t = ("TryFinally", t, self.seq(self.block(s.finalbody)), L)
        return [t]

    def with_(self, s):
        L = s.lineno
        if len(s.items) == 1 and is_open_call(s.items[0].context_expr):
            it = s.items[0]
            c = it.context_expr
            for a in list(c.args) + [k.value for k in c.keywords]:
                self.generic_ok(a, "argument of open")
            if isinstance(c.func, ast.Attribute):
                self.generic_ok(c.func.value, "receiver of .open")
            var = it.optional_vars.id if it.optional_vars is not None else "<anonymous@%d>" % L
            return [("With", self.hid[var], self.seq(self.block(s.body)), L, var)]
        fail(s, "with-statement over something that is not open(..)")

    def translate(self):
        items = self.block(self.node.body, top=True)
        names, idx, arity = self.rets if self.rets is not None else ([], None, None)
        sm = Summary(self.name)
        sm.term = self.seq(items)
        sm.lineno = self.node.lineno
        sm.file = self.relfile
        if names:
            sm.ret_hid = self.hid[names[0]]
            sm.ret_index = idx
            sm.ret_arity = arity
            sm.ret_pcs = names[0] in self.pcs
        sm.open_lines = sorted(set(self.open_lines))
        return sm


# ---------------------------------------------------------------------------------------
def show(t, ind):
    pad = "  " * ind
    k = t[0]
    if k == "Seqs":
        items = t[1]
        if not items:
            return pad + "Skip"
        if len(items) == 1:
            return show(items[0], ind)
        return pad + "seqs [\n" + ";\n".join(show(x, ind + 1) for x in items) + "\n" + pad + "]"
    if k == "MayRaise":
        return pad + "MayRaise (* L%d %s *)" % (t[1], t[2])
    if k in ("Break", "Continue", "Return"):
        return pad + "%s (* L%d *)" % (k, t[1])
    if k in ("Open", "Close", "CloseArg", "Rebind"):
        extra = (" " + t[4]) if len(t) > 4 else ""
        return pad + "%s %d (* L%d %s%s *)" % (k, t[1], t[2], t[3], extra)
    if k == "Call":
        return pad + "Call %s (* L%d *)" % (t[1], t[2])
    if k == "If":
        return pad + "If (* L%d *)\n%s\n%s" % (t[3], paren(t[1], ind + 1), paren(t[2], ind + 1))
    if k == "Loop":
        return pad + "Loop (* L%d *)\n%s" % (t[2], paren(t[1], ind + 1))
    if k in ("TryFinally", "TryExcept"):
        return pad + "%s (* L%d *)\n%s\n%s" % (k, t[3], paren(t[1], ind + 1), paren(t[2], ind + 1))
    if k == "Guarded":
        return pad + "Guarded %d (* L%d %s *)\n%s" % (t[1], t[3], t[4], paren(t[2], ind + 1))
    if k == "With":
        return pad + "With %d (* L%d %s *)\n%s" % (t[1], t[3], t[4], paren(t[2], ind + 1))
    raise SkelError("internal: unknown node %r" % (k,))


def paren(t, ind):
    s = show(t, ind)
    pad = "  " * ind
    return pad + "(" + s[len(pad):] + ")"


def find_functions(repo):
    out = {}
    for rel, names, cls in (("lasio/reader.py", HELPERS, None), ("lasio/las.py", API, "LASFile"),
                            ("lasio/convert_version.py", EXTRA, None)):
        src = open(os.path.join(repo, rel)).read()
        tree = ast.parse(src)
        scope = tree.body
        if cls:
            cs = [n for n in tree.body if isinstance(n, ast.ClassDef) and n.name == cls]
            if len(cs) != 1:
                raise SkelError("class %s not found in %s" % (cls, rel))
            scope = cs[0].body
        for nm in names:
            fs = [n for n in scope if isinstance(n, ast.FunctionDef) and n.name == nm]
            if len(fs) != 1:
                raise SkelError("function %s not found exactly once in %s" % (nm, rel))
            out[nm] = (fs[0], rel)
    return out


def handle_free_functions(tree):
    """module-level functions that call nothing but PURE_CALLEES and each other, define nothing and mention
    no opener: whatever they return is not a handle they opened (reader.check_for_path_obj)"""
    defs = {}
    for n in tree.body:
        if isinstance(n, ast.FunctionDef):
            defs.setdefault(n.name, []).append(n)
    memo = {}

    def ok(name, stack):
        if name in memo:
            return memo[name]
        if name in stack or len(defs.get(name, [])) != 1:
            return False
        node = defs[name][0]
        good = True
        for n in ast.walk(node):
            if isinstance(n, ast.Call):
                c = callee_name(n)
                if c in PURE_CALLEES:
                    continue
                if isinstance(n.func, ast.Name) and c in defs and ok(c, stack | {name}):
                    continue
                good = False
            elif isinstance(n, (ast.Lambda, ast.Yield, ast.YieldFrom, ast.Await, ast.With, ast.AsyncWith,
                                ast.Global, ast.Nonlocal, ast.ClassDef)):
                good = False
            elif isinstance(n, ast.FunctionDef) and n is not node:
                good = False
            elif isinstance(n, ast.Name) and n.id in OPENERS:
                good = False
            elif isinstance(n, ast.Attribute) and n.attr in OPENERS:
                good = False
            elif isinstance(n, ast.alias) and (n.name.split(".")[-1] in OPENERS or (n.asname or "") in OPENERS):
                good = False
        memo[name] = good
        return good

    return {nm for nm in defs if ok(nm, frozenset())}


def package_modules(repo):
    """every Python source file of the lasio package (relative paths), sub-packages included"""
    out = []
    base = os.path.join(repo, "lasio")
    for root, dirs, files in os.walk(base):
        dirs[:] = sorted(x for x in dirs if x != "__pycache__")
        for f in sorted(files):
            if f.endswith(".py") or f.endswith(".pyw") or f.endswith(".pyx"):
                out.append(os.path.relpath(os.path.join(root, f), repo).replace(os.sep, "/"))
    return sorted(out)


def package_closure(repo):
    """(kept for callers of the old name) — now the whole package, not the modules las.py reaches"""
    return package_modules(repo)


def other_open_sites(repo, fns):
    """open sites anywhere in the lasio package outside the translated functions (an `open` there would be
    invisible to the skeletons):
      * a call of any name of OPENERS (open, io.open, x.open, io.FileIO, os.fdopen, gzip.GzipFile, ...);
      * a way of reaching an opener under another name: `f = open`, `from io import open as f`,
        `getattr(io, "open")`, a re-definition `open = ...`.
    `def open(..)` (lasio.examples.open) is not a site by itself: calls of it are still calls of the name
    `open` (sites), and an opener call in its body is a site of its own."""
    covered = {}
    for nm, (node, rel) in fns.items():
        covered.setdefault(rel, []).append((node.lineno, node.end_lineno))
    sites = []
    for rel in package_modules(repo):
        tree = ast.parse(open(os.path.join(repo, rel)).read())
        callees = {id(n.func) for n in ast.walk(tree) if isinstance(n, ast.Call)}
        for n in ast.walk(tree):
            hit = is_open_call(n)
            if isinstance(n, ast.Name) and n.id in OPENERS:
                if isinstance(n.ctx, (ast.Store, ast.Del)) or id(n) not in callees:
                    hit = True                                   # open = ..., f = open, map(open, ..)
            if isinstance(n, ast.Attribute) and n.attr in OPENERS and id(n) not in callees:
                hit = True                                       # f = io.open
            if isinstance(n, (ast.Import, ast.ImportFrom)):
                for a in n.names:
                    if a.asname and a.asname != a.name and (a.name.split(".")[-1] in OPENERS or a.asname in OPENERS):
                        hit = True                               # from io import open as f
            if isinstance(n, ast.Call) and callee_name(n) in ("getattr", "__getattribute__", "attrgetter", "methodcaller") \
                    and any(isinstance(a, ast.Constant) and a.value in OPENERS for a in n.args):
                hit = True
            if hit and not any(a <= n.lineno <= b for a, b in covered.get(rel, [])):
                sites.append("%s:%d" % (rel, n.lineno))
    return sorted(set(sites))


def translate(repo):
    fns = find_functions(repo)
    w = World()
    for rel in sorted({rel for _, rel in fns.values()}):
        w.handle_free_fns[rel] = handle_free_functions(ast.parse(open(os.path.join(repo, rel)).read()))
    for nm in ALL_FUNCTIONS:
        node, rel = fns[nm]
        try:
            w.summaries[nm] = FnTr(w, nm, node, rel).translate()
        except SkelError as e:
            raise SkelError("%s (%s): %s" % (nm, rel, e))
    return w, other_open_sites(repo, fns)


def render(repo):
    w, others = translate(repo)
    out = []
    out.append("(* GENERATED by translators/skeleton.py from lasio/las.py, lasio/reader.py and lasio/convert_version.py — do not edit.")
    out.append("   handle ids (one per variable that holds a file; a helper's returned variable and the")
    out.append("   caller's target share the id):")
    for h, fn, var, line in w.hids:
        out.append("     %d = %s in %s (first bound at line %d)" % (h, var, fn, line))
    out.append("*)")
    out.append("From Coq Require Import List String.")
    out.append("Import ListNotations.")
    out.append("Require Import IOSkel.")
    out.append("Open Scope string_scope.")
    out.append("")
    for nm in ALL_FUNCTIONS:
        sm = w.summaries[nm]
        out.append("(* %s:%d  def %s *)" % (sm.file, sm.lineno, nm))
        out.append("Definition %s : stmt :=\n%s." % (sm.coq, show(sm.term, 1)))
        out.append("Definition rets_%s : list nat := [%s]." %
                   (sm.coq[5:], "" if sm.ret_hid is None else str(sm.ret_hid)))
        out.append("")
    out.append("(* opener call sites / opener aliases anywhere in the lasio package (%d source files scanned: %s)"
               % (len(package_modules(repo)), ", ".join(package_modules(repo))))
    out.append("   outside the translated functions *)")
    out.append("Definition other_open_sites : list string := [%s]." % "; ".join('"%s"' % s for s in others))
    out.append("")
    out.append("(* source line of every open site -> handle id (used by the fault-injection harness) *)")
    rows = []
    for nm in ALL_FUNCTIONS:
        sm = w.summaries[nm]
        for line, hid in sm.open_lines:
            rows.append('("%s:%d", %d)' % (sm.file, line, hid))
    out.append("Definition open_sites : list (string * nat) := [%s]." % "; ".join(rows))
    return "\n".join(out) + "\n"


def open_site_table(repo):
    """{(relfile, line): hid} for the harness"""
    w, _ = translate(repo)
    t = {}
    for nm in ALL_FUNCTIONS:
        sm = w.summaries[nm]
        for line, hid in sm.open_lines:
            t[(sm.file, line)] = hid
    return t


def variable_hids(repo):
    """{(function, variable): hid}"""
    w, _ = translate(repo)
    return {(fn, var): h for h, fn, var, _ in w.hids}


def local_open_sites(repo):
    """{function: {(relfile, line)}} — open sites whose handle the function does not return"""
    w, _ = translate(repo)
    t = {}
    for nm in ALL_FUNCTIONS:
        sm = w.summaries[nm]
        t[nm] = {(sm.file, line) for line, hid in sm.open_lines if hid != sm.ret_hid}
    return t


def caller_object_hids(repo):
    """{function: hid} — the id under which close() of an object the caller supplied appears in the function's
    skeleton (its CloseArg node; read() closes the file object it is given under the id of open_file's result)"""
    w, _ = translate(repo)

    def walk(t):
        if isinstance(t, tuple) and t and t[0] == "CloseArg":
            yield t[1]
        if isinstance(t, (tuple, list)):
            for x in t:
                if isinstance(x, (tuple, list)):
                    for y in walk(x):
                        yield y

    out = {}
    for nm in ALL_FUNCTIONS:
        hs = sorted(set(walk(w.summaries[nm].term)))
        if len(hs) == 1:
            out[nm] = hs[0]
    return out


if __name__ == "__main__":
    import sys
    print(render(sys.argv[1] if len(sys.argv) > 1 else os.environ.get("LASIO_REPO", "/repo")))
