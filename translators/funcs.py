"""Translate small, pure, branch-logic functions of lasio into Gallina (Gen/Funcs.v).

Each function listed in SPECS is located in /repo's working tree by name (ast), its
parameter list is checked against the spec, and its body is translated by a SMALL typed
expression / statement translator.  Fail-closed: every construct outside the supported subset
(see `Tr.expr`, `Tr.stmts`) raises TranslateError - nothing is guessed.  The spec of a function
declares the TYPES of its parameters (and of locals whose first value is an empty literal); what
the translator emits is then checked by Coq's type checker, and a pin theorem
(coq/Proofs/FuncsPin*.v) proves it equal to the hand-written model function for every input.

Supported subset
  types       str (list N), int (Z), bool, dyn (a header value: str / number / None, behind the
              operation record `dyn_ops`: truthiness, == 0, is None, str(), int / str injections),
              pat / pats (pattern = list of fragment names; only in "patterns" mode),
              list of T, dict with str keys (association list in insertion order), optional T
              (a parameter defaulting to None), item (HeaderItem / CurveItem: record py_item of the
              session mnemonic, original mnemonic, unit, value : dyn, descr), keys (the **keys of a
              SectionParser method: record py_keys), function (a parameter that is called, a
              nested def, a lambda), version / order table / order entry (defaults.ORDER_DEFINITIONS
              as Gen/Tables.v states it), float (the result of np.float64, behind `num_ops`),
              compiled regex / substitution template (named constants of Gen/Regexes.v)
  expressions Name, self.<declared attribute>, Constant str/int/bool/None,
              s.strip(), s.strip(<const>), s.upper(), s.lower(), s.startswith(e), s.endswith(e),
              s.find(e), s.rfind(e), s.ljust(n), len(s), len(list), s[i] (may raise IndexError: the
              function then returns `option`), s[a:b] with optional int bounds (Python's negative
              / out-of-range bound rules), s.split(<const>)[0], a + b on str / pat / int, a - b on
              int, str * int, -<int>, "<const format with %s only>" % (args), str(e),
              ==, != on str/str and int/int, <, <=, >, >= on int/int, in / not in on str/str and
              str/list of str, `v == 0` / `v != 0` and `v is None` / `v is not None` on dyn,
              `x is None` on an optional, and / or / not (operands through Python truthiness),
              e1 if c else e2, [e for x in list] (element must not raise), max(list of int)
              (ValueError on []: option), [<str constants>], {<str const>: e, ...} and [] / {} for a
              local with a declared type, d[k] (KeyError: option), d[k] = v, d.get(k, default),
              keys["name"|"unit"|"value"|"descr"], item.<field>, item.useful_mnemonic (the translated
              property), item[k] (the translated HeaderItem.__getitem__), HeaderItem(m, u, v, d) /
              CurveItem(m, u, v, d) (pyo_new_item: what __init__ stores), table[version][section]
              (KeyError: option), entry[0], entry[1:], calls of a function-typed name,
              self.<method translated earlier>(args) (its self attributes are passed on),
              re.search(<const pattern>, s) (truthiness only; the pattern is parsed by CPython's
              own re parser, translators/regexes.py), re.sub(pattern, template, s) and
              <MODULE_REGEX>.fullmatch(s) on named constants of Gen/Regexes.v,
              isinstance(x, str|int|float|bool|slice) and hasattr(x, <const>) on a str-typed x and
              `a is b` between a str and an item (decided by the types; as the test of an `if` the
              unreachable branch is not translated), source expressions the spec maps to a constant
              or to an operation of an oracle record (`const_exprs`, `oracles`)
  statements  docstring, pass, logger.<level>(...) (skipped: logging is not modelled and its arguments
              are assumed not to raise), local `name = expr`, `a, b = <pair constant>`, `name += e`,
              `lst.append(e)`, `d[k] = v`, if / elif / else, return, raise (the function returns
              option; None = it raised), `if x is None: x = e` on an optional parameter,
              for x in <list> / for k, v in d.items() / for a, b in <order entries> (a fold over the
              variables the body rebinds; no break / continue / raise; a body that may raise makes
              the fold option-valued; a body with `return` makes it sum-valued, inl = returned;
              for-else runs the else clause after the loop), nested def and `name = lambda`
              (Gallina closures; refused if a captured variable is rebound at or after the
              definition or if defined in a loop), `return lambda p: e` for a function declared
              `returns_lambda` (the Gallina function takes p after its own parameters; falling off
              the end = None: calling the result would raise),
              `return self.<this method>(args)` (a fuel-indexed Fixpoint, fuel declared in the spec;
              out of fuel = None),
              `try: ... except AttributeError: pass` (transparent: no supported operation on the
              declared types raises AttributeError), `try: <statements that cannot raise> except: pass`
              (transparent; refused if the body may raise), `try: return F(x)` / `try: v = F(x)` with a
              bare `except:` handler where F is an external call the spec declares as raising (np.int64,
              np.float64): match on the operation's option result
  control     statement lists become nested let / if in continuation-passing style, so a later
              assignment shadows an earlier one exactly as in Python; an `if` without `return`
              is joined (`let '(a, b) := if c then .. else .. in`; str / int values are injected into
              dyn, T into optional T where the branches differ; option-valued if a branch may raise),
              any other `if` duplicates the continuation into both branches.
  more        (second round) int-keyed dicts, range(n), enumerate(l), {k: v for x in l}, [e, ...], list + list,
              l[i] on a list, `l[i].attr = v` (attr setters named by the spec), `x = l[i]; x.set_session_mnemonic_only(m)`
              (the element of l changes; alias tracked until l, i or x is rebound), `flag is False`,
              `"...%d..." % n` through a rendering the spec names (never computed by the translator),
              str.rjust, `k in d`, `name in section` / `section.NAME` (the translated SectionItems.__contains__ /
              __getitem__ on a (flag, items) pair), calls of translated module-level functions of the same module,
              calls with keyword arguments of nested functions translated on their own (NestedDefTr; the def's
              parameter defaults are re-evaluated at the call, refused if their variables are assigned after the
              def), re.match(<pattern of fragments>, s) and m.groupdict() (pyo_groupdict), m is None;
              statements: `while c: body` (a local fixpoint on a fuel the spec declares per loop; out of fuel =
              None; a test that may raise leaves the loop and the function with None), `break` in a for loop (sum-valued fold: left = the loop was left), `if x is None: A else: B`
              on an optional (a match; in B the name is the value), `if <test>: <only logging>` (skipped like
              logging), `file_object.write(e)` for the spec's sink (the text written so far grows by e),
              `try: BODY except <TypeError|IndexError|KeyError|ValueError>: HANDLER` (every operation of BODY that
              raises that class continues with HANDLER with the variables as they are at that point; operations
              whose exception class is unknown are refused there), statements the spec rewrites to an oracle
              assignment (`stmt_rewrites`: numpy in-place masked assignment), `return`-less mutator methods
              (MutatorTr: self is the list, super(C, self).append / insert / __setitem__ / __delitem__ are the
              list operations, a call of another translated mutator replaces self).
  third round a text file open for reading (type `file`: the list of the lines that remain, each with its line end):
              `x = f.readline()` (the next line, "" at the end; f moves on), `for line in f` / `enumerate(f)` /
              `enumerate(f, start=e)` (the remaining lines; f is not available in the body nor after the loop);
              t[k] with a constant k on a tuple of declared shape; `continue` (and `break`) in a for loop whose
              body does not raise, also with inner loops that have no break / continue of their own; an iterated
              expression that may raise (evaluated once, before the loop); `assert c` (AssertionError);
              `try: BODY except <Class>: H else: E` (E and what follows run outside the handler; AssertionError is
              a supported class); [x for x in l if c] (List.filter); len(set(<list of int>)) (pyo_distinct);
              `s in l` / `s not in l` on (compiled pattern, template) pairs (pyo_sub_eqb: equality of the parsed
              pattern and template); <module regex>.findall(s) and line_splitter(s) as lists of "joined" values
              (each match presented as "".join(<its groups>), the only use lasio makes of them; "".join(t) is
              then the value itself); s.replace(<one char>, ""); chr(<int constant>);
              mod.NAME for a module-level constant of another lasio module (`module_consts_decl`: the literal is
              re-read from lasio/mod.py by ast on every run and rendered by its declared type - str / list /
              dict with str keys / tuple / re.compile(<const>) / template; refused if the name is bound more than
              once, if anything in the package assigns into it, deletes from it or calls a mutating method on
              it (aliases are not followed), or if `mod` is not bound exactly once by `from . import mod`).
              generators (NestedDefTr with `yields`): a nested generator function is presented as the list of the
              values it yields when run to its end (`yield e` as a statement appends e; no return / yield from);
              a value of one of two types (SUM: np.float64(item) or the item text) is injected by its static type;
              `n, r = f(...)` from a call that may raise; lists of (pattern, template) pairs compared with == / !=;
              mod.f(args, kw=...) for a translated module-level function of another lasio module (`modules`);
              a file handed to a call is read by the callee: the variable is unavailable until assigned again
              (`file_obj.seek(k)` is a spec-declared rewrite to "the file as it stands at offset k", a parameter);
              BlockTr `before` (statements in front of the anchor), nested defs translated on their own are
              skipped inside a block.
              objects (fourth round): `SectionParser(title, version=v)` is the tuple of attributes the translated
              __init__ sets (`classes`), `parser.section_name2` a projection of it (AttributeError where __init__
              may have left the attribute unset), `parser( **d)` the translated SectionParser.__call__ - which must
              be exactly `item = self.func( **keys); return item`, else refused: the method whose name __init__
              stored, applied to the record of d's name / unit / value / descr entries (pyo_keys_of_dict);
              `SectionItems()`, `section.mnemonic_transforms = True`, `section.append(item)`, `return section` on an
              abstract section (operation record sect_ops); a name the spec lists as an alias of a translated
              function must be its forwarding wrapper (`return f(*args, **kwargs)`, `aliases`); f(args, kw=...) for
              translated functions of the same module; `try: v = <translated call> except: H else: E` (None of the
              call = it raised, whatever the class); `name = "...".format(...)` for a name used only in logging
              calls and raise statements is skipped (`message_names`); `x in (<str constants>)`;
              loops that may raise (`loop_raise`): the fold carries an option of the break / continue state
              (None: an exception left the loop and the function), partial operations are allowed in the body.
              closures of module-level functions that return a lambda (`use_lambdas`): `g = f(args)` binds no Gallina
              value - g stands for the uncurried translation of f applied to the arguments (evaluated and named at
              that point); g(x) is that applied to x, g handed on as a function is fun x => that.  None of the
              translation means "f(args) raised" when it comes from the statements before `return lambda` (the
              creation is then guarded by one application to a witness argument: the lambda's own body cannot
              raise) and "g is None, g(x) raised" when control fell off the end of f; a function with both is
              refused.  f(a, **d): every key of d must name a parameter not given otherwise, a parameter d lacks
              takes its None default.  An argument for a parameter the callee's spec leaves untyped must be a
              constant or a plain name.  s.ljust(w, "<char>").  `for x in <declared item list>: x.value = e`
              (`elem_lists`): the list becomes the list of the changed items (only unit / value / descr, from
              expressions that cannot raise).
              `name = re.compile(<constant>)` (a local compiled pattern), <it>.findall(s), s.split("<one char>")
              (pieces as "joined" values), a dict of local functions, and `return <function value>` for a function
              declared `returns_function` (translated applied to the declared extra parameters).
              open_with_codecs: an argument that is True / False / a str (type autov: py_autoval, truthiness, a bool
              constant assigned to it), truthiness of an optional str / int, int(x), min(a, b), a value / None
              joined to an optional; the file system and the helpers it calls (os.path.getsize, the two
              `with open(..., "rb") as test: raw = test.read(..)` statements - spec rewrites matched as whole
              statements -, get_encoding, adhoc_test_encoding, io.open) are operations of the record world_ops.
  refused     a translated name that is bound a second time in its module / class (or assigned through
              Class.name / setattr / global) is refused: the translation would not be what runs.
  fragments   BlockTr (a block of a big method from an anchor statement to the end of its statement list, or its
              first n statements, as a function of its free variables, self.<attr> as locals): the steering block,
              the reader_n_columns decision and the column-binding block of LASFile.read, the len_numeric_field
              block and the row loop of writer.write.  NestedDefTr: get_column_fmt, get_left_spacing,
              format_data_section_line of writer.write.
              RouteTr (the section-letter chain of LASFile.read), HeaderPostTr (read_header_line's loop
              over m.groupdict()): located by shape, every other statement of the host function must
              not touch the fragment's variables.  ParserInitTr (SectionParser.__init__ as a function of
              (title, version) returning the attributes it sets): every self.<attr> becomes a local
              variable, `self.func = self.<method>` stores the method's name, an attribute some path
              leaves unset is None there (`maybe_unset`); also `version == <float key>`,
              `name in table[version]`, any([...]), tuples with a declared type.
"""
import ast
import os
import sys

import regexes


class TranslateError(Exception):
    pass


STR, INT, BOOL, PAT, PATS, DYN, NONE, MATCH = "str", "int", "bool", "pat", "pats", "dyn", "none", "match"
ITEM, KEYS, VERSION, OTABLE, OENTRY, OEX, FLOATV, REGEX, TPL, ARR, CURVE, SAMPLE, SECTION = \
    "item", "keys", "version", "otable", "oentry", "oex", "floatv", "regex", "tpl", "arr", "curve", "sample", "section"
MATCHOBJ = "matchobj"
FILE, JOINED, SECT, AUTOV, HANDLE = "file", "joined", "sect", "autov", "handle"
PARSER = ("tuple", "str", "str", ("opt", "str"), ("opt", ("dict", "str", "str")))     # what SectionParser.__init__ sets
SUBPAIR = ("tuple", "regex", "tpl")


def LIST(t):
    return ("list", t)


def DICT(k, v):
    return ("dict", k, v)


def OPT(t):
    return ("opt", t)


def FUNC(args, ret):
    return ("func", tuple(args), ret)


def TUPLE(*ts):
    return ("tuple",) + tuple(ts)


def SUM(a, b):
    """a value that is an a or a b (injected by its static type where it is produced)"""
    return ("sum", a, b)


SIMPLE_TYPE = {STR: "list N", INT: "Z", BOOL: "bool", PAT: "list frag", PATS: "list (list frag)", DYN: "V",
               ITEM: "py_item V", KEYS: "py_keys", VERSION: "las_version",
               OTABLE: "list ((las_version * list N) * order_entry)", OENTRY: "order_entry",
               OEX: "(item_order * list (list N))", FLOATV: "F", REGEX: "re", TPL: "list tpl", ARR: "A", CURVE: "C",
               SAMPLE: "Smp", SECTION: "(bool * list (py_item V))",
               MATCHOBJ: "option st", FILE: "list (list N)", JOINED: "list N", SECT: "S", AUTOV: "py_autoval", HANDLE: "H"}


def is_type(ty, kind):
    return isinstance(ty, tuple) and ty[0] == kind


def coq_type(ty):
    """Gallina type of a translator type; KeyError when values of that type cannot be bound"""
    if isinstance(ty, str):
        return SIMPLE_TYPE[ty]
    k = ty[0]
    if k == "list":
        return "list (%s)" % coq_type(ty[1])
    if k == "dict":
        return "list ((%s) * (%s))" % (coq_type(ty[1]), coq_type(ty[2]))
    if k == "opt":
        return "option (%s)" % coq_type(ty[1])
    if k == "func":
        return " -> ".join("(%s)" % coq_type(t) for t in ty[1] + (ty[2],))
    if k == "tuple":
        return "(%s)" % " * ".join("(%s)" % coq_type(t) for t in ty[1:])
    if k == "sum":
        return "((%s) + (%s))" % (coq_type(ty[1]), coq_type(ty[2]))
    raise KeyError(ty)


def mentions(ty, base):
    if isinstance(ty, str):
        return ty in base
    return any(mentions(t, base) for t in ty[1:] if t is not None) if not is_type(ty, "func") \
        else any(mentions(t, base) for t in ty[1] + (ty[2],))


PRELUDE = r"""(* GENERATED by translators/funcs.py from /repo — do not edit *)
From Coq Require Import List NArith ZArith Bool.
Import ListNotations.
Require Import PyStr Regex Regexes Tables.
Open Scope N_scope.

(* ---- fixed prelude: the meaning given to the supported Python operations ------------------ *)
Definition pyo_len (s : list N) : Z := Z.of_nat (List.length s).
(* s.find(p), s.rfind(c): -1 when absent *)
Definition pyo_optZ (o : option nat) : Z := match o with Some i => Z.of_nat i | None => (-1)%Z end.
Definition pyo_find (p s : list N) : Z := pyo_optZ (find p s).
Definition pyo_rfind_char (c : N) (s : list N) : Z := pyo_optZ (rfind_char c s).
Fixpoint pyo_rfind_from (p s : list N) (i : nat) (acc : option nat) : option nat :=
  let acc' := if startswith p s then Some i else acc in
  match s with [] => acc' | _ :: s' => pyo_rfind_from p s' (S i) acc' end.
Definition pyo_rfind (p s : list N) : Z := pyo_optZ (pyo_rfind_from p s 0%nat None).
(* a slice bound i on a sequence of length n: negative counts from the end, then clamp *)
Definition pyo_bound (n : nat) (i : Z) : nat :=
  if (i <? 0)%Z then Z.to_nat (Z.max 0 (i + Z.of_nat n)) else Nat.min (Z.to_nat i) n.
Definition pyo_slice (lo hi : option Z) (s : list N) : list N :=
  let n := List.length s in
  let a := match lo with Some i => pyo_bound n i | None => 0%nat end in
  let b := match hi with Some i => pyo_bound n i | None => n end in
  firstn (b - a) (skipn a s).
(* s[i]: None is IndexError *)
Definition pyo_item (s : list N) (i : Z) : option (list N) :=
  let n := Z.of_nat (List.length s) in
  let j := if (i <? 0)%Z then (i + n)%Z else i in
  if ((0 <=? j) && (j <? n))%Z then Some (firstn 1 (skipn (Z.to_nat j) s)) else None.
(* str.upper() / str.lower(): ASCII exact, other code points unchanged (the approximation the
   models make, see Model/SectionParse.v) *)
Definition pyo_upper (s : list N) : list N := List.map ascii_upper s.
Definition pyo_lower (s : list N) : list N := List.map ascii_lower s.
Definition pyo_in (a b : list N) : bool := contains a b.
Definition pyo_truthy_str (s : list N) : bool := match s with [] => false | _ => true end.
Definition obind {A B : Type} (x : option A) (f : A -> option B) : option B :=
  match x with Some a => f a | None => None end.
(* a value that may be str / number / None: only these observations are translated *)
Record dyn_ops (V : Type) := mk_dyn_ops {
  dyn_truthy : V -> bool;        (* bool(v) *)
  dyn_is_zero : V -> bool;       (* v == 0 *)
  dyn_is_none : V -> bool;       (* v is None *)
  dyn_of_int : Z -> V;
  dyn_of_str : list N -> V;
  dyn_str : V -> list N }.       (* str(v), "%s" % v *)
Arguments dyn_truthy {V}. Arguments dyn_is_zero {V}. Arguments dyn_is_none {V}.
Arguments dyn_of_int {V}. Arguments dyn_of_str {V}. Arguments dyn_str {V}.
(* len() of a list, str * int, str.ljust(w), s.split(sep)[0], max(list) (None: ValueError on []),
   x in [..], option tests *)
Definition pyo_llen {A : Type} (l : list A) : Z := Z.of_nat (List.length l).
Definition pyo_str_mul (s : list N) (n : Z) : list N := List.concat (List.repeat s (Z.to_nat n)).
Definition pyo_ljust (s : list N) (w : Z) : list N := s ++ List.repeat 32 (Z.to_nat (w - pyo_len s)).
Definition pyo_ljust_fill (s : list N) (w : Z) (c : N) : list N := s ++ List.repeat c (Z.to_nat (w - pyo_len s)).
Definition pyo_split_first (sep s : list N) : list N :=
  match find sep s with Some i => firstn i s | None => s end.
Definition pyo_max (l : list Z) : option Z :=
  match l with [] => None | x :: l' => Some (fold_left Z.max l' x) end.
Definition pyo_in_list (x : list N) (l : list (list N)) : bool := existsb (str_eqb x) l.
Definition pyo_is_some {A : Type} (o : option A) : bool := match o with Some _ => true | None => false end.
Definition pyo_is_none {A : Type} (o : option A) : bool := match o with Some _ => false | None => true end.
(* dict with str keys, in insertion order: d[k] = v, d[k] (None: KeyError), d.get(k, dflt) *)
Fixpoint pyo_dict_set {A : Type} (d : list (list N * A)) (k : list N) (v : A) : list (list N * A) :=
  match d with
  | [] => [(k, v)]
  | (k', v') :: d' => if str_eqb k' k then (k', v) :: d' else (k', v') :: pyo_dict_set d' k v
  end.
Fixpoint pyo_dict_item {A : Type} (d : list (list N * A)) (k : list N) : option A :=
  match d with
  | [] => None
  | (k', v') :: d' => if str_eqb k' k then Some v' else pyo_dict_item d' k
  end.
Definition pyo_dict_get {A : Type} (d : list (list N * A)) (k : list N) (dflt : A) : A :=
  match pyo_dict_item d k with Some v => v | None => dflt end.
(* a HeaderItem / CurveItem as the translated functions see it: the session mnemonic, the original
   mnemonic, unit and descr (str) and the value (dyn) *)
Record py_item (V : Type) := mk_py_item {
  it_mnemonic : list N; it_original_mnemonic : list N; it_unit : list N; it_value : V; it_descr : list N }.
Arguments mk_py_item {V}. Arguments it_mnemonic {V}. Arguments it_original_mnemonic {V}.
Arguments it_unit {V}. Arguments it_value {V}. Arguments it_descr {V}.
(* the **keys of a SectionParser method: the dict read_header_line returns *)
Record py_keys := mk_py_keys { k_name : list N; k_unit : list N; k_value : list N; k_descr : list N }.
(* defaults.ORDER_DEFINITIONS as Gen/Tables.v states it: the order strings, table[version][section]
   (None: KeyError) *)
Definition order_str (o : item_order) : list N :=
  match o with
  | ValueDescr => [118; 97; 108; 117; 101; 58; 100; 101; 115; 99; 114]
  | DescrValue => [100; 101; 115; 99; 114; 58; 118; 97; 108; 117; 101]
  end.
Definition pyo_version_eqb (a b : las_version) : bool :=
  match a, b with
  | V10, V10 | V12, V12 | V20, V20 | V21, V21 | V30, V30 => true
  | _, _ => false
  end.
Fixpoint pyo_order_lookup (t : list ((las_version * list N) * order_entry)) (v : las_version) (s : list N)
  : option order_entry :=
  match t with
  | [] => None
  | ((v', s'), e) :: t' => if pyo_version_eqb v v' && str_eqb s s' then Some e else pyo_order_lookup t' v s
  end.
(* np.int64(str) / np.float64(str) (None: the call raises), np.isfinite, the float as a value *)
Record num_ops (V F : Type) := mk_num_ops {
  np_int64 : list N -> option V;
  np_float64 : list N -> option F;
  np_isfinite : F -> bool;
  num_of_float : F -> V }.
(* range(n); dict with int keys; l[i] on a list (negative i counts from the end; None: IndexError)
   and l[i].attr = v as a functional update *)
Definition pyo_range (n : Z) : list Z := List.map Z.of_nat (seq 0 (Z.to_nat n)).
Fixpoint pyo_idict_set {A : Type} (d : list (Z * A)) (k : Z) (v : A) : list (Z * A) :=
  match d with
  | [] => [(k, v)]
  | (k', v') :: d' => if (k' =? k)%Z then (k', v) :: d' else (k', v') :: pyo_idict_set d' k v
  end.
Fixpoint pyo_idict_item {A : Type} (d : list (Z * A)) (k : Z) : option A :=
  match d with
  | [] => None
  | (k', v') :: d' => if (k' =? k)%Z then Some v' else pyo_idict_item d' k
  end.
Definition pyo_idict_get {A : Type} (d : list (Z * A)) (k : Z) (dflt : A) : A :=
  match pyo_idict_item d k with Some v => v | None => dflt end.
Definition pyo_lindex (n : nat) (i : Z) : option nat :=
  let len := Z.of_nat n in
  let j := if (i <? 0)%Z then (i + len)%Z else i in
  if ((0 <=? j) && (j <? len))%Z then Some (Z.to_nat j) else None.
Definition pyo_list_item {A : Type} (l : list A) (i : Z) : option A :=
  match pyo_lindex (List.length l) i with Some n => nth_error l n | None => None end.
Fixpoint pyo_list_upd {A : Type} (l : list A) (n : nat) (f : A -> A) : list A :=
  match l with
  | [] => []
  | x :: r => match n with O => f x :: r | S k => x :: pyo_list_upd r k f end
  end.
Definition pyo_list_modify {A : Type} (l : list A) (i : Z) (f : A -> A) : option (list A) :=
  match pyo_lindex (List.length l) i with Some n => Some (pyo_list_upd l n f) | None => None end.
(* enumerate(l); list.insert(i, x) (negative i counts from the end, then clamped); l[i] = x and del l[i]
   (None: IndexError); item.set_session_mnemonic_only(m) as the item afterwards *)
Definition pyo_enumerate {A : Type} (l : list A) : list (Z * A) := List.combine (pyo_range (pyo_llen l)) l.
Definition pyo_list_insert {A : Type} (l : list A) (i : Z) (x : A) : list A :=
  let n := pyo_bound (List.length l) i in firstn n l ++ x :: skipn n l.
Definition pyo_list_set {A : Type} (l : list A) (i : Z) (x : A) : option (list A) := pyo_list_modify l i (fun _ => x).
Definition pyo_list_del {A : Type} (l : list A) (i : Z) : option (list A) :=
  match pyo_lindex (List.length l) i with Some n => Some (firstn n l ++ skipn (S n) l) | None => None end.
Definition pyo_set_session {V : Type} (it : py_item V) (m : list N) : py_item V :=
  mk_py_item m (it_original_mnemonic it) (it_unit it) (it_value it) (it_descr it).
(* what LASFile.read asks of the column arrays the engines yield (A) and of the curve items (C):
   arr.dtype == float, arr[arr == null] = np.nan (as the array afterwards), len(arr),
   np.empty(n) * np.nan, item.data = arr, CurveItem(mnemonic="", data=arr), SectionItems.append *)
Record read_ops (V A C : Type) := mk_read_ops {
  arr_is_float : A -> bool;
  arr_null_to_nan : V -> A -> A;
  arr_len : A -> Z;
  arr_nan : Z -> A;
  c_set_data : C -> A -> C;
  c_new : A -> C;
  sec_append : list C -> C -> list C }.
Arguments arr_is_float {V A C}. Arguments arr_null_to_nan {V A C}. Arguments arr_len {V A C}.
Arguments arr_nan {V A C}. Arguments c_set_data {V A C}. Arguments c_new {V A C}. Arguments sec_append {V A C}.
(* str.rjust(w); what writer.write asks of a sample (Smp) and of its helpers: np.isnan(x) and fmt % x
   (None: TypeError, e.g. on text), str(x), fmt % np.pi, TextWrapper(width=w, ...).wrap(line) *)
Definition pyo_rjust (s : list N) (w : Z) : list N := List.repeat 32 (Z.to_nat (w - pyo_len s)) ++ s.
Record write_ops (Smp : Type) := mk_write_ops {
  s_isnan : Smp -> option bool;
  s_fmt : list N -> Smp -> option (list N);
  s_str : Smp -> list N;
  w_fmt_pi : list N -> list N;
  w_wrap : Z -> list N -> list (list N) }.
Arguments s_isnan {Smp}. Arguments s_fmt {Smp}. Arguments s_str {Smp}. Arguments w_fmt_pi {Smp}. Arguments w_wrap {Smp}.
(* m.groupdict() of a match of one of the header-line patterns: the named groups that took part, in the
   order of their numbers (translators/regexes.py numbers name / unit / value / descr as 0 .. 3) *)
Definition pyo_groupdict (y : st) : list (list N * list N) :=
  List.flat_map (fun kn : list N * nat => match group_opt (snd kn) (caps y) with Some v => [(fst kn, v)] | None => [] end)
    [([110; 97; 109; 101], 0%nat); ([117; 110; 105; 116], 1%nat); ([118; 97; 108; 117; 101], 2%nat); ([100; 101; 115; 99; 114], 3%nat)].
(* what las._json_value asks of a header value or sample: isinstance(x, np.integer),
   isinstance(x, (float, np.floating)), np.isfinite(x), int(x), float(x), None *)
Record json_ops (V : Type) := mk_json_ops {
  j_is_np_integer : V -> bool;
  j_is_float : V -> bool;
  j_is_finite : V -> bool;
  j_int : V -> V;
  j_float : V -> V;
  j_none : V }.
Arguments j_is_np_integer {V}. Arguments j_is_float {V}. Arguments j_is_finite {V}.
Arguments j_int {V}. Arguments j_float {V}. Arguments j_none {V}.
Arguments np_int64 {V F}. Arguments np_float64 {V F}. Arguments np_isfinite {V F}. Arguments num_of_float {V F}.
(* a text file open for reading, as the translated functions see it: the lines that remain, each with its
   line end.  f.readline() is the next line ("" at the end of the file) and moves on by one line; iterating
   over f yields the remaining lines; enumerate(l, start=k) *)
Definition pyo_readline_line (f : list (list N)) : list N := match f with [] => [] | l :: _ => l end.
Definition pyo_readline_rest (f : list (list N)) : list (list N) := match f with [] => [] | _ :: r => r end.
Definition pyo_enumerate_from {A : Type} (k : Z) (l : list A) : list (Z * A) :=
  List.combine (List.map (fun i => (k + i)%Z) (pyo_range (pyo_llen l))) l.
(* len(set(l)) on a list of ints: the distinct values, in order of first appearance *)
Fixpoint pyo_distinct (l : list Z) : list Z :=
  match l with
  | [] => []
  | x :: r => x :: List.filter (fun y => negb (y =? x)%Z) (pyo_distinct r)
  end.
(* == on (compiled pattern, template) pairs: CPython compares the pattern strings (and flags) and the
   template strings; here: the parsed patterns and templates (two spellings of one pattern would be
   identified; the pins show that the entries of defaults.READ_SUBS are pairwise different) *)
Fixpoint pyo_list_eqb {A : Type} (eqb : A -> A -> bool) (a b : list A) : bool :=
  match a, b with
  | [], [] => true
  | x :: a', y :: b' => eqb x y && pyo_list_eqb eqb a' b'
  | _, _ => false
  end.
Fixpoint pyo_cls_eqb (a b : cls) : bool :=
  match a, b with
  | CAny, CAny | CSpace, CSpace | CDigit, CDigit => true
  | CChar x, CChar y => x =? y
  | CRange x1 x2, CRange y1 y2 => (x1 =? y1) && (x2 =? y2)
  | CNot x, CNot y => pyo_cls_eqb x y
  | COr x1 x2, COr y1 y2 => pyo_cls_eqb x1 y1 && pyo_cls_eqb x2 y2
  | _, _ => false
  end.
Fixpoint pyo_re_eqb (a b : re) : bool :=
  match a, b with
  | Eps, Eps | AtEnd, AtEnd | AtEndStr, AtEndStr => true
  | Cls x, Cls y | Star x, Star y | Plus x, Plus y | LStar x, LStar y => pyo_cls_eqb x y
  | Seq x1 x2, Seq y1 y2 | Alt x1 x2, Alt y1 y2 => pyo_re_eqb x1 y1 && pyo_re_eqb x2 y2
  | Opt x, Opt y => pyo_re_eqb x y
  | Grp n x, Grp k y => Nat.eqb n k && pyo_re_eqb x y
  | NotBehind x, NotBehind y | NotAhead x, NotAhead y => pyo_list_eqb (pyo_list_eqb pyo_cls_eqb) x y
  | _, _ => false
  end.
Definition pyo_tpl_eqb (a b : tpl) : bool :=
  match a, b with
  | TLit x, TLit y => str_eqb x y
  | TGrp n, TGrp k => Nat.eqb n k
  | _, _ => false
  end.
Definition pyo_sub_eqb (a b : re * list tpl) : bool :=
  pyo_re_eqb (fst a) (fst b) && pyo_list_eqb pyo_tpl_eqb (snd a) (snd b).
(* an argument that is True, False or a str (autodetect_encoding) *)
Inductive py_autoval := PyTrue | PyFalse | PyStr (s : list N).
Definition pyo_auto_truthy (a : py_autoval) : bool :=
  match a with PyTrue => true | PyFalse => false | PyStr s => pyo_truthy_str s end.
Definition pyo_opt_truthy {A : Type} (t : A -> bool) (o : option A) : bool := match o with Some x => t x | None => false end.
(* what open_with_codecs asks of the file system and of its helpers (None: the call raises): os.path.getsize,
   open(p, "rb").read(n), .read() / .read(n) by an optional n, get_encoding(auto, raw), adhoc_test_encoding(p),
   io.open(p, "r", encoding=e, errors=x) *)
Record world_ops (H : Type) := mk_world_ops {
  w_getsize : list N -> option Z;
  w_read : list N -> Z -> option (list N);
  w_read_opt : list N -> option Z -> option (list N);
  w_get_encoding : py_autoval -> list N -> option (option (list N));
  w_adhoc : list N -> option (option (list N));
  w_io_open : list N -> option (list N) -> list N -> option H }.
Arguments w_getsize {H}. Arguments w_read {H}. Arguments w_read_opt {H}. Arguments w_get_encoding {H}.
Arguments w_adhoc {H}. Arguments w_io_open {H}.
(* f( **d) for a SectionParser method / parser object and the dict d read_header_line returned: the record of its
   name / unit / value / descr entries (None: one of them is missing; the methods read all four) *)
Definition pyo_keys_of_dict (d : list (list N * list N)) : option py_keys :=
  obind (pyo_dict_item d [110; 97; 109; 101]) (fun n =>
  obind (pyo_dict_item d [117; 110; 105; 116]) (fun u =>
  obind (pyo_dict_item d [118; 97; 108; 117; 101]) (fun v =>
  obind (pyo_dict_item d [100; 101; 115; 99; 114]) (fun de => Some (mk_py_keys n u v de))))).
(* a SectionItems object under construction (S), for code that only creates it, switches its
   mnemonic_transforms flag on and appends items (I) *)
Record sect_ops (S I : Type) := mk_sect_ops {
  s_new : S;
  s_set_transforms : S -> S;
  s_append : S -> I -> S }.
Arguments s_new {S I}. Arguments s_set_transforms {S I}. Arguments s_append {S I}.
(* the AST of a concatenation of pattern strings, shaped as translators/regexes.py shapes a
   sequence *)
Fixpoint seq_of (l : list re) : re :=
  match l with
  | [] => Eps
  | [x] => x
  | x :: l' => Seq x (seq_of l')
  end.
"""


def cstr(s):
    if s == "":
        return "([] : list N)"
    return "[" + "; ".join(str(ord(c)) for c in s) + "]"


def csafe(v):
    return repr(v).replace("*", "\\x2a").replace('"', "\\x22")


class NeedPartial(Exception):
    """internal: the construct being translated may raise, but the enclosing context was being
    translated as total; the context is re-translated with an option result"""


class E:
    """translated expression: Gallina code, type, partial (code has type option T)"""

    def __init__(self, code, ty, partial=False, const=None, exc=None):
        # exc: the class of the exception a partial expression raises when it is None
        # ("?" = unknown / several)
        self.code, self.ty, self.partial, self.const, self.exc = code, ty, partial, const, exc


def indent(code, n=2):
    pad = " " * n
    return "\n".join(pad + l if l else l for l in code.split("\n"))


PARSER_ATTRS = ("func", "section_name2", "default_order", "orders")
ITEM_ATTRS = {"mnemonic": STR, "original_mnemonic": STR, "unit": STR, "value": DYN, "descr": STR}
KEYS_FIELDS = ("name", "unit", "value", "descr")
REGISTRY = {}        # qualified python name -> how a translated function is called from another one
LAMBDAS = {}         # module-level functions that return a lambda (translated uncurried): how a closure of them is used


def same_ast(node, src):
    return ast.dump(node) == ast.dump(ast.parse(src, mode="eval").body)


class Tr:
    def __init__(self, spec):
        self.spec = spec
        self.patterns = spec.get("mode") == "patterns"
        self.reset()

    def reset(self):
        self.frags = []          # fragment names in order of definition (patterns mode)
        self.frag_src = {}
        self.regexes = []        # (coq name, pattern) of re.search constants
        self.tmp = 0
        self.uses_dyn = False
        self.pmode = [False]     # innermost context: is an option result expected?
        self.frames = [dict(ret=self.spec["ret"], top=True)]
        self.in_try = 0
        self.uses_rec = False    # the function calls itself (translated with fuel)
        self.loop_ret = []       # inside loops with a return: is the context around the loop partial?
        self.handlers = []       # enclosing `try ... except <Class>:` handlers, innermost last
        self.loop_brk = []       # inside loops with a break: what `break` emits
        self.loop_cont = []      # ... and what `continue` emits
        self.loop_raising = []   # ... and whether the loop is translated with an option-valued state (the body may raise)
        self.alias = {}          # x -> (l, i, binding counts) after `x = l[i]`
        self.bind_count = {}

    # ---- helpers ---------------------------------------------------------------------------
    def fresh(self):
        self.tmp += 1
        return "t%d_" % self.tmp

    def err(self, node, msg):
        raise TranslateError("%s: line %s: %s" % (self.spec["py"], getattr(node, "lineno", "?"), msg))

    def need_partial(self, node=None):
        """the construct at hand may raise: its context must produce an option"""
        if self.in_try:
            self.err(node, "an operation that may raise inside a try whose handler is not translated")
        if self.loop_ret or (self.loop_brk and not self.loop_raising[-1]):
            self.err(node, "an operation that may raise inside a loop with a return / break")
        if not self.pmode[-1]:
            raise NeedPartial()

    def route(self, e, node):
        """the enclosing handler that catches what the partial expression e raises (None: it propagates)"""
        if not self.handlers:
            return None
        if e.exc in (None, "?"):
            self.err(node, "inside try/except: cannot tell which exception this operation raises")
        for h in reversed(self.handlers):
            if e.exc in h["classes"]:
                return h
        return None

    def handled(self, h, env):
        """the code of handler h (its body, then what follows the try) entered with the variables as they are now"""
        i = self.handlers.index(h)
        saved, self.handlers = self.handlers, self.handlers[:i]
        try:
            return h["fn"](env)
        finally:
            self.handlers = saved

    def snapshot(self):
        return (len(self.regexes), list(self.frags), dict(self.frag_src), self.uses_dyn, self.in_try)

    def restore(self, snap):
        n, self.frags, self.frag_src, self.uses_dyn, self.in_try = snap[0], list(snap[1]), dict(snap[2]), snap[3], snap[4]
        del self.regexes[n:]

    def with_retry(self, build):
        """build(partial) translated first as a total block, then (if something in it may raise)
        as a block with an option result.  Returns (result, partial)."""
        snap = self.snapshot()
        self.pmode.append(False)
        try:
            return build(False), False
        except NeedPartial:
            pass
        finally:
            self.pmode.pop()
        self.restore(snap)
        self.pmode.append(True)
        try:
            return build(True), True
        finally:
            self.pmode.pop()

    def strict(self, args, build, ty):
        """apply a strict operation to translated operands (left-to-right evaluation)"""
        if not any(a.partial for a in args):
            return E(build([a.code for a in args]), ty)
        names, binds = [], []
        for a in args:
            if a.partial:
                t = self.fresh()
                names.append(t)
                binds.append((a.code, t))
            else:
                names.append(a.code)
        code = "Some (%s)" % build(names)
        for c, t in reversed(binds):
            code = "obind (%s) (fun %s => %s)" % (c, t, code)
        excs = {a.exc or "?" for a in args if a.partial}
        return E(code, ty, True, exc=excs.pop() if len(excs) == 1 else "?")

    def partial_op(self, args, build, ty, exc="?"):
        """a strict operation whose own result is an option (None: it raises exc)"""
        inner = self.strict(args, build, ty)
        if not inner.partial:
            return E(inner.code, ty, True, exc=exc)
        t = self.fresh()
        return E("obind (%s) (fun %s => %s)" % (inner.code, t, t), ty, True, exc=exc if inner.exc == exc else "?")

    def var(self, name):
        return "v_" + name

    def ctype(self, ty, node):
        try:
            return coq_type(ty)
        except KeyError:
            self.err(node, "cannot bind a value of type %s" % (ty,))

    # ---- expressions -----------------------------------------------------------------------
    def expr(self, n, env):
        for src, ce in self.spec.get("const_exprs", {}).items():
            if same_ast(n, src):
                # (code, type) or (code, type, the exception class when code is an option)
                return E(ce[0], ce[1]) if len(ce) == 2 else E(ce[0], ce[1], True, exc=ce[2])
        el = self.elem_list_of(n) if isinstance(n, (ast.Attribute, ast.Call)) or (isinstance(n, ast.Name) and n.id not in env) else None
        if el is not None:
            if env.get(el) != LIST(ITEM):
                self.err(n, "%s is not available here" % el)
            return E(self.var(el), LIST(ITEM))
        mc = self.spec.get("module_consts", {})
        if isinstance(n, ast.Attribute) and isinstance(n.value, ast.Name) and n.value.id not in env and ast.unparse(n) in mc:
            # a module-level constant of another lasio module, rendered from its source (module_constant)
            return E(mc[ast.unparse(n)][0], mc[ast.unparse(n)][1])
        if isinstance(n, ast.Name):
            if n.id not in env:
                self.err(n, "unknown name %r" % n.id)
            if env[n.id] is None:
                self.err(n, "name %r may be undefined here" % n.id)
            if is_type(env[n.id], "closure"):
                return E("<closure %s>" % n.id, env[n.id])       # only coerce() to a function type gives it a value
            return E(self.var(n.id), env[n.id])
        if isinstance(n, ast.Attribute):
            if isinstance(n.value, ast.Name) and n.value.id == "self" and ("self" not in env or n.attr in self.spec.get("self_attrs", {})):
                attrs = self.spec.get("self_attrs", {})
                if n.attr not in attrs:
                    self.err(n, "undeclared attribute self.%s" % n.attr)
                return E(self.var("self_" + n.attr), attrs[n.attr])
            if isinstance(n.value, ast.Name) and n.value.id not in env:
                self.err(n, "unsupported attribute access")
            v = self.expr(n.value, env)
            if v.ty == PARSER and n.attr in PARSER_ATTRS:
                k = PARSER_ATTRS.index(n.attr)
                names = ["p%d_" % i for i in range(len(PARSER_ATTRS))]
                if is_type(PARSER[1 + k], "opt"):
                    # an attribute __init__ may have left unset: AttributeError
                    return self.partial_op([v], lambda c: "(let '(%s) := %s in %s)" % (", ".join(names), c[0], names[k]),
                                           PARSER[1 + k][1], exc="AttributeError")
                return self.strict([v], lambda c: "(let '(%s) := %s in %s)" % (", ".join(names), c[0], names[k]), PARSER[1 + k])
            if v.ty == SECTION and n.attr.isupper() and "SectionItems.__getitem__" in REGISTRY:
                # section.NAME is section["NAME"] (SectionItems.__getattr__; AttributeError / KeyError: None)
                r = REGISTRY["SectionItems.__getitem__"]
                return self.partial_op([v], lambda c: "%s (fst (%s)) (snd (%s)) %s" % (r["coq"], c[0], c[0], cstr(n.attr)), ITEM,
                                       exc="AttributeError")
            if v.ty == ITEM and n.attr in ITEM_ATTRS:
                return self.strict([v], lambda c: "it_%s (%s)" % (n.attr, c[0]), ITEM_ATTRS[n.attr])
            if v.ty == ITEM and n.attr == "useful_mnemonic" and "HeaderItem.useful_mnemonic" in REGISTRY:
                # a property: the translated property function applied to the attribute it reads
                r = REGISTRY["HeaderItem.useful_mnemonic"]
                return self.strict([v], lambda c: "%s (it_original_mnemonic (%s))" % (r["coq"], c[0]), STR)
            self.err(n, "unsupported attribute access")
        if isinstance(n, ast.Constant):
            v = n.value
            if isinstance(v, bool):
                return E("true" if v else "false", BOOL, const=v)
            if isinstance(v, int):
                return E("(%d)%%Z" % v, INT, const=v)
            if isinstance(v, str):
                return E(cstr(v), STR, const=v)
            if v is None:
                return E("<None>", NONE, const=None)
            self.err(n, "unsupported constant %r" % (v,))
        if isinstance(n, ast.UnaryOp):
            if isinstance(n.op, ast.Not):
                a = self.truthy(self.expr(n.operand, env), n)
                return self.strict([a], lambda c: "negb (%s)" % c[0], BOOL)
            if isinstance(n.op, ast.USub):
                a = self.expr(n.operand, env)
                if a.ty != INT:
                    self.err(n, "unary minus on %s" % (a.ty,))
                r = self.strict([a], lambda c: "(- %s)%%Z" % c[0], INT)
                if a.const is not None and not a.partial:
                    r.const = -a.const
                return r
            self.err(n, "unsupported unary operator")
        if isinstance(n, ast.BoolOp):
            ops = [self.expr(v, env) for v in n.values]
            return self.boolop(n, ops, value_context=True)
        if isinstance(n, ast.BinOp):
            return self.binop(n, env)
        if isinstance(n, ast.Compare):
            return self.compare(n, env)
        if isinstance(n, ast.Subscript):
            return self.subscript(n, env)
        if isinstance(n, ast.Call):
            return self.call(n, env)
        if isinstance(n, ast.IfExp):
            t = self.test(n.test, env)
            a, b = self.expr(n.body, env), self.expr(n.orelse, env)
            if t.partial or a.partial or b.partial:
                self.err(n, "conditional expression over operations that may raise")
            ty = self.unify([a.ty, b.ty], n)
            a, b = self.coerce(a, ty, n), self.coerce(b, ty, n)
            return E("(if %s then %s else %s)" % (t.code, a.code, b.code), ty)
        if isinstance(n, ast.List) and not n.elts and self.patterns:
            return E("([] : list (list frag))", PATS)
        if isinstance(n, ast.List) and n.elts and all(isinstance(x, ast.Constant) and isinstance(x.value, str) for x in n.elts):
            return E("[" + "; ".join(cstr(x.value) for x in n.elts) + "]", LIST(STR))
        if isinstance(n, ast.List) and n.elts:
            es = [self.expr(x, env) for x in n.elts]
            ty = self.unify([e.ty for e in es], n)
            es = [self.coerce(e, ty, n) for e in es]
            self.ctype(ty, n)
            return self.strict(es, lambda c: "[" + "; ".join(c) + "]", LIST(ty))
        if isinstance(n, ast.ListComp):
            return self.listcomp(n, env)
        if isinstance(n, ast.DictComp):
            return self.dictcomp(n, env)
        self.err(n, "unsupported expression %s" % type(n).__name__)

    def expr_want(self, n, env, want):
        """an expression whose type is given by a declaration (empty list / dict literals, None)"""
        if isinstance(n, ast.List) and not n.elts and want == PATS:
            return E("([] : list (list frag))", PATS)
        if isinstance(n, ast.Constant) and n.value is None and want == MATCHOBJ:
            return E("(None : option st)", MATCHOBJ)
        if isinstance(n, ast.List) and not n.elts and is_type(want, "list"):
            return E("([] : %s)" % self.ctype(want, n), want)
        if isinstance(n, ast.Dict) and is_type(want, "dict") and want[1] == STR:
            code = "([] : %s)" % self.ctype(want, n)
            for k, v in zip(n.keys, n.values):
                if not (isinstance(k, ast.Constant) and isinstance(k.value, str)):
                    self.err(n, "dict literal key is not a string constant")
                ve = self.expr_want(v, env, want[2])
                if ve.partial:
                    self.err(n, "dict literal value may raise")
                code = "pyo_dict_set (%s) %s (%s)" % (code, cstr(k.value), ve.code)
            return E(code, want)
        if isinstance(n, ast.Tuple) and is_type(want, "tuple") and len(n.elts) == len(want) - 1:
            es = [self.expr_want(x, env, t) for x, t in zip(n.elts, want[1:])]
            return self.strict(es, lambda c: "(" + ", ".join(c) + ")", want)
        return self.coerce(self.expr(n, env), want, n)

    def listcomp(self, n, env):
        if len(n.generators) != 1:
            self.err(n, "nested comprehension")
        g = n.generators[0]
        if len(g.ifs) > 1 or g.is_async or not isinstance(g.target, ast.Name):
            self.err(n, "unsupported comprehension")
        it = self.expr(g.iter, env)
        if not is_type(it.ty, "list"):
            self.err(n, "comprehension over %s" % (it.ty,))
        env2 = dict(env)
        env2[g.target.id] = it.ty[1]
        body = self.expr(n.elt, env2)
        if body.partial:
            self.err(n, "comprehension element may raise")
        ety = self.ctype(it.ty[1], n)
        src = lambda c: c[0]
        if g.ifs:
            cond = self.test(g.ifs[0], env2)
            if cond.partial:
                self.err(n, "comprehension condition may raise")
            src = lambda c: "List.filter (fun %s : %s => %s) (%s)" % (self.var(g.target.id), ety, cond.code, c[0])
            if isinstance(n.elt, ast.Name) and n.elt.id == g.target.id:
                return self.strict([it], src, it.ty)
        return self.strict([it], lambda c: "List.map (fun %s : %s => %s) (%s)" % (self.var(g.target.id), ety, body.code, src(c)),
                           LIST(body.ty))

    def dictcomp(self, n, env):
        """{k: v for x in <list>}: the dict built by setting the keys in order"""
        if len(n.generators) != 1:
            self.err(n, "nested comprehension")
        g = n.generators[0]
        if g.ifs or g.is_async or not isinstance(g.target, ast.Name):
            self.err(n, "unsupported comprehension")
        it = self.expr(g.iter, env)
        if not is_type(it.ty, "list"):
            self.err(n, "comprehension over %s" % (it.ty,))
        env2 = dict(env)
        env2[g.target.id] = it.ty[1]
        k, v = self.expr(n.key, env2), self.expr(n.value, env2)
        if k.partial or v.partial:
            self.err(n, "comprehension element may raise")
        dty = DICT(k.ty, v.ty)
        pre = self.dict_prefix(dty, n)
        cty = self.ctype(dty, n)
        return self.strict([it], lambda c: "fold_left (fun (d_ : %s) (%s : %s) => %s_set d_ (%s) (%s)) (%s) ([] : %s)" % (
            cty, self.var(g.target.id), self.ctype(it.ty[1], n), pre, k.code, v.code, c[0], cty), dty)

    def binop(self, n, env):
        if isinstance(n.op, ast.Mod):
            return self.format(n, env)
        a, b = self.expr(n.left, env), self.expr(n.right, env)
        if isinstance(n.op, ast.Add):
            if a.ty == b.ty and a.ty in (STR, PAT):
                return self.strict([a, b], lambda c: "(%s ++ %s)" % (c[0], c[1]), a.ty)
            if a.ty == INT and b.ty == INT:
                return self.strict([a, b], lambda c: "(%s + %s)%%Z" % (c[0], c[1]), INT)
            if a.ty == b.ty and is_type(a.ty, "list"):
                return self.strict([a, b], lambda c: "(%s ++ %s)" % (c[0], c[1]), a.ty)
            self.err(n, "+ on %s and %s" % (a.ty, b.ty))
        if isinstance(n.op, ast.Sub):
            if a.ty == INT and b.ty == INT:
                return self.strict([a, b], lambda c: "(%s - %s)%%Z" % (c[0], c[1]), INT)
            self.err(n, "- on %s and %s" % (a.ty, b.ty))
        if isinstance(n.op, ast.Mult):
            if a.ty == STR and b.ty == INT:
                return self.strict([a, b], lambda c: "pyo_str_mul (%s) (%s)" % (c[0], c[1]), STR)
            self.err(n, "* on %s and %s" % (a.ty, b.ty))
        self.err(n, "unsupported binary operator")

    def to_str(self, e, node):
        """str(e) / "%s" % e"""
        if e.ty == STR:
            return e
        if e.ty == DYN:
            self.uses_dyn = True
            return self.strict([e], lambda c: "dyn_str ops (%s)" % c[0], STR)
        self.err(node, "str() of %s" % (e.ty,))

    def format(self, n, env):
        """<constant format> % (args): only %s conversions"""
        if not (isinstance(n.left, ast.Constant) and isinstance(n.left.value, str)):
            self.err(n, "% with a non-constant left operand")
        import re as _re
        convs = _re.findall(r"%(.)", n.left.value)
        lits = _re.split(r"%.", n.left.value)
        if any(c not in "sd" for c in convs) or ("d" in convs and "int_str" not in self.spec):
            self.err(n, "format conversion other than %s (and %d where the spec names the rendering of ints)")
        args = n.right.elts if isinstance(n.right, ast.Tuple) else [n.right]
        if len(args) != len(lits) - 1:
            self.err(n, "format arity")
        es = []
        for cv, a in zip(convs, args):
            e = self.expr(a, env)
            if cv == "d":
                # "%d" % int: the decimal rendering is an operation the spec names (never computed here)
                if e.ty != INT:
                    self.err(n, "%%d of %s" % (e.ty,))
                es.append(self.strict([e], lambda c: "%s (%s)" % (self.spec["int_str"], c[0]), STR))
            else:
                es.append(self.to_str(e, n))

        def build(c):
            parts = []
            for i, l in enumerate(lits):
                if l:
                    parts.append(cstr(l))
                if i < len(c):
                    parts.append(c[i])
            return "(" + " ++ ".join(parts) + ")" if parts else cstr("")
        return self.strict(es, build, STR)

    def truthy(self, e, node):
        if e.ty in (BOOL, MATCH):
            return E(e.code, BOOL, e.partial, exc=e.exc)
        if e.ty == STR:
            return self.strict([e], lambda c: "pyo_truthy_str (%s)" % c[0], BOOL)
        if e.ty == INT:
            return self.strict([e], lambda c: "negb (%s =? 0)%%Z" % c[0], BOOL)
        if e.ty == DYN:
            self.uses_dyn = True
            return self.strict([e], lambda c: "dyn_truthy ops (%s)" % c[0], BOOL)
        if e.ty == AUTOV:
            return self.strict([e], lambda c: "pyo_auto_truthy (%s)" % c[0], BOOL)
        if e.ty == OPT(STR):
            return self.strict([e], lambda c: "pyo_opt_truthy pyo_truthy_str (%s)" % c[0], BOOL)
        if e.ty == OPT(INT):
            return self.strict([e], lambda c: "pyo_opt_truthy (fun z_ => negb (z_ =? 0)%%Z) (%s)" % c[0], BOOL)
        self.err(node, "truthiness of %s" % (e.ty,))

    def boolop(self, n, ops, value_context):
        if value_context and any(o.ty != BOOL for o in ops):
            # `a and b` returns one of its operands: only translated where that is a bool
            self.err(n, "and/or over non-bool operands outside a test")
        ops = [self.truthy(o, n) for o in ops]
        is_and = isinstance(n.op, ast.And)
        if not isinstance(n.op, (ast.And, ast.Or)):
            self.err(n, "unsupported boolean operator")
        acc = ops[-1]
        for o in reversed(ops[:-1]):
            if not o.partial and not acc.partial:
                acc = E("(%s %s %s)" % (o.code, "&&" if is_and else "||", acc.code), BOOL)
            else:
                rest = acc.code if acc.partial else "Some (%s)" % acc.code
                t = self.fresh()
                body = ("if %s then %s else Some false" % (t, rest)) if is_and else \
                       ("if %s then Some true else %s" % (t, rest))
                head = o.code if o.partial else "Some (%s)" % o.code
                acc = E("obind (%s) (fun %s => %s)" % (head, t, body), BOOL, True)
        return acc

    def test(self, n, env):
        """an expression in test position: only its truthiness is observed"""
        opaque = self.spec.get("opaque_tests", {})
        for src, name in opaque.items():
            if same_ast(n, src):
                return E(self.var(name), BOOL)
        if isinstance(n, ast.BoolOp):
            ops = [self.test(v, env) for v in n.values]
            return self.boolop(n, ops, value_context=False)
        if isinstance(n, ast.UnaryOp) and isinstance(n.op, ast.Not):
            a = self.test(n.operand, env)
            return self.strict([a], lambda c: "negb (%s)" % c[0], BOOL)
        return self.truthy(self.expr(n, env), n)

    def compare(self, n, env):
        if len(n.ops) != 1:
            self.err(n, "chained comparison")
        op = n.ops[0]
        neg = isinstance(op, (ast.NotEq, ast.NotIn, ast.IsNot))
        wrap = (lambda s: "negb (%s)" % s) if neg else (lambda s: s)
        r = n.comparators[0]
        if isinstance(op, (ast.Eq, ast.NotEq)) and isinstance(r, ast.Constant) and type(r.value) is float:
            # version == 3.0: the version keys of ORDER_DEFINITIONS as Gen/Tables.v names them
            a = self.expr(n.left, env)
            tags = {1.0: "V10", 1.2: "V12", 2.0: "V20", 2.1: "V21", 3.0: "V30"}
            if a.ty != VERSION or r.value not in tags:
                self.err(n, "comparison of %s with the float %r" % (a.ty, r.value))
            return self.strict([a], lambda c: wrap("pyo_version_eqb (%s) %s" % (c[0], tags[r.value])), BOOL)
        if isinstance(op, (ast.In, ast.NotIn)) and isinstance(r, ast.Subscript) and isinstance(r.value, ast.Name) \
                and env.get(r.value.id) == OTABLE:
            # section in table[version]: every version of Gen/Tables.v is a key of the table
            a, t, v = self.expr(n.left, env), self.expr(r.value, env), self.expr(r.slice, env)
            if a.ty != STR or v.ty != VERSION:
                self.err(n, "membership of %s in the order table at %s" % (a.ty, v.ty))
            return self.strict([t, v, a], lambda c: wrap("pyo_is_some (pyo_order_lookup (%s) (%s) (%s))" % (c[0], c[1], c[2])), BOOL)
        if isinstance(op, (ast.In, ast.NotIn)) and isinstance(r, ast.Tuple) and r.elts \
                and all(isinstance(x, ast.Constant) and isinstance(x.value, str) for x in r.elts):
            r = ast.copy_location(ast.List(elts=r.elts, ctx=ast.Load()), r)      # membership in a tuple of str constants
        a, b = self.expr(n.left, env), self.expr(r, env)
        if isinstance(op, (ast.Eq, ast.NotEq)):
            if a.ty == STR and b.ty == STR:
                return self.strict([a, b], lambda c: wrap("str_eqb (%s) (%s)" % (c[0], c[1])), BOOL)
            if a.ty == INT and b.ty == INT:
                return self.strict([a, b], lambda c: wrap("(%s =? %s)%%Z" % (c[0], c[1])), BOOL)
            if a.ty == LIST(SUBPAIR) and b.ty == LIST(SUBPAIR):
                return self.strict([a, b], lambda c: wrap("pyo_list_eqb pyo_sub_eqb (%s) (%s)" % (c[0], c[1])), BOOL)
            if a.ty == DYN and b.ty == INT and b.const == 0 and not isinstance(b.const, bool):
                self.uses_dyn = True
                return self.strict([a], lambda c: wrap("dyn_is_zero ops (%s)" % c[0]), BOOL)
            self.err(n, "==/!= on %s and %s" % (a.ty, b.ty))
        if isinstance(op, (ast.Lt, ast.LtE, ast.Gt, ast.GtE)):
            if a.ty == INT and b.ty == INT:
                sym = "<?" if isinstance(op, (ast.Lt, ast.Gt)) else "<=?"
                if isinstance(op, (ast.Gt, ast.GtE)):
                    return self.strict([a, b], lambda c: "(%s %s %s)%%Z" % (c[1], sym, c[0]), BOOL)
                return self.strict([a, b], lambda c: "(%s %s %s)%%Z" % (c[0], sym, c[1]), BOOL)
            self.err(n, "ordering on %s and %s" % (a.ty, b.ty))
        if isinstance(op, (ast.In, ast.NotIn)):
            if a.ty == STR and b.ty == STR:
                return self.strict([a, b], lambda c: wrap("pyo_in (%s) (%s)" % (c[0], c[1])), BOOL)
            if a.ty == STR and b.ty == SECTION and "SectionItems.__contains__" in REGISTRY:
                # name in section: the translated SectionItems.__contains__ on the section's flag and items
                r = REGISTRY["SectionItems.__contains__"]
                return self.strict([b, a], lambda c: wrap("%s (fst (%s)) (snd (%s)) (%s)" % (r["coq"], c[0], c[0], c[1])), BOOL)
            if is_type(b.ty, "dict") and a.ty == b.ty[1]:
                pre = self.dict_prefix(b.ty, n)
                return self.strict([b, a], lambda c: wrap("pyo_is_some (%s_item (%s) (%s))" % (pre, c[0], c[1])), BOOL)
            if a.ty == STR and b.ty == LIST(STR):
                return self.strict([a, b], lambda c: wrap("pyo_in_list (%s) (%s)" % (c[0], c[1])), BOOL)
            if a.ty == SUBPAIR and b.ty == LIST(SUBPAIR):
                # == on (compiled pattern, template) pairs: equality of the parsed pattern and of the template
                return self.strict([a, b], lambda c: wrap("existsb (pyo_sub_eqb (%s)) (%s)" % (c[0], c[1])), BOOL)
            self.err(n, "in on %s and %s" % (a.ty, b.ty))
        if isinstance(op, (ast.Is, ast.IsNot)):
            if a.ty == DYN and b.ty == NONE:
                self.uses_dyn = True
                return self.strict([a], lambda c: wrap("dyn_is_none ops (%s)" % c[0]), BOOL)
            if is_type(a.ty, "opt") and b.ty == NONE:
                return self.strict([a], lambda c: wrap("pyo_is_none (%s)" % c[0]), BOOL)
            if a.ty == MATCHOBJ and b.ty == NONE:
                return self.strict([a], lambda c: wrap("pyo_is_none (%s)" % c[0]), BOOL)
            if a.ty == BOOL and b.ty == BOOL and b.const is not None:
                # flag is False / flag is True on a bool
                pos = (lambda s: s) if b.const else (lambda s: "negb (%s)" % s)
                return self.strict([a], lambda c: wrap(pos(c[0])), BOOL)
            self.err(n, "is on %s and %s" % (a.ty, b.ty))
        self.err(n, "unsupported comparison operator")

    def unify(self, tys, node):
        """the one type a value has after a join of control paths, given its type on each path"""
        tys = set(tys)
        if len(tys) == 1:
            return tys.pop()
        if DYN in tys and tys <= {DYN, STR, INT}:
            return DYN
        opts = [t for t in tys if is_type(t, "opt")]
        if len(opts) == 1 and tys <= {opts[0], opts[0][1], NONE}:
            return opts[0]
        if len(tys) == 2 and NONE in tys and not opts:
            return OPT([t for t in tys if t != NONE][0])
        self.err(node, "a value has the types %s on different paths" % sorted(map(str, tys)))

    STR_IS = {"str": True, "int": False, "float": False, "bool": False, "slice": False}

    def static_test(self, n, env):
        """True / False when the declared types alone decide a test (the other branch is unreachable
        for every value of those types and is not translated), else None"""
        if isinstance(n, ast.Call) and isinstance(n.func, ast.Name) and n.func.id not in env and not n.keywords and len(n.args) == 2 \
                and isinstance(n.args[0], ast.Name) and env.get(n.args[0].id) == STR:
            c = n.args[1]
            if n.func.id == "isinstance" and isinstance(c, ast.Name) and c.id in self.STR_IS and c.id not in env:
                return self.STR_IS[c.id]
            if n.func.id == "hasattr" and isinstance(c, ast.Constant) and isinstance(c.value, str):
                return hasattr("", c.value)
        if isinstance(n, ast.Compare) and len(n.ops) == 1 and isinstance(n.ops[0], (ast.Is, ast.IsNot)) \
                and isinstance(n.left, ast.Name) and isinstance(n.comparators[0], ast.Constant) and n.comparators[0].value is None \
                and (env.get(n.left.id) in (STR, INT, BOOL, ITEM) or is_type(env.get(n.left.id), "list")):
            return isinstance(n.ops[0], ast.IsNot)      # a str / int / list / item parameter is not None
        if isinstance(n, ast.Compare) and len(n.ops) == 1 and isinstance(n.ops[0], (ast.Is, ast.IsNot)) \
                and isinstance(n.left, ast.Name) and isinstance(n.comparators[0], ast.Name):
            tys = {env.get(n.left.id), env.get(n.comparators[0].id)}
            if tys == {STR, ITEM}:        # a str is never the same object as an item
                return isinstance(n.ops[0], ast.IsNot)
        return None

    def dict_prefix(self, dty, node):
        if dty[1] == STR:
            return "pyo_dict"
        if dty[1] == INT:
            return "pyo_idict"
        self.err(node, "dict with keys of type %s" % (dty[1],))

    def int_bound(self, n, env):
        if n is None:
            return E("None", INT)
        e = self.expr(n, env)
        if e.ty != INT:
            self.err(n, "slice bound of type %s" % (e.ty,))
        return self.strict([e], lambda c: "Some %s" % (c[0] if c[0].startswith("(") else "(%s)" % c[0]), INT)

    def subscript(self, n, env):
        sl = n.slice
        v = n.value
        # s.split(<non-empty constant>)[0]: the part before the first separator (never raises)
        if isinstance(sl, ast.Constant) and type(sl.value) is int and sl.value == 0 and isinstance(v, ast.Call) \
                and isinstance(v.func, ast.Attribute) and v.func.attr == "split" and len(v.args) == 1 and not v.keywords:
            r, a = self.expr(v.func.value, env), self.expr(v.args[0], env)
            if r.ty == STR and a.ty == STR and a.const:
                return self.strict([r], lambda c: "pyo_split_first %s (%s)" % (a.code, c[0]), STR)
            self.err(n, "unsupported .split(...)[0]")
        # table[version][section]
        if isinstance(v, ast.Subscript) and isinstance(v.value, ast.Name) and env.get(v.value.id) == OTABLE:
            t, ver, sec = self.expr(v.value, env), self.expr(v.slice, env), self.expr(sl, env)
            if ver.ty != VERSION or sec.ty != STR:
                self.err(n, "order table indexed by %s and %s" % (ver.ty, sec.ty))
            return self.partial_op([t, ver, sec], lambda c: "pyo_order_lookup (%s) (%s) (%s)" % (c[0], c[1], c[2]), OENTRY)
        s = self.expr(v, env)
        if is_type(s.ty, "tuple"):
            # t[k] with a constant k on a tuple of declared shape
            if not (isinstance(sl, ast.Constant) and type(sl.value) is int and 0 <= sl.value < len(s.ty) - 1):
                self.err(n, "tuple subscript other than a constant index in range")
            names = ["p%d_" % i for i in range(len(s.ty) - 1)]
            return self.strict([s], lambda c: "(let '(%s) := %s in %s)" % (", ".join(names), c[0], names[sl.value]), s.ty[1 + sl.value])
        if s.ty == KEYS:
            if isinstance(sl, ast.Constant) and sl.value in KEYS_FIELDS:
                return self.strict([s], lambda c: "k_%s (%s)" % (sl.value, c[0]), STR)
            self.err(n, "keys[...] with a key other than %s" % (KEYS_FIELDS,))
        if s.ty == OENTRY:
            if isinstance(sl, ast.Constant) and type(sl.value) is int and sl.value == 0:
                return self.strict([s], lambda c: "order_str (fst (%s))" % c[0], STR)
            if isinstance(sl, ast.Slice) and sl.step is None and sl.upper is None and isinstance(sl.lower, ast.Constant) \
                    and type(sl.lower.value) is int and sl.lower.value == 1:
                return self.strict([s], lambda c: "snd (%s)" % c[0], LIST(OEX))
            self.err(n, "unsupported subscript of an order entry")
        if isinstance(sl, (ast.Slice, ast.Tuple)) and s.ty != STR:
            self.err(n, "slice of %s" % (s.ty,))
        if s.ty == ITEM:
            k = self.expr(sl, env)
            if k.ty != STR or "HeaderItem.__getitem__" not in REGISTRY:
                self.err(n, "item[...] with a key of type %s" % (k.ty,))
            return self.call_registered("HeaderItem.__getitem__", [s, k], n)
        if is_type(s.ty, "dict"):
            k = self.expr(sl, env)
            pre = self.dict_prefix(s.ty, n)
            if k.ty != s.ty[1]:
                self.err(n, "dict key of type %s" % (k.ty,))
            return self.partial_op([s, k], lambda c: "%s_item (%s) (%s)" % (pre, c[0], c[1]), s.ty[2], exc="KeyError")
        if is_type(s.ty, "list") and not isinstance(sl, (ast.Slice, ast.Tuple)):
            i = self.expr(sl, env)
            if i.ty != INT:
                self.err(n, "list index of type %s" % (i.ty,))
            return self.partial_op([s, i], lambda c: "pyo_list_item (%s) (%s)" % (c[0], c[1]), s.ty[1], exc="IndexError")
        if s.ty != STR:
            self.err(n, "subscript on %s" % (s.ty,))
        if isinstance(sl, ast.Slice):
            if sl.step is not None:
                self.err(n, "slice step")
            lo, hi = self.int_bound(sl.lower, env), self.int_bound(sl.upper, env)
            return self.strict([lo, hi, s], lambda c: "pyo_slice (%s) (%s) (%s)" % (c[0], c[1], c[2]), STR)
        if isinstance(sl, ast.Tuple):
            self.err(n, "tuple subscript")
        i = self.expr(sl, env)
        if i.ty != INT:
            self.err(n, "index of type %s" % (i.ty,))
        # s[i] may raise IndexError
        return self.partial_op([s, i], lambda c: "pyo_item (%s) %s" % (c[0], c[1]), STR, exc="IndexError")

    def call_registered(self, qname, args, node):
        """a call of another translated function"""
        r = REGISTRY[qname]
        want = r["args"]
        if len(args) > len(want):
            self.err(node, "too many arguments for %s" % qname)
        args = [self.coerce(a, t, node) for a, t in zip(args, want)]
        for t in want[len(args):]:
            if not is_type(t, "opt"):
                self.err(node, "missing argument for %s" % qname)
            args.append(E("None", t))
        for b in r["extra"]:
            if b not in self.spec.get("extra_binders", []):
                self.err(node, "%s needs %s" % (qname, b[1]))
        head = r["coq"]
        if r["ops"]:
            self.uses_dyn = True
            head += " ops"
        for b in r["extra"]:
            head += " " + b[1]

        def build(c):
            return " ".join([head] + ["(%s)" % x for x in c])
        if r["partial"]:
            return self.partial_op(args, build, r["ret"])
        return self.strict(args, build, r["ret"])

    def local_call(self, n, env):
        """a call of a function defined earlier in the same big function and translated on its own (NestedDefTr):
        positional and keyword arguments, the def's defaults for the rest, then the enclosing variables it reads"""
        name = n.func.id
        callee = [sp for sp in SPECS if sp.get("nested_name") == name and sp["py"] == self.spec["py"]]
        if len(callee) != 1:
            self.err(n, "no translated nested function %s" % name)
        callee = callee[0]
        names = [p for p, _ in callee["params"]]
        own, free = names[:callee["n_own"]], names[callee["n_own"]:]
        given = {}
        if len(n.args) > len(own):
            self.err(n, "too many arguments for %s" % name)
        for p, a in zip(own, n.args):
            given[p] = a
        for kw in n.keywords:
            if kw.arg not in own or kw.arg in given:
                self.err(n, "keyword argument %s of %s" % (kw.arg, name))
            given[kw.arg] = kw.value
        args = []
        for p in own:
            if p in given:
                args.append(self.expr(given[p], env))
            elif p in callee.get("def_defaults", {}):
                # the default was evaluated when the def ran: its variables must still hold that value here
                # (NestedDefTr checks that nothing assigns them after the def)
                args.append(self.expr(ast.parse(callee["def_defaults"][p], mode="eval").body, env))
            else:
                self.err(n, "missing argument %s of %s" % (p, name))
        for p in free:
            if env.get(p) is None:
                self.err(n, "%s reads %s, which is not defined here" % (name, p))
            args.append(E(self.var(p), env[p]))
        return self.call_registered("%s.%s" % (self.spec["py"], name), args, n)

    def call(self, n, env):
        if isinstance(n.func, ast.Name) and n.func.id in self.spec.get("local_calls", ()) and n.func.id not in env:
            return self.local_call(n, env)
        if isinstance(n.func, ast.Attribute) and isinstance(n.func.value, ast.Name) and n.func.value.id not in env \
                and n.func.value.id in self.spec.get("modules", {}) and n.func.attr in REGISTRY \
                and REGISTRY[n.func.attr].get("file") == self.spec["modules"][n.func.value.id]:
            # mod.f(positional and keyword arguments): a module-level function of lasio/mod.py translated earlier
            # (render() has checked that mod is bound once in this module, by `from . import mod`)
            r = REGISTRY[n.func.attr]
            pnames = r["pnames"]
            given = dict(zip(pnames, n.args))
            if len(n.args) > len(pnames):
                self.err(n, "too many arguments for %s" % n.func.attr)
            for kw in n.keywords:
                if kw.arg not in pnames or kw.arg in given:
                    self.err(n, "keyword argument %s of %s" % (kw.arg, n.func.attr))
                given[kw.arg] = kw.value
            args = []
            for pn, t in zip(pnames, r["args"]):
                if pn in given:
                    args.append(self.expr_want(given[pn], env, t))
                elif is_type(t, "opt") and pn in r["none_defaults"]:
                    args.append(E("None", t))
                else:
                    self.err(n, "argument %s of %s is not given" % (pn, n.func.attr))
            return self.call_registered(n.func.attr, args, n)
        if isinstance(n.func, ast.Name) and n.func.id == "enumerate" and "enumerate" not in env and len(n.args) == 1 \
                and len(n.keywords) == 1 and n.keywords[0].arg == "start":
            # enumerate(l, start=e)
            a, st = self.expr(n.args[0], env), self.expr(n.keywords[0].value, env)
            if not (is_type(a.ty, "list") or a.ty == FILE) or st.ty != INT:
                self.err(n, "enumerate of %s from %s" % (a.ty, st.ty))
            ety = STR if a.ty == FILE else a.ty[1]
            return self.strict([a, st], lambda c: "pyo_enumerate_from (%s) (%s)" % (c[1], c[0]), LIST(TUPLE(INT, ety)))
        if isinstance(n.func, ast.Name) and n.func.id not in env and n.func.id in self.spec.get("classes", {}):
            cls = n.func.id
            kind = self.spec["classes"][cls]
            if kind == "parser" and "SectionParser.__init__" in REGISTRY:
                # SectionParser(title, version=v): the attributes __init__ sets (None: it raised)
                r = REGISTRY["SectionParser.__init__"]
                given = dict(zip(r["pnames"], n.args))
                for kw in n.keywords:
                    if kw.arg not in r["pnames"] or kw.arg in given:
                        self.err(n, "keyword argument %s of %s" % (kw.arg, cls))
                    given[kw.arg] = kw.value
                if len(n.args) > len(r["pnames"]) or set(given) != set(r["pnames"]):
                    self.err(n, "arguments of %s" % cls)
                args = [self.expr_want(given[pn], env, t) for pn, t in zip(r["pnames"], r["args"])]
                e = self.call_registered("SectionParser.__init__", args, n)
                if e.ty != PARSER:
                    self.err(n, "SectionParser.__init__ no longer has the declared result")
                return e
            if kind == "section" and not n.args and not n.keywords:
                return E("s_new sops", SECT)             # SectionItems(): an empty section
            self.err(n, "unsupported construction of %s" % cls)
        if isinstance(n.func, ast.Name) and env.get(n.func.id) == PARSER and not n.args and len(n.keywords) == 1 \
                and n.keywords[0].arg is None and "SectionParser.__call__" in REGISTRY:
            # parser(**d): SectionParser.__call__ on the dict read_header_line returned
            d = self.expr(n.keywords[0].value, env)
            if d.ty != DICT(STR, STR):
                self.err(n, "parser(**d) with d of type %s" % (d.ty,))
            keys = self.partial_op([d], lambda c: "pyo_keys_of_dict (%s)" % c[0], KEYS, exc="KeyError")
            return self.call_registered("SectionParser.__call__", [E(self.var(n.func.id), PARSER), keys], n)
        if isinstance(n.func, ast.Name) and n.func.id not in env and n.func.id in self.spec.get("aliases", {}):
            n = ast.copy_location(ast.Call(func=ast.copy_location(ast.Name(id=self.spec["aliases"][n.func.id], ctx=ast.Load()), n.func),
                                           args=n.args, keywords=n.keywords), n)
        if isinstance(n.func, ast.Name) and n.func.id not in env and n.keywords and n.func.id in REGISTRY \
                and REGISTRY[n.func.id].get("file") == self.spec["file"] and all(kw.arg for kw in n.keywords):
            # f(positional and keyword arguments) for a module-level function of the same module translated earlier
            r = REGISTRY[n.func.id]
            given = dict(zip(r["pnames"], n.args))
            if len(n.args) > len(r["pnames"]):
                self.err(n, "too many arguments for %s" % n.func.id)
            for kw in n.keywords:
                if kw.arg not in r["pnames"] or kw.arg in given:
                    self.err(n, "keyword argument %s of %s" % (kw.arg, n.func.id))
                given[kw.arg] = kw.value
            args = []
            for pn, t in zip(r["pnames"], r["args"]):
                if pn in given:
                    args.append(self.expr_want(given[pn], env, t))
                elif is_type(t, "opt") and pn in r["none_defaults"]:
                    args.append(E("None", t))
                else:
                    self.err(n, "argument %s of %s is not given" % (pn, n.func.id))
            return self.call_registered(n.func.id, args, n)
        if n.keywords:
            self.err(n, "keyword arguments")
        f = n.func
        fsrc = ast.unparse(f)
        oracles = self.spec.get("oracles", {})
        if fsrc in oracles and (not isinstance(f, ast.Name) or f.id not in env):
            o = oracles[fsrc]
            if o["raises"] and "exc" not in o:
                self.err(n, "%s(...) may raise: only translated as the sole statement of a try" % fsrc)
            return self.oracle(n, env)
        if isinstance(f, ast.Name):
            if f.id in env and is_type(env[f.id], "closure"):
                _, head, ltys, rty, raises_at = env[f.id]
                if len(n.args) != len(ltys):
                    self.err(n, "arity of %s" % f.id)
                args = [self.coerce(self.expr(a, env), t, n) for a, t in zip(n.args, ltys)]
                build = lambda c: "%s %s" % (head, " ".join("(%s)" % x for x in c))
                if raises_at == "call":
                    return self.partial_op(args, build, rty, exc="TypeError")        # the closure is None
                if raises_at == "creation":
                    # the creation was guarded: the application is Some (the default is never used)
                    return self.strict(args, lambda c: "match %s with Some r_ => r_ | None => %s end" % (build(c), self.default_of(rty, n)), rty)
                return self.strict(args, build, rty)
            if f.id in env:
                fty = env[f.id]
                if not is_type(fty, "func"):
                    self.err(n, "call of %r of type %s" % (f.id, fty))
                if len(n.args) != len(fty[1]):
                    self.err(n, "arity of %s" % f.id)
                args = [self.coerce(self.expr(a, env), t, n) for a, t in zip(n.args, fty[1])]
                return self.strict(args, lambda c: "(%s %s)" % (self.var(f.id), " ".join("(%s)" % x for x in c)), fty[2])
            if f.id in REGISTRY and REGISTRY[f.id].get("file") == self.spec["file"]:
                # another module-level function of the same module, translated earlier; an argument for a parameter
                # the callee's spec leaves untyped (the callee never reads it) must be a constant or a plain name
                allp = REGISTRY[f.id].get("allp", [])
                if any(t is None for _, t in allp):
                    if len(n.args) != len(allp):
                        self.err(n, "arity of %s" % f.id)
                    kept = []
                    for a, (pn, t) in zip(n.args, allp):
                        if t is not None:
                            kept.append(a)
                        elif not (isinstance(a, ast.Constant) or (isinstance(a, ast.Name) and env.get(a.id) is not None)
                                  or any(same_ast(a, src) for src in self.spec.get("const_exprs", {}))):
                            self.err(n, "argument for the unread parameter %s of %s" % (pn, f.id))
                    return self.call_registered(f.id, [self.expr(a, env) for a in kept], n)
                return self.call_registered(f.id, [self.expr(a, env) for a in n.args], n)
            if f.id == "len" and len(n.args) == 1 and isinstance(n.args[0], ast.Call) and isinstance(n.args[0].func, ast.Name) \
                    and n.args[0].func.id == "set" and "set" not in env and len(n.args[0].args) == 1 and not n.args[0].keywords:
                a = self.expr(n.args[0].args[0], env)
                if a.ty != LIST(INT):
                    self.err(n, "len(set(_)) of %s" % (a.ty,))
                return self.strict([a], lambda c: "pyo_llen (pyo_distinct (%s))" % c[0], INT)
            if f.id == "len" and len(n.args) == 1:
                a = self.expr(n.args[0], env)
                if a.ty == STR:
                    return self.strict([a], lambda c: "pyo_len (%s)" % c[0], INT)
                if is_type(a.ty, "list") or is_type(a.ty, "dict"):
                    return self.strict([a], lambda c: "pyo_llen (%s)" % c[0], INT)
                self.err(n, "len of %s" % (a.ty,))
            if f.id == "str" and len(n.args) == 1:
                return self.to_str(self.expr(n.args[0], env), n)
            if f.id == "int" and len(n.args) == 1:
                a = self.expr(n.args[0], env)
                if a.ty == INT:
                    return a
                if a.ty == OPT(INT):
                    return self.partial_op([a], lambda c: c[0], INT, exc="TypeError")        # int(None)
                self.err(n, "int of %s" % (a.ty,))
            if f.id == "min" and len(n.args) == 2:
                a, b = self.expr(n.args[0], env), self.expr(n.args[1], env)
                if a.ty != INT or b.ty != INT:
                    self.err(n, "min of %s and %s" % (a.ty, b.ty))
                return self.strict([a, b], lambda c: "Z.min (%s) (%s)" % (c[0], c[1]), INT)
            if f.id == "chr" and len(n.args) == 1 and isinstance(n.args[0], ast.Constant) and type(n.args[0].value) is int \
                    and 0 <= n.args[0].value < 0x110000:
                return E(cstr(chr(n.args[0].value)), STR, const=chr(n.args[0].value))
            if f.id == "enumerate" and len(n.args) == 1:
                a = self.expr(n.args[0], env)
                if a.ty == FILE:
                    return self.strict([a], lambda c: "pyo_enumerate (%s)" % c[0], LIST(TUPLE(INT, STR)))
                if not is_type(a.ty, "list"):
                    self.err(n, "enumerate of %s" % (a.ty,))
                return self.strict([a], lambda c: "pyo_enumerate (%s)" % c[0], LIST(TUPLE(INT, a.ty[1])))
            if f.id in ("__list_insert__", "__list_set__", "__list_del__") and self.spec.get("mutator"):
                args = [self.expr(a, env) for a in n.args]
                l = args[0]
                if not is_type(l.ty, "list") or args[1].ty != INT:
                    self.err(n, "list operation on %s" % (l.ty,))
                if f.id == "__list_insert__":
                    x = self.coerce(args[2], l.ty[1], n)
                    return self.strict([l, args[1], x], lambda c: "pyo_list_insert (%s) (%s) (%s)" % tuple(c), l.ty)
                if f.id == "__list_set__":
                    x = self.coerce(args[2], l.ty[1], n)
                    return self.partial_op([l, args[1], x], lambda c: "pyo_list_set (%s) (%s) (%s)" % tuple(c), l.ty, exc="IndexError")
                return self.partial_op([l, args[1]], lambda c: "pyo_list_del (%s) (%s)" % tuple(c), l.ty, exc="IndexError")
            if f.id == "range" and len(n.args) == 1:
                a = self.expr(n.args[0], env)
                if a.ty != INT:
                    self.err(n, "range of %s" % (a.ty,))
                return self.strict([a], lambda c: "pyo_range (%s)" % c[0], LIST(INT))
            if f.id == "any" and len(n.args) == 1:
                a = self.expr(n.args[0], env)
                if a.ty != LIST(BOOL):
                    self.err(n, "any of %s" % (a.ty,))
                return self.strict([a], lambda c: "existsb (fun b_ : bool => b_) (%s)" % c[0], BOOL)
            if f.id == "max" and len(n.args) == 1:
                a = self.expr(n.args[0], env)
                if a.ty != LIST(INT):
                    self.err(n, "max of %s" % (a.ty,))
                return self.partial_op([a], lambda c: "pyo_max (%s)" % c[0], INT, exc="ValueError")
            if f.id == "isinstance" and len(n.args) == 2 and isinstance(n.args[1], ast.Name) and n.args[1].id in self.STR_IS \
                    and n.args[1].id not in env:
                a = self.expr(n.args[0], env)
                if a.ty == STR:
                    return self.strict([a], lambda c: "true" if self.STR_IS[n.args[1].id] else "false", BOOL)
                self.err(n, "isinstance(_, %s) on %s" % (n.args[1].id, a.ty))
            if f.id in self.spec.get("constructors", ()) and len(n.args) == 4 and "HeaderItem.useful_mnemonic" in REGISTRY:
                args = [self.coerce(self.expr(a, env), t, n) for a, t in zip(n.args, (STR, STR, DYN, STR))]
                self.uses_dyn = True
                return self.strict(args, lambda c: "pyo_new_item (%s) (%s) (%s) (%s)" % tuple(c), ITEM)
            self.err(n, "unsupported call %s(...)" % f.id)
        if not isinstance(f, ast.Attribute):
            self.err(n, "unsupported call")
        if isinstance(f.value, ast.Name) and f.value.id == "re" and "re" not in env:
            if f.attr == "sub" and len(n.args) == 3:
                p, t, s = [self.expr(a, env) for a in n.args]
                if (p.ty, t.ty, s.ty) != (REGEX, TPL, STR):
                    self.err(n, "re.sub on %s, %s, %s" % (p.ty, t.ty, s.ty))
                return self.strict([p, t, s], lambda c: "re_sub (%s) (%s) (%s)" % (c[0], c[1], c[2]), STR)
            if f.attr == "match" and len(n.args) == 2:
                p, t = self.expr(n.args[0], env), self.expr(n.args[1], env)
                if (p.ty, t.ty) != (PAT, STR) or not any(sp.get("mode") == "patterns" and "done" in sp for sp in SPECS):
                    self.err(n, "re.match on %s and %s" % (p.ty, t.ty))
                return self.strict([p, t], lambda c: "re_match (pat_re (%s)) (%s)" % (c[0], c[1]), MATCHOBJ)
            if f.attr != "search" or len(n.args) != 2:
                self.err(n, "unsupported re.%s call" % f.attr)
            p = n.args[0]
            if not (isinstance(p, ast.Constant) and isinstance(p.value, str)):
                self.err(n, "re.search pattern is not a string constant")
            s = self.expr(n.args[1], env)
            if s.ty != STR:
                self.err(n, "re.search subject of type %s" % (s.ty,))
            try:
                term = regexes.translate(p.value)
            except regexes.TranslateError as e:
                self.err(n, "pattern %r: %s" % (p.value, e))
            name = "%s_rx%d" % (self.spec["coq"], len(self.regexes) + 1)
            self.regexes.append((name, p.value, term))
            return self.strict([s], lambda c: "re_search %s (%s)" % (name, c[0]), MATCH)
        mrx = self.spec.get("module_regexes", {})
        if isinstance(f.value, ast.Name) and f.value.id in mrx and f.value.id not in env:
            if f.attr == "findall" and len(n.args) == 1:
                # the list of matches, each presented as "".join(<its groups>) (the only use made of them)
                s = self.expr(n.args[0], env)
                if s.ty != STR:
                    self.err(n, "findall subject of type %s" % (s.ty,))
                return self.strict([s], lambda c: "re_findall_joined %s (%s)" % (mrx[f.value.id], c[0]), LIST(JOINED))
            if f.attr != "fullmatch" or len(n.args) != 1:
                self.err(n, "unsupported method of a compiled pattern")
            s = self.expr(n.args[0], env)
            if s.ty != STR:
                self.err(n, "fullmatch subject of type %s" % (s.ty,))
            return self.strict([s], lambda c: "pyo_is_some (re_fullmatch %s (%s))" % (mrx[f.value.id], c[0]), MATCH)
        if self.is_self_call(n, env):
            self.err(n, "recursive call outside `return self.%s(...)`" % self.spec["py"])
        if isinstance(f.value, ast.Name) and f.value.id == "self" and ("self" not in env or f.attr in self.spec.get("self_methods", {})):
            meths = self.spec.get("self_methods", {})
            if f.attr not in meths or meths[f.attr] not in REGISTRY:
                self.err(n, "undeclared method self.%s" % f.attr)
            mine = self.spec.get("self_attrs", {})
            passed = []
            for a in REGISTRY[meths[f.attr]]["self_attrs"]:      # the callee reads these attributes of the same self
                if a not in mine:
                    self.err(n, "self.%s reads self.%s, which is not declared here" % (f.attr, a))
                passed.append(E(self.var("self_" + a), mine[a]))
            if REGISTRY[meths[f.attr]].get("mutator"):
                # a method that changes the list: it takes the list and (MutatorTr) its result replaces self
                if not is_type(env.get("self"), "list"):
                    self.err(n, "self.%s changes self" % f.attr)
                passed.append(E(self.var("self"), env["self"]))
            return self.call_registered(meths[f.attr], passed + [self.expr(a, env) for a in n.args], n)
        r = self.expr(f.value, env)
        m = f.attr
        args = [self.expr(a, env) for a in n.args]
        tys = [a.ty for a in args]
        if r.ty == REGEX and m == "findall" and tys == [STR]:
            # the matches, each presented as "".join(<its groups>) (see the module-level findall above)
            return self.strict([r, args[0]], lambda c: "re_findall_joined %s (%s)" % (c[0], c[1]), LIST(JOINED))
        if r.ty == STR and m == "split" and tys == [STR] and isinstance(args[0].const, str) and len(args[0].const) == 1:
            # the pieces are strings; as "joined" values they stand for themselves ("".join(s) == s)
            return self.strict([r], lambda c: "split_char %d (%s)" % (ord(args[0].const), c[0]), LIST(JOINED))
        if r.ty == STR and r.const == "" and m == "join" and tys == [JOINED]:
            return self.strict([args[0]], lambda c: c[0], STR)          # "".join(t): what a JOINED value stands for
        if r.ty == STR and m == "replace" and tys == [STR, STR] and args[1].const == "" and isinstance(args[0].const, str) \
                and len(args[0].const) == 1:
            return self.strict([r], lambda c: "remove_char %d (%s)" % (ord(args[0].const), c[0]), STR)
        if r.ty == MATCHOBJ and m == "groupdict" and not args:
            # AttributeError on None
            return self.partial_op([r], lambda c: "option_map pyo_groupdict (%s)" % c[0], DICT(STR, STR), exc="AttributeError")
        if is_type(r.ty, "dict") and m == "get" and len(args) == 2 and tys[0] == r.ty[1]:
            d = self.coerce(args[1], r.ty[2], n)
            pre = self.dict_prefix(r.ty, n)
            return self.strict([r, args[0], d], lambda c: "%s_get (%s) (%s) (%s)" % (pre, c[0], c[1], c[2]), r.ty[2])
        if r.ty != STR:
            self.err(n, "method .%s on %s" % (m, r.ty))
        if m == "strip" and not args:
            return self.strict([r], lambda c: "strip (%s)" % c[0], STR)
        if m == "strip" and tys == [STR] and args[0].const is not None:
            return self.strict([r], lambda c: "strip_chars %s (%s)" % (args[0].code, c[0]), STR)
        if m in ("upper", "lower") and not args:
            return self.strict([r], lambda c: "pyo_%s (%s)" % (m, c[0]), STR)
        if m in ("startswith", "endswith") and tys == [STR]:
            return self.strict([r, args[0]], lambda c: "%s (%s) (%s)" % (m, c[1], c[0]), BOOL)
        if m == "find" and tys == [STR]:
            return self.strict([r, args[0]], lambda c: "pyo_find (%s) (%s)" % (c[1], c[0]), INT)
        if m == "rfind" and tys == [STR] and args[0].const is not None and len(args[0].const) == 1:
            return self.strict([r], lambda c: "pyo_rfind_char %d (%s)" % (ord(args[0].const), c[0]), INT)
        if m == "rfind" and tys == [STR]:
            return self.strict([r, args[0]], lambda c: "pyo_rfind (%s) (%s)" % (c[1], c[0]), INT)
        if m == "rjust" and tys == [INT]:
            return self.strict([r, args[0]], lambda c: "pyo_rjust (%s) (%s)" % (c[0], c[1]), STR)
        if m == "ljust" and tys == [INT]:
            return self.strict([r, args[0]], lambda c: "pyo_ljust (%s) (%s)" % (c[0], c[1]), STR)
        if m == "ljust" and tys == [INT, STR] and isinstance(args[1].const, str) and len(args[1].const) == 1:
            return self.strict([r, args[0]], lambda c: "pyo_ljust_fill (%s) (%s) %d" % (c[0], c[1], ord(args[1].const)), STR)
        self.err(n, "unsupported method .%s(%s)" % (m, ", ".join(map(str, tys))))

    def is_self_call(self, n, env):
        return isinstance(n, ast.Call) and isinstance(n.func, ast.Attribute) and isinstance(n.func.value, ast.Name) \
            and n.func.value.id == "self" and self.spec.get("cls") and n.func.attr == self.spec["py"]

    def rec_call(self, n, env):
        """`return self.<this method>(args)`: a call of the fuel-indexed fixpoint with one unit of fuel
        less (out of fuel is None, like an exception, never a value)"""
        if "rec_fuel" not in self.spec or not self.frames[-1].get("top") or self.spec.get("returns_lambda"):
            self.err(n, "undeclared recursion")
        if n.keywords:
            self.err(n, "keyword arguments")
        want = [t for _, t in self.spec["params"] if t is not None]
        if len(n.args) != len(want):
            self.err(n, "arity of the recursive call")
        args = [self.coerce(self.expr(a, env), t, n) for a, t in zip(n.args, want)]
        if any(a.partial for a in args):
            self.err(n, "argument of the recursive call may raise")
        self.need_partial(n)
        self.uses_rec = True
        return " ".join(["%s_fuel" % self.spec["coq"], "fuel_"] + self.rec_fixed() + ["(%s)" % a.code for a in args])

    def rec_fixed(self):
        """the arguments a recursive call passes on unchanged"""
        return [b[1] for b in self.spec.get("extra_binders", [])] + [self.var("self_" + a) for a in self.spec.get("self_attrs", {})]

    def oracle(self, n, env):
        """an external call, as an operation of the record the spec names (never an axiom)"""
        o = self.spec["oracles"][ast.unparse(n.func)]
        if n.keywords or len(n.args) != len(o["args"]):
            self.err(n, "arity of %s" % ast.unparse(n.func))
        args = [self.coerce(self.expr(a, env), t, n) for a, t in zip(n.args, o["args"])]
        if any(a.partial for a in args):
            self.err(n, "argument of %s may raise" % ast.unparse(n.func))
        code = "%s %s" % (o["code"], " ".join("(%s)" % a.code for a in args))
        return E(code, o["ret"], partial=o["raises"], exc=o.get("exc", "?"))

    # ---- statements ------------------------------------------------------------------------
    @staticmethod
    def has_return(stmts):
        return any(isinstance(x, (ast.Return, ast.Raise, ast.Break, ast.Continue)) for s in stmts for x in ast.walk(s))

    def assigned(self, stmts, acc):
        """names (re)bound by a statement list, in order of first appearance"""
        def add(nm):
            if nm not in acc:
                acc.append(nm)

        def target(t):
            if isinstance(t, ast.Name):
                add(t.id)
            elif isinstance(t, ast.Tuple):
                for x in t.elts:
                    target(x)
            elif isinstance(t, ast.Subscript) and isinstance(t.value, ast.Name):
                add(t.value.id)
            elif isinstance(t, ast.Attribute) and isinstance(t.value, ast.Subscript) and isinstance(t.value.value, ast.Name):
                add(t.value.value.id)
            elif isinstance(t, ast.Attribute) and isinstance(t.value, ast.Name):
                add(t.value.id)
        sink = self.spec.get("write_sink")
        elem_of = {}
        for s in stmts:
            for src, repl in self.spec.get("stmt_rewrites", {}).items():
                if ast.dump(s) == ast.dump(ast.parse(src).body[0]):
                    s = ast.parse(repl).body[0]      # what the statement is translated as (see stmts)
            if isinstance(s, ast.Assign) and len(s.targets) == 1 and isinstance(s.targets[0], ast.Name) \
                    and isinstance(s.value, ast.Subscript) and isinstance(s.value.value, ast.Name):
                elem_of[s.targets[0].id] = s.value.value.id
            if isinstance(s, ast.Expr) and isinstance(s.value, ast.Call) and isinstance(s.value.func, ast.Attribute) \
                    and s.value.func.attr == "set_session_mnemonic_only" and isinstance(s.value.func.value, ast.Name) \
                    and s.value.func.value.id in elem_of:
                add(elem_of[s.value.func.value.id])      # changing an element changes the list it was taken from
            if sink and isinstance(s, ast.Expr) and isinstance(s.value, ast.Call) and same_ast(s.value.func, sink[0] + ".write"):
                add(sink[1])
            if isinstance(s, ast.Assign) and self.is_readline(s.value):
                add(s.value.func.value.id)               # reading a line moves the file on
            if isinstance(s, ast.Expr) and isinstance(s.value, ast.Yield) and "yields" in self.spec:
                add(self.spec["yields"][0])
            if isinstance(s, ast.Assign):
                for t in s.targets:
                    target(t)
            elif isinstance(s, ast.AugAssign):
                target(s.target)
            elif isinstance(s, ast.Expr) and isinstance(s.value, ast.Call) and isinstance(s.value.func, ast.Attribute) \
                    and s.value.func.attr == "append" and isinstance(s.value.func.value, ast.Name):
                add(s.value.func.value.id)
            elif isinstance(s, ast.If):
                self.assigned(s.body, acc)
                self.assigned(s.orelse, acc)
            elif isinstance(s, ast.For):
                lname = self.elem_list_of(s.iter)
                if lname is not None and any(isinstance(t, ast.Attribute) for st in s.body if isinstance(st, ast.Assign) for t in st.targets):
                    add(lname)                   # the items of the list are changed in place
                target(s.target)
                self.assigned(s.body, acc)
                self.assigned(s.orelse, acc)
            elif isinstance(s, ast.While):
                self.assigned(s.body, acc)
            elif isinstance(s, ast.Try):
                self.assigned(s.body, acc)
                for h in s.handlers:
                    self.assigned(h.body, acc)
                self.assigned(s.orelse, acc)
                self.assigned(s.finalbody, acc)
            elif isinstance(s, ast.FunctionDef):
                add(s.name)
        return acc

    def default_of(self, ty, node):
        if ty == STR:
            return "([] : list N)"
        self.err(node, "no default value of type %s" % (ty,))

    def coerce(self, e, want, node):
        """value of type e.ty stored where `want` is expected"""
        if e.ty == want:
            return e
        if is_type(e.ty, "closure") and is_type(want, "func") and tuple(want[1]) == e.ty[2] and want[2] == e.ty[3] \
                and e.ty[4] in (None, "creation"):
            xs = ["x%d_" % i for i in range(len(e.ty[2]))]
            app = "%s %s" % (e.ty[1], " ".join(xs))
            if e.ty[4] == "creation":
                app = "match %s with Some r_ => r_ | None => %s end" % (app, self.default_of(e.ty[3], node))
            return E("(fun %s => %s)" % (" ".join(xs), app), want)
        if want == DYN and not e.partial:
            self.uses_dyn = True
            if e.ty == INT:
                return E("dyn_of_int ops %s" % (e.code if e.code.startswith("(") or " " not in e.code else "(%s)" % e.code), DYN)
            if e.ty == STR:
                return E("dyn_of_str ops %s" % (e.code if e.code.startswith(("(", "[")) or " " not in e.code else "(%s)" % e.code), DYN)
        if want == DYN and e.ty == FLOATV and not e.partial and "float_to_dyn" in self.spec:
            return E("%s (%s)" % (self.spec["float_to_dyn"], e.code), DYN)
        if want == AUTOV and e.ty == BOOL and e.const is not None:
            return E("PyTrue" if e.const else "PyFalse", AUTOV)
        if is_type(want, "sum") and e.ty in want[1:] and want[1] != want[2]:
            tag = "inl" if e.ty == want[1] else "inr"
            r = self.strict([e], lambda c: "%s (%s)" % (tag, c[0]), want)
            return r
        if is_type(want, "opt"):
            if e.ty == NONE:
                return E("(None : %s)" % self.ctype(want, node), want)
            if e.ty == want[1]:
                return self.strict([e], lambda c: "Some (%s)" % c[0], want)
        self.err(node, "value of type %s where %s is expected" % (e.ty, want))

    def ret(self, e, node):
        e = self.coerce(e, self.frames[-1]["ret"], node)
        if self.loop_ret:
            # a return out of a loop: the result has the shape of the context around the loop
            if self.loop_ret[-1]:
                return "inl (%s)" % (e.code if e.partial else "Some (%s)" % e.code)
            if e.partial:
                raise NeedPartial()
            return "inl (%s)" % e.code
        if self.pmode[-1]:
            return e.code if e.partial else "Some (%s)" % e.code
        if e.partial:
            raise NeedPartial()
        return e.code

    def bind(self, name, e, env, node):
        """(let-prefix, suffix, new env) for name = e"""
        self.bind_count[name] = self.bind_count.get(name, 0) + 1
        self.alias.pop(name, None)
        self._env_before = dict(env)
        env = dict(env)
        ty = e.ty
        if name in env and env[name] == AUTOV and ty == BOOL:
            e = self.coerce(e, AUTOV, node)
            ty = e.ty
        if name in env and env[name] == DYN and ty != DYN:
            try:
                e = self.coerce(e, DYN, node)      # a dyn variable stays dyn (str / int values are injected)
            except TranslateError:
                pass                 # the name is rebound with another type (each path is typed on its own)
            ty = e.ty
        cty = self.ctype(ty, node)
        env[name] = ty
        if e.partial:
            h = self.route(e, node)
            if h is not None:
                return ("match %s with\n| Some %s =>\n" % (e.code, self.var(name)),
                        "\n| None =>\n%s\nend" % indent(self.handled(h, self._env_before)), env)
            if self.loop_ret and not self.loop_brk and not self.in_try:
                # inside a loop with return: raising leaves the loop with the result None
                if not self.loop_ret[-1]:
                    raise NeedPartial()
                return "match %s with\n| None => inl None\n| Some %s =>\n" % (e.code, self.var(name)), "\nend", env
            self.need_partial(node)
            return "obind (%s) (fun %s : %s =>\n" % (e.code, self.var(name), cty), ")", env
        return "let %s : %s := %s in\n" % (self.var(name), cty, e.code), "", env

    def stmts(self, ss, env, tail):
        """code for the statement list `ss` followed by tail(env) on fall-through"""
        if not ss:
            return tail(env)
        s, rest = ss[0], ss[1:]
        go = lambda env2: self.stmts(rest, env2, tail)
        for src, repl in self.spec.get("stmt_rewrites", {}).items():
            # a statement whose effect the spec states as an assignment of an oracle operation's result
            if ast.dump(s) == ast.dump(ast.parse(src).body[0]):
                s = ast.copy_location(ast.parse(repl).body[0], s)
                ast.fix_missing_locations(s)
                for x in ast.walk(s):
                    x.lineno = ss[0].lineno
        if isinstance(s, ast.Pass):
            return go(env)
        if isinstance(s, ast.Expr) and isinstance(s.value, ast.Constant) and isinstance(s.value.value, str):
            return go(env)          # docstring
        # a file handed to a call is read by the callee: where it stands afterwards is not modelled, so the
        # variable is not available until it is assigned again
        heads = [s] if isinstance(s, (ast.Assign, ast.AugAssign, ast.Expr, ast.Return)) else \
            [s.test] if isinstance(s, (ast.If, ast.While)) else [s.iter] if isinstance(s, ast.For) else []
        passed = {a.id for h in heads for c in ast.walk(h) if isinstance(c, ast.Call)
                  for a in list(c.args) + [k.value for k in c.keywords]
                  if isinstance(a, ast.Name) and env.get(a.id) == FILE and not (isinstance(c.func, ast.Name) and c.func.id == "enumerate")}
        if passed:
            if not isinstance(s, (ast.Assign, ast.Expr)):
                self.err(s, "a file is handed to a call in this kind of statement")
            go_after = go
            go = lambda env2: go_after({k: (None if k in passed and not (isinstance(s, ast.Assign) and k in self.assigned([s], [])) else v)
                                        for k, v in env2.items()})
        if self.is_logger_call(s) and "logger" not in env:
            return go(env)          # logging is not translated (its arguments are assumed not to raise)
        sink = self.spec.get("write_sink")
        if sink and isinstance(s, ast.Expr) and isinstance(s.value, ast.Call) and same_ast(s.value.func, sink[0] + ".write") \
                and len(s.value.args) == 1 and not s.value.keywords:
            # file_object.write(e): the text written so far grows by e
            e = self.expr(s.value.args[0], env)
            if e.ty != STR or env.get(sink[1]) != STR:
                self.err(s, "write of %s" % (e.ty,))
            pre, post, env2 = self.bind(sink[1], self.strict([e], lambda c: "(%s ++ %s)" % (self.var(sink[1]), c[0]), STR), env, s)
            return pre + go(env2) + post
        if isinstance(s, ast.While):
            return self.while_stmt(s, env, go)
        if isinstance(s, ast.Return):
            if rest:
                self.err(rest[0], "statement after return")
            if s.value is None:
                self.err(s, "bare return")
            if isinstance(s.value, ast.Lambda):
                return self.return_lambda(s.value, env)
            if self.is_self_call(s.value, env):
                return self.rec_call(s.value, env)
            if self.frames[-1].get("top") and self.spec.get("returns_function"):
                # the function returns a function value: translated applied to the declared extra parameters
                e = self.expr(s.value, env)
                ps = self.spec["returns_function"]
                if e.ty != FUNC([t for _, t in ps], self.spec["ret"]):
                    self.err(s, "returns %s, not the declared function type" % (e.ty,))
                return self.ret(self.strict([e], lambda c: "(%s %s)" % (c[0], " ".join(self.var(p) for p, _ in ps)), self.spec["ret"]), s)
            if self.frames[-1].get("top") and self.spec.get("returns_lambda"):
                self.err(s, "return of something other than the declared lambda")
            if isinstance(s.value, ast.Tuple):
                return self.ret(self.expr_want(s.value, env, self.frames[-1]["ret"]), s)
            return self.ret(self.expr(s.value, env), s)
        if isinstance(s, ast.Break):
            if rest or not self.loop_brk:
                self.err(s, "unsupported break")
            return self.loop_brk[-1](env)
        if isinstance(s, ast.Continue):
            if rest or not self.loop_cont:
                self.err(s, "unsupported continue")
            return self.loop_cont[-1](env)
        if isinstance(s, ast.Assert):
            # assert c: AssertionError when c is false (the message is not evaluated otherwise and is not modelled)
            t = self.test(s.test, env)
            if t.partial:
                self.err(s, "the asserted test may raise")
            h = self.route(E("", BOOL, True, exc="AssertionError"), s) if self.handlers else None
            if h is not None:
                return "if %s then\n%s\nelse\n%s" % (t.code, indent(go(env)), indent(self.handled(h, env)))
            self.need_partial(s)
            return "if %s then\n%s\nelse None" % (t.code, indent(go(env)))
        if isinstance(s, ast.Raise):
            if rest:
                self.err(rest[0], "statement after raise")
            self.need_partial(s)
            return "None"
        if isinstance(s, ast.AugAssign):
            if not isinstance(s.target, ast.Name):
                self.err(s, "unsupported augmented assignment target")
            load = ast.copy_location(ast.Name(id=s.target.id, ctx=ast.Load()), s.target)
            v = ast.copy_location(ast.BinOp(left=load, op=s.op, right=s.value), s)
            s = ast.copy_location(ast.Assign(targets=[s.target], value=v), s)
        if isinstance(s, ast.Assign) and len(s.targets) == 1 and isinstance(s.targets[0], ast.Name) and isinstance(s.value, ast.Call) \
                and isinstance(s.value.func, ast.Attribute) and s.value.func.attr == "format" \
                and isinstance(s.value.func.value, ast.Constant) and isinstance(s.value.func.value.value, str) \
                and s.targets[0].id in self.spec.get("message_names", ()):
            # a message text that only logging calls and raise statements use (checked by function()): not modelled
            env2 = dict(env)
            env2[s.targets[0].id] = None
            return go(env2)
        if isinstance(s, ast.Assign):
            return self.assign(s, env, go)
        if isinstance(s, ast.Expr) and isinstance(s.value, ast.Call) and isinstance(s.value.func, ast.Attribute) \
                and s.value.func.attr == "set_session_mnemonic_only" and isinstance(s.value.func.value, ast.Name) \
                and len(s.value.args) == 1 and not s.value.keywords:
            # x.set_session_mnemonic_only(m) where x = l[i] was bound just before: the element of l changes
            x = s.value.func.value.id
            al = self.alias.get(x)
            if al is None or env.get(x) != ITEM or any(self.bind_count.get(nm, 0) != cnt for nm, cnt in al[2]):
                self.err(s, "%s is not known to be an element of a list" % x)
            lname, iname = al[0], al[1]
            m = self.expr(s.value.args[0], env)
            if m.ty != STR:
                self.err(s, "session mnemonic of type %s" % (m.ty,))
            new = self.partial_op([m], lambda c: "pyo_list_modify (%s) (%s) (fun it_ => pyo_set_session it_ (%s))" % (
                self.var(lname), self.var(iname), c[0]), env[lname], exc="IndexError")
            pre, post, env2 = self.bind(lname, new, env, s)
            env2 = dict(env2)
            env2[x] = None           # x is the element before the change
            return pre + go(env2) + post
        if isinstance(s, ast.Expr) and isinstance(s.value, ast.Yield) and "yields" in self.spec and s.value.value is not None:
            # yield e in a generator presented as the list of everything it yields: the list grows by e
            out, ety = self.spec["yields"]
            e = self.coerce(self.expr(s.value.value, env), ety, s)
            new = self.strict([e], lambda c: "(%s ++ [%s])" % (self.var(out), c[0]), LIST(ety))
            pre, post, env2 = self.bind(out, new, env, s)
            return pre + go(env2) + post
        if isinstance(s, ast.Expr):
            c = s.value
            if isinstance(c, ast.Call) and isinstance(c.func, ast.Attribute) and c.func.attr == "append" \
                    and isinstance(c.func.value, ast.Name) and len(c.args) == 1 and not c.keywords:
                name = c.func.value.id
                lty = env.get(name)
                a = self.expr(c.args[0], env)
                if name in self.spec.get("append_ops", {}) and is_type(lty, "list"):
                    # SectionItems.append: an operation of the spec's record, not list.append
                    a = self.coerce(a, lty[1], s)
                    new = self.strict([a], lambda c: "%s (%s) (%s)" % (self.spec["append_ops"][name], self.var(name), c[0]), lty)
                elif lty == SECT:
                    a = self.coerce(a, ITEM, s)
                    new = self.strict([a], lambda c: "s_append sops %s (%s)" % (self.var(name), c[0]), SECT)
                elif lty == PATS:
                    if a.ty != PAT or a.partial:
                        self.err(s, "append of %s to a pattern list" % (a.ty,))
                    new = E("(%s ++ [%s])" % (self.var(name), a.code), PATS)
                elif is_type(lty, "list"):
                    a = self.coerce(a, lty[1], s)
                    new = self.strict([a], lambda c: "(%s ++ [%s])" % (self.var(name), c[0]), lty)
                else:
                    self.err(s, ".append on %s" % (lty,))
                pre, post, env2 = self.bind(name, new, env, s)
                return pre + go(env2) + post
            self.err(s, "unsupported expression statement")
        if isinstance(s, ast.FunctionDef):
            if s.decorator_list or s.returns is not None:
                self.err(s, "unsupported nested function")
            a = s.args
            if a.vararg or a.kwarg or a.kwonlyargs or a.posonlyargs or a.defaults:
                self.err(s, "unsupported nested parameter kinds")
            pre, env2 = self.nested(s.name, [x.arg for x in a.args], s.body, None, env, s)
            return pre + go(env2)
        if isinstance(s, ast.For):
            return self.for_stmt(s, env, go)
        if isinstance(s, ast.Try):
            return self.try_stmt(s, env, go)
        if isinstance(s, ast.If):
            idiom = self.none_idiom(s, env)
            if idiom is not None:
                pre, post, env2 = idiom
                return pre + go(env2) + post
            static = self.static_test(s.test, env)
            if static is not None:
                return self.stmts(s.body if static else s.orelse, env, go)
            if not s.orelse and all(self.is_logger_call(b) for b in s.body):
                return go(env)      # only logs: skipped like the logging itself (the test is assumed not to raise)
            nar = self.narrow_test(s.test, env)
            if nar is not None:
                return self.if_narrow(s, env, go, nar)
            if not self.has_return([s]) and not self.handlers:
                return self.join_if(s, env, go)
            t = self.test(s.test, env)
            a = self.stmts(s.body, env, go)
            b = self.stmts(s.orelse, env, go)
            h = self.route(t, s) if t.partial else None
            if h is not None:
                v = self.fresh()
                return "match %s with\n| Some %s =>\n  if %s then\n%s\n  else\n%s\n| None =>\n%s\nend" % (
                    t.code, v, v, indent(a, 4), indent(b, 4), indent(self.handled(h, env)))
            if t.partial:
                self.need_partial(s)
                v = self.fresh()
                return "obind (%s) (fun %s =>\nif %s then\n%s\nelse\n%s)" % (t.code, v, v, indent(a), indent(b))
            return "if %s then\n%s\nelse\n%s" % (t.code, indent(a), indent(b))
        self.err(s, "unsupported statement %s" % type(s).__name__)

    @staticmethod
    def is_readline(v):
        return isinstance(v, ast.Call) and isinstance(v.func, ast.Attribute) and v.func.attr == "readline" \
            and isinstance(v.func.value, ast.Name) and not v.args and not v.keywords

    @staticmethod
    def is_logger_call(s):
        return isinstance(s, ast.Expr) and isinstance(s.value, ast.Call) and isinstance(s.value.func, ast.Attribute) \
            and isinstance(s.value.func.value, ast.Name) and s.value.func.value.id == "logger" \
            and s.value.func.attr in ("debug", "info", "warning", "error", "trace_lasio")

    def narrow_test(self, t, env):
        """(name, base type, is_none) for the test `name is None` / `name is not None` on an optional"""
        if isinstance(t, ast.Compare) and len(t.ops) == 1 and isinstance(t.ops[0], (ast.Is, ast.IsNot)) and isinstance(t.left, ast.Name) \
                and isinstance(t.comparators[0], ast.Constant) and t.comparators[0].value is None and is_type(env.get(t.left.id), "opt"):
            return t.left.id, env[t.left.id][1], isinstance(t.ops[0], ast.Is)
        return None

    def if_narrow(self, s, env, go, nar):
        """if x is None: A else: B on an optional x: a match; in B the name x is the value itself"""
        name, base, is_none = nar
        none_body, some_body = (s.body, s.orelse) if is_none else (s.orelse, s.body)
        tmp = self.fresh()
        env_some = dict(env)
        env_some[name] = base
        head = "let %s : %s := %s in\n" % (self.var(name), self.ctype(base, s), tmp)
        if self.has_return([s]) or self.handlers:
            a = self.stmts(none_body, env, go)
            b = self.stmts(some_body, env_some, go)
            return "match %s with\n| None =>\n%s\n| Some %s =>\n%s\nend" % (self.var(name), indent(a), tmp, indent(head + b))
        return self.join_if(s, env, go, narrow=(name, tmp, head, none_body, some_body, env_some))

    def while_stmt(self, s, env, go):
        """while c: body -- a local fixpoint on fuel (declared per loop in the spec; out of fuel is None)"""
        fuel = self.spec.get("while_fuel", {}).get(ast.unparse(s.test))
        if fuel is None:
            self.err(s, "while loop without a declared fuel")
        if s.orelse or self.handlers or self.loop_ret:
            self.err(s, "unsupported while loop")
        for x in ast.walk(s):
            if isinstance(x, (ast.Break, ast.Continue, ast.Return, ast.Raise, ast.FunctionDef, ast.Lambda, ast.For)) or (isinstance(x, ast.While) and x is not s):
                self.err(x, "%s inside a while loop" % type(x).__name__)
        touched = self.assigned(s.body, [])
        state = [nm for nm in touched if env.get(nm) is not None]
        if not state:
            self.err(s, "a loop that changes no variable defined before it")
        tup = "(" + ", ".join(self.var(nm) for nm in state) + ")" if len(state) > 1 else self.var(state[0])
        pat = "'" + tup if len(state) > 1 else tup
        sty = " * ".join("(%s)" % self.ctype(env[nm], s) for nm in state)
        self.pmode.append(False)
        self.in_try += 1          # neither the test nor the body may raise
        try:
            t = self.test(s.test, env)

            def end(env2):
                for nm in state:
                    if env2.get(nm) != env[nm]:
                        self.err(s, "the loop changes the type of %r" % nm)
                return "loop_ fuel_ %s" % tup
            body = self.stmts(s.body, env, end)
        finally:
            self.in_try -= 1
            self.pmode.pop()
        env3 = dict(env)
        for nm in touched:
            if nm not in state:
                env3[nm] = None
        self.need_partial(s)
        if t.partial:
            # the test may raise: that leaves the loop and the function (None), like running out of fuel
            return ("obind ((fix loop_ (fuel_ : nat) (st_ : %s) {struct fuel_} : option (%s) :=\n"
                    "  match fuel_ with\n  | O => None\n  | S fuel_ =>\n    let %s := st_ in\n    match %s with\n    | Some true =>\n%s\n"
                    "    | Some false => Some st_\n    | None => None\n    end\n  end) (%s) %s) (fun %s =>\n%s)") % (
                sty, sty, pat, t.code, indent(body, 6), fuel, tup, pat, go(env3))
        return ("obind ((fix loop_ (fuel_ : nat) (st_ : %s) {struct fuel_} : option (%s) :=\n"
                "  match fuel_ with\n  | O => None\n  | S fuel_ =>\n    let %s := st_ in\n    if %s then\n%s\n    else Some st_\n  end) (%s) %s) (fun %s =>\n%s)") % (
            sty, sty, pat, t.code, indent(body, 6), fuel, tup, pat, go(env3))

    def assign(self, s, env, go):
        if len(s.targets) != 1:
            self.err(s, "unsupported assignment target")
        tg = s.targets[0]
        v = s.value
        if isinstance(tg, ast.Tuple):
            # a, b = <pair>
            names = [x.id for x in tg.elts if isinstance(x, ast.Name)]
            e = self.expr(v, env)
            if len(names) != len(tg.elts) or not is_type(e.ty, "tuple") or len(e.ty) - 1 != len(names):
                self.err(s, "unsupported tuple assignment")
            env2 = dict(env)
            for nm, t in zip(names, e.ty[1:]):
                self.ctype(t, s)
                env2[nm] = t
                self.bind_count[nm] = self.bind_count.get(nm, 0) + 1
                self.alias.pop(nm, None)
            if e.partial:
                if self.handlers or self.loop_ret:
                    self.err(s, "tuple assignment from an operation that may raise, in this context")
                self.need_partial(s)
                return "obind (%s) (fun '(%s) =>\n%s)" % (e.code, ", ".join(self.var(nm) for nm in names), go(env2))
            return "let '(%s) := %s in\n" % (", ".join(self.var(nm) for nm in names), e.code) + go(env2)
        if isinstance(tg, ast.Attribute) and isinstance(tg.value, ast.Subscript) and isinstance(tg.value.value, ast.Name) \
                and is_type(env.get(tg.value.value.id), "list"):
            # l[i].attr = v: the list with its i-th element updated (IndexError: None)
            name = tg.value.value.id
            lty = env[name]
            setter = self.spec.get("attr_setters", {}).get((lty[1], tg.attr))
            if setter is None:
                self.err(s, "assignment to .%s of an element of type %s" % (tg.attr, lty[1]))
            i = self.expr(tg.value.slice, env)
            if i.ty != INT:
                self.err(s, "list index of type %s" % (i.ty,))
            val = self.coerce(self.expr(v, env), setter[1], s)
            new = self.partial_op([i, val], lambda c: "pyo_list_modify (%s) (%s) (fun c_ => %s c_ (%s))" % (
                self.var(name), c[0], setter[0], c[1]), lty)
            pre, post, env2 = self.bind(name, new, env, s)
            return pre + go(env2) + post
        if isinstance(tg, ast.Attribute) and isinstance(tg.value, ast.Name) and env.get(tg.value.id) == SECT:
            # section.mnemonic_transforms = True
            if tg.attr != "mnemonic_transforms" or not (isinstance(v, ast.Constant) and v.value is True):
                self.err(s, "assignment to an attribute of a section other than mnemonic_transforms = True")
            pre, post, env2 = self.bind(tg.value.id, E("s_set_transforms sops %s" % self.var(tg.value.id), SECT), env, s)
            return pre + go(env2) + post
        if isinstance(tg, ast.Subscript):
            # d[k] = v on a local dict
            if not (isinstance(tg.value, ast.Name) and is_type(env.get(tg.value.id), "dict")):
                self.err(s, "unsupported assignment target")
            name = tg.value.id
            dty = env[name]
            k = self.expr(tg.slice, env)
            pre = self.dict_prefix(dty, s)
            if k.ty != dty[1]:
                self.err(s, "dict key of type %s" % (k.ty,))
            val = self.expr_want(v, env, dty[2])
            new = self.strict([k, val], lambda c: "%s_set (%s) (%s) (%s)" % (pre, self.var(name), c[0], c[1]), dty)
            pre, post, env2 = self.bind(name, new, env, s)
            return pre + go(env2) + post
        if not isinstance(tg, ast.Name):
            self.err(s, "unsupported assignment target")
        if isinstance(v, ast.Call) and isinstance(v.func, ast.Name) and v.func.id not in env and v.func.id in LAMBDAS \
                and LAMBDAS[v.func.id]["file"] == self.spec["file"] and self.spec.get("use_lambdas"):
            return self.assign_closure(tg.id, v, env, go, s)
        if self.is_readline(v) and env.get(v.func.value.id) == FILE:
            # name = f.readline(): the next line ("" at the end of the file); f moves on by one line
            f = v.func.value.id
            if tg.id == f:
                self.err(s, "the file is rebound to a line")
            pre1, post1, env1 = self.bind(tg.id, E("pyo_readline_line %s" % self.var(f), STR), env, s)
            pre2, post2, env2 = self.bind(f, E("pyo_readline_rest %s" % self.var(f), FILE), env1, s)
            return pre1 + pre2 + go(env2) + post2 + post1
        name = tg.id
        if name in [p for p, t in self.spec["params"] if t is None]:
            self.err(s, "assignment to an untyped parameter")
        if isinstance(v, ast.Lambda):
            a = v.args
            if a.vararg or a.kwarg or a.kwonlyargs or a.posonlyargs or a.defaults:
                self.err(s, "unsupported lambda parameter kinds")
            pre, env2 = self.nested(name, [x.arg for x in a.args], None, v.body, env, s)
            return pre + go(env2)
        if isinstance(v, ast.Call) and same_ast(v.func, "re.compile") and "re" not in env and len(v.args) == 1 and not v.keywords \
                and isinstance(v.args[0], ast.Constant) and isinstance(v.args[0].value, str):
            # name = re.compile(<constant>): a local compiled pattern (parsed by CPython's own parser, regexes.py)
            try:
                term = regexes.translate(v.args[0].value)
            except regexes.TranslateError as ex:
                self.err(s, "pattern %r: %s" % (v.args[0].value, ex))
            pre, post, env2 = self.bind(name, E("(%s)" % term, REGEX), env, s)
            return pre + go(env2) + post
        if self.patterns and isinstance(v, ast.Constant) and isinstance(v.value, str):
            if name in self.frags:
                self.err(s, "pattern fragment %s assigned a second string constant" % name)
            check_fragment(v.value, name)
            self.frags.append(name)
            self.frag_src[name] = v.value
            e = E("[F_%s]" % name, PAT)
        elif name in self.spec.get("locals", {}):
            e = self.expr_want(v, env, self.spec["locals"][name])
        else:
            e = self.expr(v, env)
        pre, post, env2 = self.bind(name, e, env, s)
        if isinstance(v, ast.Subscript) and isinstance(v.value, ast.Name) and isinstance(v.slice, ast.Name) \
                and env.get(v.value.id) == LIST(ITEM) and env.get(v.slice.id) == INT:
            self.alias[name] = (v.value.id, v.slice.id, [(nm, self.bind_count.get(nm, 0)) for nm in (v.value.id, v.slice.id, name)])
        return pre + go(env2) + post

    def assign_closure(self, name, call, env, go, s):
        """name = f(args) for a module-level function f that returns a lambda (translated uncurried, LAMBDAS): the
        arguments are evaluated now (bound to fresh names); `name` is not a Gallina value but stands for the
        pending application: name(x) is f's translation applied to the arguments and x, and name handed on as a
        function is fun x => that.  Where None of the translation means "f(args) raised", the creation is guarded
        by one application (the lambda's own body cannot raise, so None does not depend on x)."""
        r = LAMBDAS[call.func.id]
        if r["raises_at"] == "mixed":
            self.err(s, "%s may raise both when it is called and when its result is called" % call.func.id)
        for b in r["extra"]:
            if b not in self.spec.get("extra_binders", []):
                self.err(s, "%s needs %s" % (call.func.id, b[1]))
        given = dict(zip(r["pnames"], call.args))
        if len(call.args) > len(r["pnames"]):
            self.err(s, "too many arguments for %s" % call.func.id)
        star = None
        for kw in call.keywords:
            if kw.arg is None:
                if star is not None:
                    self.err(s, "two ** arguments")
                star = kw.value
            elif kw.arg not in r["pnames"] or kw.arg in given:
                self.err(s, "keyword argument %s of %s" % (kw.arg, call.func.id))
            else:
                given[kw.arg] = kw.value
        pre, post, temps = "", "", []
        rest = [pn for pn in r["pnames"] if pn not in given]
        d = None
        if star is not None:
            # f(..., **d): every key of d must be a parameter not given otherwise (else TypeError); a parameter
            # that d lacks takes its default
            d = self.expr(star, env)
            if not is_type(d.ty, "dict") or d.ty[1] != STR or d.partial:
                self.err(s, "** of %s" % (d.ty,))
            self.need_partial(s)
            td = self.fresh()
            pre += "let %s := %s in\nif forallb (fun kv_ : %s => pyo_in_list (fst kv_) [%s]) %s then\n" % (
                td, d.code, self.ctype(TUPLE(d.ty[1], d.ty[2]), s), "; ".join(cstr(pn) for pn in rest), td)
            post = "\nelse None" + post
        for pn, t in zip(r["pnames"], r["args"]):
            tmp = self.fresh()
            if pn in given:
                e = self.expr_want(given[pn], env, t)
                if e.partial:
                    self.err(s, "argument of %s may raise" % call.func.id)
                code = e.code
            elif d is not None and pn in r["none_defaults"] and is_type(t, "opt") and d.ty[2] == t:
                code = "pyo_dict_get %s %s None" % (td, cstr(pn))
            elif pn in r["none_defaults"] and is_type(t, "opt"):
                code = "None"
            elif pn in r["default_codes"]:
                code = r["default_codes"][pn]
            else:
                self.err(s, "argument %s of %s is not given" % (pn, call.func.id))
            pre += "let %s : %s := %s in\n" % (tmp, self.ctype(t, s), code)
            temps.append(tmp)
        head = " ".join([r["coq"]] + (["ops"] if r["ops"] else []) + [b[1] for b in r["extra"]] + temps)
        if r["ops"]:
            self.uses_dyn = True
        if r["raises_at"] == "creation":
            self.need_partial(s)
            dummies = []
            for _, t in r["lam"]:
                if t != STR:
                    self.err(s, "no witness argument of type %s" % (t,))
                dummies.append("[]")
            pre += "obind (%s %s) (fun _ =>\n" % (head, " ".join(dummies))
            post = ")" + post
        self.bind_count[name] = self.bind_count.get(name, 0) + 1
        self.alias.pop(name, None)
        env2 = dict(env)
        env2[name] = ("closure", head, tuple(t for _, t in r["lam"]), r["ret"], r["raises_at"])
        return pre + go(env2) + post

    def none_idiom(self, s, env):
        """`if x is None: x = e` on an optional parameter: afterwards x has the plain type"""
        t = s.test
        if not (isinstance(t, ast.Compare) and len(t.ops) == 1 and isinstance(t.ops[0], ast.Is) and isinstance(t.left, ast.Name)
                and isinstance(t.comparators[0], ast.Constant) and t.comparators[0].value is None):
            return None
        name = t.left.id
        if not is_type(env.get(name), "opt") or s.orelse or len(s.body) != 1:
            return None
        a = s.body[0]
        if not (isinstance(a, ast.Assign) and len(a.targets) == 1 and isinstance(a.targets[0], ast.Name) and a.targets[0].id == name):
            return None
        base = env[name][1]
        e = self.coerce(self.expr(a.value, env), base, a)
        if e.partial:
            self.err(a, "default value may raise")
        tmp = self.fresh()
        code = "match %s with Some %s => %s | None => %s end" % (self.var(name), tmp, tmp, e.code)
        return self.bind(name, E(code, base), {k: v for k, v in env.items() if k != name}, s)

    def nested(self, name, params, body, body_expr, env, node):
        """a local function (def or name = lambda): a Gallina closure.  check_closures has made sure
        that no captured variable is rebound after the definition."""
        decl = self.spec.get("nested", {}).get(name)
        if decl is None:
            self.err(node, "undeclared nested function %s" % name)
        ptys, rty = decl
        if [p for p, _ in ptys] != params:
            self.err(node, "nested function %s has parameters %s" % (name, params))
        local = self.assigned(body, []) if body is not None else []
        env2 = {k: v for k, v in env.items() if k not in local and k not in params}
        env2.update(dict(ptys))
        self.frames.append(dict(ret=rty))
        self.pmode.append(False)
        try:
            if body is not None:
                def off_end(env3):
                    self.err(node, "control can fall off the end of %s" % name)
                code = self.stmts(body, env2, off_end)
            else:
                code = self.ret(self.expr(body_expr, env2), node)
        except NeedPartial:
            self.err(node, "nested function %s may raise" % name)
        finally:
            self.frames.pop()
            self.pmode.pop()
        fty = FUNC([t for _, t in ptys], rty)
        binders = " ".join("(%s : %s)" % (self.var(p), self.ctype(t, node)) for p, t in ptys)
        env3 = dict(env)
        env3[name] = fty
        return "let %s : %s :=\n  fun %s =>\n%s in\n" % (self.var(name), self.ctype(fty, node), binders, indent(code, 4)), env3

    def return_lambda(self, lam, env):
        """`return lambda p: e` of a function declared with returns_lambda: the Gallina function takes
        the lambda's parameters after its own"""
        decl = self.spec.get("returns_lambda")
        if decl is None or not self.frames[-1].get("top"):
            self.err(lam, "undeclared lambda result")
        a = lam.args
        if a.vararg or a.kwarg or a.kwonlyargs or a.posonlyargs or a.defaults or [x.arg for x in a.args] != [p for p, _ in decl]:
            self.err(lam, "lambda parameters differ from the declared %s" % [p for p, _ in decl])
        env2 = dict(env)
        for p, t in decl:
            env2[p] = t
        e = self.expr(lam.body, env2)
        if e.partial:
            self.lambda_partial = True
        return self.ret(e, lam)

    def elem_list_of(self, it_node):
        for src, name in self.spec.get("elem_lists", {}).items():
            if same_ast(it_node, src):
                return name
        return None

    def for_elements(self, s, env, go, lname):
        """for x in <item list L>: x.attr = e ...  -- the items of L are changed in place: L becomes the list of the
        changed items.  The body may only assign attributes of x (not the mnemonic) from expressions that cannot
        raise, and log."""
        if not (isinstance(s.target, ast.Name) and env.get(lname) == LIST(ITEM)) or s.orelse:
            self.err(s, "unsupported loop over the items of %s" % lname)
        x = s.target.id
        if x in env and env[x] is not None:
            self.err(s, "the loop variable %s is also a variable of the enclosing code" % x)
        env2 = dict(env)
        env2[x] = ITEM
        code = ""
        for st in s.body:
            if self.is_logger_call(st):
                continue
            if not (isinstance(st, ast.Assign) and len(st.targets) == 1 and isinstance(st.targets[0], ast.Attribute)
                    and isinstance(st.targets[0].value, ast.Name) and st.targets[0].value.id == x
                    and st.targets[0].attr in ("unit", "value", "descr")):
                self.err(st, "only x.unit / x.value / x.descr = e in a loop that changes the items of %s" % lname)
            attr = st.targets[0].attr
            self.pmode.append(False)
            self.in_try += 1
            try:
                e = self.coerce(self.expr(st.value, env2), ITEM_ATTRS[attr], st)
            finally:
                self.in_try -= 1
                self.pmode.pop()
            if e.partial:
                self.err(st, "the new value of x.%s may raise" % attr)
            fields = ["it_%s %s" % (a, self.var(x)) for a in ("mnemonic", "original_mnemonic", "unit", "value", "descr")]
            fields[("mnemonic", "original_mnemonic", "unit", "value", "descr").index(attr)] = "(%s)" % e.code
            code += "let %s : %s := mk_py_item (%s) (%s) (%s) (%s) (%s) in\n" % ((self.var(x), self.ctype(ITEM, s)) + tuple(
                f if f.startswith("(") else f for f in fields))
        new = E("List.map (fun %s : %s =>\n%s%s) %s" % (self.var(x), self.ctype(ITEM, s), indent(code), "  " + self.var(x), self.var(lname)), LIST(ITEM))
        pre, post, env3 = self.bind(lname, new, env, s)
        env3 = dict(env3)
        env3[x] = None
        return pre + go(env3) + post

    def for_stmt(self, s, env, go):
        if self.handlers:
            self.err(s, "a loop inside try/except")
        lname = self.elem_list_of(s.iter)
        if lname is not None and any(isinstance(t, ast.Attribute) for st in s.body if isinstance(st, ast.Assign) for t in st.targets):
            return self.for_elements(s, env, go, lname)
        breaks = any(isinstance(x, (ast.Break, ast.Continue)) for b in s.body for x in ast.walk(b))
        raises = bool(self.spec.get("loop_raise")) and (breaks or any(isinstance(x, ast.Raise) for b in s.body for x in ast.walk(b)))
        for x in ast.walk(s):
            if isinstance(x, (ast.FunctionDef, ast.Lambda, ast.While)) or (isinstance(x, ast.Raise) and not raises):
                self.err(x, "%s inside a for loop" % type(x).__name__)
        if breaks or raises:
            if s.orelse or any(isinstance(x, ast.Return) for b in s.body for x in ast.walk(b)):
                self.err(s, "a loop with break / continue and else / return")
            for b in s.body:
                for inner in ast.walk(b):
                    if isinstance(inner, ast.For) and any(isinstance(x, (ast.Break, ast.Continue, ast.Raise)) for x in ast.walk(inner)):
                        self.err(inner, "break / continue / raise in a loop inside a loop with break / continue")
        if s.orelse:
            # no break: the else clause simply runs after the loop
            after, go = go, (lambda env2: self.stmts(s.orelse, env2, after))
        returns = any(isinstance(x, ast.Return) for b in s.body for x in ast.walk(b))
        # what is iterated
        it_node = s.iter
        if isinstance(it_node, ast.Call) and isinstance(it_node.func, ast.Attribute) and it_node.func.attr == "items" \
                and not it_node.args and not it_node.keywords:
            it = self.expr(it_node.func.value, env)
            if not is_type(it.ty, "dict"):
                self.err(s, ".items() of %s" % (it.ty,))
            ety = TUPLE(it.ty[1], it.ty[2])
        else:
            it = self.expr(it_node, env)
            if it.ty == PATS:
                ety = PAT
            elif it.ty == FILE:
                ety = STR
            elif not is_type(it.ty, "list"):
                self.err(s, "iteration over %s" % (it.ty,))
            else:
                ety = it.ty[1]
        if it.partial:
            # the iterated expression is evaluated once, before the loop
            self.need_partial(s)
            t_it = self.fresh()
            inner = self.for_stmt_on(s, env, go, E(t_it, it.ty), ety, returns, breaks or raises)
            return "obind (%s) (fun %s =>\n%s)" % (it.code, t_it, inner)
        return self.for_stmt_on(s, env, go, it, ety, returns, breaks or raises)

    def for_stmt_on(self, s, env, go, it, ety, returns, breaks):
        # a file that is iterated is used up: it is not available in the body nor after the loop
        files = [x.id for x in ast.walk(s.iter) if isinstance(x, ast.Name) and env.get(x.id) == FILE]
        if files:
            env = dict(env)
            for f in files:
                env[f] = None
        # the loop variable(s)
        x = self.fresh()
        tg = s.target
        if isinstance(tg, ast.Name):
            targets = [(tg.id, ety)]
            binder = "(%s : %s)" % (self.var(tg.id), self.ctype(ety, s))
            unpack = ""
        elif isinstance(tg, ast.Tuple) and len(tg.elts) == 2 and all(isinstance(e, ast.Name) for e in tg.elts):
            a, b = tg.elts[0].id, tg.elts[1].id
            if ety == OEX:
                targets = [(a, STR), (b, LIST(STR))]
                binder = "(%s : %s)" % (x, self.ctype(OEX, s))
                unpack = "let %s : list N := order_str (fst %s) in\nlet %s : list (list N) := snd %s in\n" % (self.var(a), x, self.var(b), x)
            elif is_type(ety, "tuple") and len(ety) == 3:
                targets = [(a, ety[1]), (b, ety[2])]
                binder = "(%s : %s)" % (x, self.ctype(ety, s))
                unpack = "let '(%s, %s) := %s in\n" % (self.var(a), self.var(b), x)
            else:
                self.err(s, "tuple target over elements of type %s" % (ety,))
        else:
            self.err(s, "unsupported loop target")
        tnames = [nm for nm, _ in targets]
        # the loop state: the names the body rebinds that exist before the loop
        touched = self.assigned(s.body, [])
        state = [nm for nm in touched if env.get(nm) is not None and nm not in tnames]
        if not state and not returns:
            self.err(s, "a loop that changes no variable defined before it")
        if returns:
            return self.for_return(s, env, go, state, targets, binder, unpack, it, touched, tnames)
        if breaks:
            return self.for_break(s, env, go, state, targets, binder, unpack, it, touched, tnames,
                                  raising=bool(self.spec.get("loop_raise")))
        for nm in state:
            self.ctype(env[nm], s)
        env_body = dict(env)
        for nm, t in targets:
            env_body[nm] = t
        tup = "(" + ", ".join(self.var(nm) for nm in state) + ")" if len(state) > 1 else self.var(state[0])
        pat = "'" + tup if len(state) > 1 else tup

        def build(partial):
            def end(env2):
                for nm in state:
                    if env2.get(nm) != env[nm]:
                        self.err(s, "the loop changes the type of %r" % nm)
                return "Some %s" % (tup if len(state) > 1 else "(%s)" % tup) if partial else tup
            return self.stmts(s.body, env_body, end)
        body, partial = self.with_retry(build)
        env3 = dict(env)
        for nm in touched + tnames:
            if nm not in state:
                env3[nm] = None          # defined after the loop only if it ran
        if partial:
            self.need_partial(s)
            acc = self.fresh()
            return "obind (fold_left (fun %s %s => obind %s (fun %s =>\n%s)) (%s) (Some %s)) (fun %s =>\n%s)" % (
                acc, binder, acc, pat, indent(unpack + body), it.code, tup if len(state) > 1 else "(%s)" % tup, pat, go(env3))
        return "let %s := fold_left (fun %s %s =>\n%s) (%s) %s in\n%s" % (
            pat, pat if len(state) > 1 else "(%s : %s)" % (tup, self.ctype(env[state[0]], s)), binder, indent(unpack + body),
            it.code, tup, go(env3))

    def for_break(self, s, env, go, state, targets, binder, unpack, it, touched, tnames, raising=False):
        """a loop whose body may break: the fold carries inl <state> once the loop is left, else inr <state>.
        The body must not raise - unless the spec declares `loop_raise`: then the fold carries an option of that
        (None: an exception left the loop, and the function)."""
        if not state:
            self.err(s, "a loop that changes no variable defined before it")
        for nm in state:
            self.ctype(env[nm], s)
        env_body = dict(env)
        for nm, t in targets:
            env_body[nm] = t
        tup = "(" + ", ".join(self.var(nm) for nm in state) + ")" if len(state) > 1 else self.var(state[0])
        pat = "'" + tup if len(state) > 1 else tup

        def leave(env2, tag):
            for nm in state:
                if env2.get(nm) != env[nm]:
                    self.err(s, "the loop changes the type of %r" % nm)
            return ("Some (%s %s)" if raising else "%s %s") % (tag, tup)
        if raising:
            self.need_partial(s)
        self.loop_brk.append(lambda env2: leave(env2, "inl"))
        self.loop_cont.append(lambda env2: leave(env2, "inr"))
        self.loop_raising.append(raising)
        self.pmode.append(raising)
        try:
            body = self.stmts(s.body, env_body, lambda env2: leave(env2, "inr"))
        finally:
            self.pmode.pop()
            self.loop_brk.pop()
            self.loop_cont.pop()
            self.loop_raising.pop()
        env3 = dict(env)
        for nm in touched + tnames:
            if nm not in state:
                env3[nm] = None
        acc, r = self.fresh(), self.fresh()
        if raising:
            return ("obind (option_map (fun %s => match %s with inl %s => %s | inr %s => %s end)\n"
                    "  (fold_left (fun %s %s => match %s with None => None | Some (inl %s) => Some (inl %s) | Some (inr %s) =>\n%s\n    end) (%s) (Some (inr %s)))) (fun %s =>\n%s)") % (
                acc, acc, r, r, r, r, acc, binder, acc, r, r, tup, indent(unpack + body, 6), it.code, tup, pat, go(env3))
        return ("let %s :=\n  match fold_left (fun %s %s => match %s with inl %s => inl %s | inr %s =>\n%s\n    end) (%s) (inr %s) with\n"
                "  | inl %s => %s\n  | inr %s => %s\n  end in\n%s") % (
            pat, acc, binder, acc, r, r, tup, indent(unpack + body, 6), it.code, tup, r, r, r, r, go(env3))

    def for_return(self, s, env, go, state, targets, binder, unpack, it, touched, tnames):
        """a loop whose body may return: the fold carries inl <the function's result> once a return
        has happened, else inr <the loop state>.  The body must not raise."""
        for nm in state:
            self.ctype(env[nm], s)
        env_body = dict(env)
        for nm, t in targets:
            env_body[nm] = t
        tup = ("(" + ", ".join(self.var(nm) for nm in state) + ")" if len(state) > 1 else self.var(state[0])) if state else "tt"
        mpat = tup if state else "_"          # as a match pattern

        def end(env2):
            for nm in state:
                if env2.get(nm) != env[nm]:
                    self.err(s, "the loop changes the type of %r" % nm)
            return "inr %s" % tup
        self.loop_ret.append(self.pmode[-1])
        self.pmode.append(False)
        try:
            body = self.stmts(s.body, env_body, end)
        finally:
            self.pmode.pop()
            self.loop_ret.pop()
        env3 = dict(env)
        for nm in touched + tnames:
            if nm not in state:
                env3[nm] = None
        acc, r = self.fresh(), self.fresh()
        return ("match fold_left (fun %s %s => match %s with inl %s => inl %s | inr %s =>\n%s\n  end) (%s) (inr %s) with\n"
                "| inl %s => %s\n| inr %s =>\n%s\nend") % (
            acc, binder, acc, r, r, mpat, indent(unpack + body, 4), it.code, tup, r, r, mpat, indent(go(env3)))

    def try_stmt(self, s, env, go):
        hs = s.handlers
        if len(hs) != 1 or hs[0].name is not None or s.finalbody:
            self.err(s, "unsupported try statement")
        h = hs[0]
        if s.orelse and h.type is not None and not (isinstance(h.type, ast.Name) and h.type.id in (
                "TypeError", "IndexError", "KeyError", "ValueError", "AssertionError")):
            self.err(s, "try / else with this handler")
        if isinstance(h.type, ast.Name) and h.type.id == "AttributeError" and len(h.body) == 1 and isinstance(h.body[0], ast.Pass):
            # no supported operation on the declared types raises AttributeError
            return self.stmts(s.body, env, go)
        CLASSES = ("TypeError", "IndexError", "KeyError", "ValueError", "AssertionError")
        if isinstance(h.type, ast.Name) and h.type.id in CLASSES and h.type.id not in env:
            # try: BODY except <Class>: HANDLER -- every operation of BODY that raises <Class> continues with
            # HANDLER (with the variables as they are at that point), then with what follows the try
            ctx = dict(classes={h.type.id}, fn=lambda env_at: self.stmts(h.body, env_at, go))
            self.handlers.append(ctx)

            def go3(env2):
                # the else clause and what follows the try run outside the handler
                i = self.handlers.index(ctx)
                saved, self.handlers = self.handlers, self.handlers[:i]
                try:
                    return self.stmts(s.orelse, env2, go)
                finally:
                    self.handlers = saved
            try:
                return self.stmts(s.body, env, go3)
            finally:
                self.handlers.remove(ctx)
        if h.type is not None:
            self.err(s, "unsupported except clause")
        # try: <return | name => an external call that may raise>  except: <handler>
        oracles = self.spec.get("oracles", {})
        st = s.body[0] if len(s.body) == 1 else None
        call = st.value if isinstance(st, (ast.Return, ast.Assign)) else None
        if isinstance(call, ast.Call) and ast.unparse(call.func) in oracles and oracles[ast.unparse(call.func)]["raises"] and not s.orelse:
            if isinstance(st, ast.Assign) and not (len(st.targets) == 1 and isinstance(st.targets[0], ast.Name)):
                self.err(st, "unsupported assignment target")
            o = self.oracle(call, env)
            t = self.fresh()
            if isinstance(st, ast.Return):
                ok = self.ret(E(t, o.ty), st)
            else:
                pre, post, env2 = self.bind(st.targets[0].id, E(t, o.ty), env, st)
                ok = pre + go(env2) + post
            bad = self.stmts(h.body, env, go)
            return "match %s with\n| Some %s =>\n%s\n| None =>\n%s\nend" % (o.code, t, indent(ok), indent(bad))
        if isinstance(st, ast.Assign) and len(st.targets) == 1 and isinstance(st.targets[0], ast.Name) and isinstance(call, ast.Call) \
                and not self.handlers:
            # try: v = <a translated call; None: it raised, whatever the class>  except: HANDLER  else: ELSE
            e = self.expr(call, env)
            if e.partial:
                t = self.fresh()
                pre, post, env2 = self.bind(st.targets[0].id, E(t, e.ty), env, st)
                ok = pre + self.stmts(s.orelse, env2, go) + post
                bad = self.stmts(h.body, env, go)
                return "match %s with\n| Some %s =>\n%s\n| None =>\n%s\nend" % (e.code, t, indent(ok), indent(bad))
        if s.orelse:
            self.err(s, "unsupported try / else")
        # try: <statements that cannot raise on the declared types>  except: pass
        if len(h.body) == 1 and isinstance(h.body[0], ast.Pass):
            self.in_try += 1

            def go2(env2):
                self.in_try -= 1
                try:
                    return go(env2)
                finally:
                    self.in_try += 1
            try:
                return self.stmts(s.body, env, go2)
            finally:
                self.in_try -= 1
        self.err(s, "unsupported try statement")

    def join_if(self, s, env, go, narrow=None):
        names = self.assigned([s], [])
        if narrow is not None:
            nname, ntmp, nhead, none_body, some_body, env_some = narrow
            t = E("<narrow>", BOOL)
        else:
            t = self.test(s.test, env)

        def build(partial):
            envs = []

            def end(env2):
                envs.append(env2)
                return "<JOIN%d>" % (len(envs) - 1)
            if narrow is not None:
                a = self.stmts(none_body, env, end)
                b = nhead + self.stmts(some_body, env_some, end)
                return a, b, envs
            a = self.stmts(s.body, env, end)
            b = self.stmts(s.orelse, env, end)
            return a, b, envs
        if t.partial:
            self.pmode.append(True)
            try:
                (a, b, envs), partial = build(True), True
            finally:
                self.pmode.pop()
        else:
            (a, b, envs), partial = self.with_retry(build)
        # a name is joined when it is defined on every path out of the statement
        joined, env3 = [], dict(env)
        unset = self.spec.get("maybe_unset", ())
        for nm in names:
            tys = [e.get(nm) for e in envs]
            if None in tys and nm in unset and any(t is not None for t in tys):
                # an attribute that some paths leave unset: None on those paths
                base = self.unify([t[1] if is_type(t, "opt") else t for t in tys if t is not None], s)
                joined.append(nm)
                env3[nm] = OPT(base)
                self.ctype(env3[nm], s)
            elif None in tys:
                env3[nm] = None         # possibly undefined afterwards
            else:
                joined.append(nm)
                env3[nm] = self.unify(tys, s)
                self.ctype(env3[nm], s)
        if not joined and not partial:
            return go(env3)
        for k, e in enumerate(envs):
            vals = [self.coerce(E(self.var(nm), e[nm]), env3[nm], s).code if e.get(nm) is not None
                    else "(None : %s)" % self.ctype(env3[nm], s) for nm in joined]
            tup = ("(" + ", ".join(vals) + ")" if len(vals) > 1 else vals[0]) if vals else "tt"
            if partial:
                tup = "Some %s" % (tup if tup.startswith("(") or " " not in tup else "(%s)" % tup)
            a = a.replace("<JOIN%d>" % k, tup)
            b = b.replace("<JOIN%d>" % k, tup)
        names_tup = ("(" + ", ".join(self.var(nm) for nm in joined) + ")" if len(joined) > 1 else self.var(joined[0])) if joined else "_"
        pat = "'" + names_tup if len(joined) > 1 else names_tup
        if narrow is not None:
            head = "match %s with\n  | None =>\n%s\n  | Some %s =>\n%s\n  end" % (self.var(nname), indent(a, 4), ntmp, indent(b, 4))
            if not partial:
                return "let %s :=\n  (%s) in\n%s" % (pat, head, go(env3))
            self.need_partial(s)
            return "obind (%s) (fun %s =>\n%s)" % (head, pat, go(env3))
        if not partial:
            return "let %s :=\n  (if %s then\n%s\n  else\n%s) in\n%s" % (pat, t.code, indent(a, 4), indent(b, 4), go(env3))
        self.need_partial(s)
        if t.partial:
            v = self.fresh()
            head = "obind (%s) (fun %s =>\n  if %s then\n%s\n  else\n%s)" % (t.code, v, v, indent(a, 4), indent(b, 4))
        else:
            head = "if %s then\n%s\n  else\n%s" % (t.code, indent(a, 4), indent(b, 4))
        return "obind (%s) (fun %s =>\n%s)" % (head, pat, go(env3))

    # ---- a whole function --------------------------------------------------------------------
    def function(self, fn):
        spec = self.spec
        self.check_signature(fn)
        env0 = {p: t for p, t in spec["params"] if t is not None}
        if spec.get("kwarg"):
            env0[spec["kwarg"][0]] = spec["kwarg"][1]
        body = self.body_of(fn)
        self.check_closures(body)
        for nm in spec.get("message_names", ()):
            # every use of the name is an argument of a logging call or of the exception of a raise
            ok = {id(x) for st in ast.walk(fn) if isinstance(st, ast.Raise) or self.is_logger_call(st) for x in ast.walk(st)}
            for x in ast.walk(fn):
                if isinstance(x, ast.Name) and x.id == nm and isinstance(x.ctx, ast.Load) and id(x) not in ok:
                    self.err(x, "%s is used outside logging / raise" % nm)

        def off_end(env2):
            if spec.get("returns_lambda"):
                # the function returns None instead of a function: calling that raises TypeError
                self.fell_off = True
                if getattr(self, "probe_prefix", False):
                    return "<FELL>"
                self.need_partial(fn)
                return "None"
            self.err(fn, "control can fall off the end of the function (returns None)")
        for partial in (False, True):
            self.reset()
            self.pmode = [partial]
            self.fell_off = self.lambda_partial = False
            try:
                code = self.stmts(body, dict(env0), off_end)
                break
            except NeedPartial:
                if partial:
                    self.err(fn, "internal: partial construct in a partial context")
        self.fn_partial = partial
        all_tys = [t for _, t in spec["params"] if t is not None] + [spec["ret"]] + list(spec.get("self_attrs", {}).values()) \
            + [t for _, t in spec.get("returns_lambda", [])] + ([spec["kwarg"][1]] if spec.get("kwarg") else [])
        needs_ops = self.uses_dyn
        binders = []
        if needs_ops:
            binders.append("{V : Type} (ops : dyn_ops V)")
        elif any(mentions(t, (DYN, ITEM, SECTION)) for t in all_tys):
            binders.append("{V : Type}")
        for b in spec.get("extra_binders", []):
            binders.append(b[0])
        for name in spec.get("self_attrs", {}):
            binders.append("(%s : %s)" % (self.var("self_" + name), coq_type(spec["self_attrs"][name])))
        for p, t in spec["params"]:
            if t is not None:
                binders.append("(%s : %s)" % (self.var(p), coq_type(t)))
        if spec.get("kwarg"):
            binders.append("(%s : %s)" % (self.var(spec["kwarg"][0]), coq_type(spec["kwarg"][1])))
        for name in spec.get("opaque_tests", {}).values():
            binders.append("(%s : bool)" % self.var(name))
        for name, cty in spec.get("opaque_params", []):
            binders.append("(%s : %s)" % (self.var(name), cty))
        for p, t in spec.get("returns_lambda", []) + spec.get("returns_function", []):
            binders.append("(%s : %s)" % (self.var(p), coq_type(t)))
        rty = coq_type(spec["ret"])
        if self.fn_partial:
            rty = "option (%s)" % rty
        out = []
        for name, pat, term in self.regexes:
            out.append("(* %s = %s *)" % (name, csafe(pat)))
            out.append("Definition %s : re := %s." % (name, term))
        if self.patterns:
            spec["done"] = True
            out.append("Inductive frag := %s." % " | ".join("F_" + f for f in self.frags))
            out.append("Definition frag_re (f : frag) : re :=\n  match f with\n%s\n  end." %
                       "\n".join("  | F_%s => rx_%s" % (f, f) for f in self.frags))
            out.append("Definition pat_re (p : list frag) : re := seq_of (List.map frag_re p).")
            out.append("Definition pats_re (ps : list (list frag)) : list re := List.map pat_re ps.")
        if self.uses_rec:
            if needs_ops or spec.get("opaque_tests") or spec.get("kwarg"):
                self.err(fn, "recursion in a function of this shape")
            pnames = [self.var(p) for p, t in spec["params"] if t is not None]
            out.append("Fixpoint %s_fuel (fuel : nat) %s {struct fuel} : %s :=\n  match fuel with\n  | O => None\n  | S fuel_ =>\n%s\n  end."
                       % (spec["coq"], " ".join(binders), rty, indent(code, 4)))
            out.append("Definition %s %s : %s :=\n  %s_fuel (%s) %s." % (
                spec["coq"], " ".join(binders), rty, spec["coq"], spec["rec_fuel"], " ".join(self.rec_fixed() + pnames)))
        else:
            out.append("Definition %s %s : %s :=\n%s." % (spec["coq"], " ".join(binders), rty, indent(code)))
        # how other translated functions call this one (positional parameters only)
        if spec.get("kwarg") and spec.get("cls") and not spec.get("opaque_tests") and not spec.get("returns_lambda") \
                and [t for _, t in spec["params"] if t is not None] == []:
            # a method of **keys: only parser_call_def calls it (with the keys record as its last argument)
            REGISTRY["%s.%s" % (spec["cls"], spec["py"])] = dict(
                coq=spec["coq"], args=list(spec.get("self_attrs", {}).values()) + [spec["kwarg"][1]], ret=spec["ret"],
                partial=self.fn_partial, ops=needs_ops, extra=list(spec.get("extra_binders", [])), file=None, mutator=False,
                pnames=[], none_defaults=[], self_attrs=list(spec.get("self_attrs", {})), kwarg=True)
        if not spec.get("opaque_tests") and not spec.get("returns_lambda") and not spec.get("kwarg") and not spec.get("returns_function"):
            qual = "%s.%s" % (spec["py"], spec["nested_name"]) if spec.get("nested_name") else \
                (spec["cls"] + "." if spec.get("cls") else "") + spec["py"]
            REGISTRY[qual] = dict(
                coq=spec["coq"], args=[t for t in spec.get("self_attrs", {}).values()] + [t for _, t in spec["params"] if t is not None],
                ret=spec["ret"], partial=self.fn_partial, ops=needs_ops, extra=list(spec.get("extra_binders", [])),
                file=spec["file"] if not spec.get("cls") and not spec.get("translator") else None,
                mutator=bool(spec.get("mutator")),
                pnames=[p for p, t in spec["params"] if t is not None],
                allp=[(p, t) for p, t in spec["params"] if not (spec.get("cls") and p == "self" and t is None)],
                none_defaults=[a.arg for a, d in zip(fn.args.args[len(fn.args.args) - len(fn.args.defaults):], fn.args.defaults)
                               if isinstance(d, ast.Constant) and d.value is None],
                self_attrs=list(spec.get("self_attrs", {})))
        if spec.get("returns_lambda") and not spec.get("cls") and not spec.get("translator") and not spec.get("kwarg") \
                and not spec.get("opaque_tests"):
            # how `g = f(args)` and then `g(x)` / passing g on are translated by other functions of the module:
            # None of the uncurried function means "f(args) raised" (creation) when it comes from the statements
            # before the `return lambda`, "g(x) raised" (call: g is None) when control fell off the end
            fell, lam_partial = self.fell_off, self.lambda_partial
            mixed = False
            if self.fn_partial and fell:
                self.reset()
                self.pmode = [False]
                self.probe_prefix = True
                try:
                    self.stmts(body, dict(env0), off_end)
                except NeedPartial:
                    mixed = True            # both the prefix and falling off the end
                finally:
                    self.probe_prefix = False
            a = fn.args
            LAMBDAS[spec["py"]] = dict(
                coq=spec["coq"], pnames=[p for p, _ in spec["params"]], args=[t for _, t in spec["params"]],
                lam=list(spec["returns_lambda"]), ret=spec["ret"], partial=self.fn_partial, ops=needs_ops,
                extra=list(spec.get("extra_binders", [])), file=spec["file"],
                raises_at=None if not self.fn_partial else ("mixed" if mixed or lam_partial else "call" if fell else "creation"),
                none_defaults=[x.arg for x, d in zip(a.args[len(a.args) - len(a.defaults):], a.defaults)
                               if isinstance(d, ast.Constant) and d.value is None],
                default_codes=dict(spec.get("default_codes", {})))
        return "\n".join(out)

    def body_of(self, fn):
        return fn.body

    def check_signature(self, fn):
        a = fn.args
        kw = self.spec.get("kwarg")
        if a.vararg or a.kwonlyargs or a.posonlyargs or (a.kwarg is not None) != bool(kw) or (kw and a.kwarg.arg != kw[0]):
            self.err(fn, "unsupported parameter kinds")
        got = [x.arg for x in a.args]
        want = [p for p, _ in self.spec["params"]]
        if got != want:
            self.err(fn, "parameters are %s, expected %s" % (got, want))
        declared = self.spec.get("defaults", {})
        dparams = got[len(got) - len(a.defaults):]
        for p, d in zip(dparams, a.defaults):
            if isinstance(d, ast.Constant) and d.value is None:
                continue
            if p in declared and same_ast(d, declared[p]):
                continue        # the pin theorem instantiates the parameter with this default
            self.err(fn, "unsupported parameter default")

    def check_closures(self, body):
        """A Gallina closure captures values, a Python closure captures variables: a nested function
        is translated only if none of its free variables is rebound at or after its definition, and
        it is not defined inside a loop."""
        outer = ast.Module(body=body, type_ignores=[])
        for loop in ast.walk(outer):
            if isinstance(loop, (ast.For, ast.While)):
                for x in ast.walk(loop):
                    if isinstance(x, (ast.FunctionDef, ast.Lambda)):
                        self.err(x, "function defined inside a loop")
        for node in ast.walk(outer):
            if isinstance(node, (ast.Global, ast.Nonlocal)):
                self.err(node, "global / nonlocal")
            if not isinstance(node, (ast.FunctionDef, ast.Lambda)):
                continue
            params = {x.arg for x in node.args.args}
            inner = node.body if isinstance(node, ast.FunctionDef) else [node.body]
            inside = {id(x) for b in inner for x in ast.walk(b)}
            local = set(self.assigned(inner, [])) if isinstance(node, ast.FunctionDef) else set()
            free = {x.id for b in inner for x in ast.walk(b) if isinstance(x, ast.Name) and isinstance(x.ctx, ast.Load)} - params - local
            for x in ast.walk(outer):
                if id(x) in inside or getattr(x, "lineno", 0) < node.lineno:
                    continue
                stored = None
                if isinstance(x, ast.Name) and isinstance(x.ctx, (ast.Store, ast.Del)):
                    stored = x.id
                elif isinstance(x, ast.FunctionDef) and x is not node:
                    stored = x.name
                elif isinstance(x, (ast.Subscript, ast.Attribute)) and isinstance(x.ctx, (ast.Store, ast.Del)) \
                        and isinstance(x.value, ast.Name):
                    stored = x.value.id
                elif isinstance(x, ast.Call) and isinstance(x.func, ast.Attribute) and isinstance(x.func.value, ast.Name) \
                        and x.func.attr in ("append", "extend", "insert", "pop", "update", "clear", "remove", "sort"):
                    stored = x.func.value.id
                if stored in free:
                    self.err(x, "%r is captured by a nested function and rebound afterwards" % stored)


def check_fragment(pattern, name):
    """A fragment may be concatenated with others only if the AST of the concatenation is the
    sequence of the ASTs: no top-level alternation."""
    try:
        p = regexes.sp.parse(pattern)
    except Exception as e:
        raise TranslateError("fragment %s does not parse: %s" % (name, e))
    for op, _ in list(p):
        if str(op) == "BRANCH":
            raise TranslateError("fragment %s has a top-level alternation" % name)


# ---------------------------------------------------------------------------------------------
# the route chain of LASFile.read: a fragment of a big method, located by its shape
class RouteTr(Tr):
    """`section_letter = section_title[1].upper()` followed by the if / elif chain whose every
    branch is `self.sections[<key>] = sct_items`; translated as the function that returns <key>."""

    def body_of(self, fn):
        found = []
        for node in ast.walk(fn):
            for field in ("body", "orelse", "finalbody"):
                block = getattr(node, field, None)
                if not isinstance(block, list):
                    continue
                for i, s in enumerate(block):
                    if isinstance(s, ast.If) and self.is_chain(s) and i > 0:
                        # an elif is the sole member of its parent's orelse: is_letter fails there
                        if self.is_letter(block[i - 1]):
                            found.append(([block[i - 1]], s))
                        elif i > 1 and self.is_letter(block[i - 2]) and self.is_flag(block[i - 1]):
                            # one plain `name = <test>` between the letter and the chain
                            found.append(([block[i - 2], block[i - 1]], s))
        if len(found) != 1:
            self.err(fn, "expected exactly one section-letter routing chain, found %d" % len(found))
        head, chain = found[0]
        return head + [self.rewrite(chain)]

    @staticmethod
    def is_flag(s):
        return isinstance(s, ast.Assign) and len(s.targets) == 1 and isinstance(s.targets[0], ast.Name) \
            and s.targets[0].id not in ("section_letter", "section_title", "sct_items")

    @staticmethod
    def is_letter(s):
        return isinstance(s, ast.Assign) and len(s.targets) == 1 and isinstance(s.targets[0], ast.Name) \
            and s.targets[0].id == "section_letter"

    @staticmethod
    def store_key(s):
        """<key> of `self.sections[<key>] = sct_items`, else None"""
        if isinstance(s, ast.Assign) and len(s.targets) == 1 and isinstance(s.targets[0], ast.Subscript):
            t = s.targets[0]
            if isinstance(t.value, ast.Attribute) and t.value.attr == "sections" and isinstance(t.value.value, ast.Name) \
                    and t.value.value.id == "self" and isinstance(s.value, ast.Name) and s.value.id == "sct_items":
                return t.slice
        return None

    def is_chain(self, s):
        uses = any(isinstance(x, ast.Name) and x.id == "section_letter" for x in ast.walk(s.test))
        return uses and len(s.body) == 1 and self.store_key(s.body[0]) is not None

    def rewrite(self, s):
        def block(b):
            if len(b) == 1 and isinstance(b[0], ast.If):
                return [self.rewrite(b[0])]
            if len(b) == 1 and self.store_key(b[0]) is not None:
                r = ast.Return(value=self.store_key(b[0]))
                ast.copy_location(r, b[0])
                return [r]
            self.err(b[0] if b else s, "routing branch is not a single self.sections[...] = sct_items")
        n = ast.If(test=s.test, body=block(s.body), orelse=block(s.orelse))
        ast.copy_location(n, s)
        return n

    def check_signature(self, fn):
        # the declared parameters are the free names of the fragment, not LASFile.read's
        # parameters; any other free name is an unknown name for the translator
        pass


class HeaderPostTr(Tr):
    """read_header_line's treatment of the matched groups: `d = {"name": "", ...}` (the first
    statement), then `mdict = m.groupdict()` followed by the loop over mdict.items() and `return d`
    (the last statements); translated as a function of mdict.  Everything in between (choosing the
    patterns, matching) is the regex layer and must not mention d."""

    def body_of(self, fn):
        body = [s for s in fn.body if not (isinstance(s, ast.Expr) and isinstance(s.value, ast.Constant))]
        if len(body) < 4:
            self.err(fn, "unexpected shape of read_header_line")
        init, get, loop, ret = body[0], body[-3], body[-2], body[-1]

        def is_assign(s, name):
            return isinstance(s, ast.Assign) and len(s.targets) == 1 and isinstance(s.targets[0], ast.Name) and s.targets[0].id == name
        if not (is_assign(init, "d") and isinstance(init.value, ast.Dict)):
            self.err(init, "the first statement is not d = {...}")
        if not (is_assign(get, "mdict") and same_ast(get.value, "m.groupdict()")):
            self.err(get, "expected mdict = m.groupdict() before the loop")
        if not (isinstance(loop, ast.For) and same_ast(loop.iter, "mdict.items()")):
            self.err(loop, "expected the loop over mdict.items()")
        if not (isinstance(ret, ast.Return) and same_ast(ret.value, "d")):
            self.err(ret, "expected return d")
        for s in body[1:-3]:
            for x in ast.walk(s):
                if isinstance(x, ast.Name) and x.id in ("d", "mdict"):
                    self.err(x, "%s is used between its initialisation and the loop" % x.id)
        return [init, loop, ret]

    def check_signature(self, fn):
        pass        # the declared parameter is the fragment's free name mdict


class ParserInitTr(Tr):
    """SectionParser.__init__ as the function (title, version) -> (func, section_name2, default_order,
    orders): every self.<attr> is read and written as a local variable attr_<attr> (self is not passed
    to anything), `self.func = self.<method>` stores the method's name, and the attributes the spec
    lists as `maybe_unset` are None where a path never assigns them."""

    def body_of(self, fn):
        tr = self
        tags = self.spec["method_tags"]

        class Rw(ast.NodeTransformer):
            def visit_Attribute(self, node):
                self.generic_visit(node)
                if isinstance(node.value, ast.Name) and node.value.id == "self":
                    if node.attr in tags:
                        if not isinstance(node.ctx, ast.Load):
                            tr.err(node, "assignment to the method self.%s" % node.attr)
                        return ast.copy_location(ast.Constant(value=node.attr), node)
                    return ast.copy_location(ast.Name(id="attr_" + node.attr, ctx=node.ctx), node)
                return node
        for x in ast.walk(fn):
            if isinstance(x, ast.Name) and (x.id.startswith("attr_") or (x.id == "self" and not self.is_attr_base(x, fn))):
                self.err(x, "self is used other than as self.<attribute>")
            if isinstance(x, ast.Return):
                self.err(x, "return in __init__")
        body = [Rw().visit(s) for s in fn.body]
        ret = ast.parse("return (%s)" % ", ".join("attr_" + a for a in self.spec["result_attrs"])).body[0]
        for x in ast.walk(ret):
            x.lineno = fn.body[-1].end_lineno
        out = body + [ret]
        for s in out:
            ast.fix_missing_locations(s)
        return out

    @staticmethod
    def is_attr_base(name, fn):
        return any(isinstance(p, ast.Attribute) and p.value is name for p in ast.walk(fn))


def rewrite_self(tr, stmts, tags=()):
    """self.<attr> read and written as the local variable attr_<attr> (self must not be used in any
    other way); self.<m> for m in tags becomes the constant m"""
    class Rw(ast.NodeTransformer):
        def visit_Attribute(self, node):
            self.generic_visit(node)
            if isinstance(node.value, ast.Name) and node.value.id == "self":
                if node.attr in tags:
                    if not isinstance(node.ctx, ast.Load):
                        tr.err(node, "assignment to the method self.%s" % node.attr)
                    return ast.copy_location(ast.Constant(value=node.attr), node)
                return ast.copy_location(ast.Name(id="attr_" + node.attr, ctx=node.ctx), node)
            return node
    out = []
    for st in stmts:
        for x in ast.walk(st):
            if isinstance(x, ast.Name) and x.id.startswith("attr_"):
                tr.err(x, "a name starting with attr_")
        st = Rw().visit(st)
        for x in ast.walk(st):
            if isinstance(x, ast.Name) and x.id == "self":
                tr.err(x, "self is used other than as self.<attribute>")
        ast.fix_missing_locations(st)
        out.append(st)
    return out


class BlockTr(Tr):
    """A block of a big method as a function of its free variables: the statements from the (unique)
    assignment to the spec's `anchor` variable to the end of the statement list that holds it, with
    self.<attr> as the local attr_<attr>, followed by `return <spec result>`.  No statement of the
    block may return, break or continue out of it."""

    def body_of(self, fn):
        found = []
        for node in ast.walk(fn):
            for field in ("body", "orelse", "finalbody"):
                block = getattr(node, field, None)
                if not isinstance(block, list):
                    continue
                for i, st in enumerate(block):
                    if isinstance(st, ast.Assign) and len(st.targets) == 1 and isinstance(st.targets[0], ast.Name) \
                            and st.targets[0].id == self.spec.get("anchor") \
                            and ("anchor_value" not in self.spec or same_ast(st.value, self.spec["anchor_value"])):
                        found.append(block[i:])
                    if "anchor_if" in self.spec and isinstance(st, ast.If) and same_ast(st.test, self.spec["anchor_if"]):
                        found.append(block[i:])
        if len(found) != 1:
            self.err(fn, "expected exactly one anchor statement (%s), found %d" % (
                self.spec.get("anchor") or self.spec.get("anchor_if"), len(found)))
        frag = found[0]
        if "before" in self.spec:
            # ... together with the `before` statements in front of the anchor
            host = [b for node in ast.walk(fn) for field in ("body", "orelse", "finalbody")
                    for b in [getattr(node, field, None)] if isinstance(b, list) and frag[0] in b][0]
            i = host.index(frag[0])
            if i < self.spec["before"]:
                self.err(fn, "fewer than %d statements before the anchor" % self.spec["before"])
            frag = host[i - self.spec["before"]:]
        if "length" in self.spec:
            frag = frag[:self.spec["length"]]       # ... or only the first statements of it
        if "until" in self.spec:
            # ... up to (not including) the first statement that assigns the `until` variable
            cut = [i for i, st in enumerate(frag) if self.spec["until"] in self.assigned([st], []) and i > 0]
            if not cut:
                self.err(fn, "no assignment to %s after %s" % (self.spec["until"], self.spec["anchor"]))
            frag = frag[:cut[0]]
        frag = [st for st in frag if not (isinstance(st, ast.FunctionDef) and st.name in self.spec.get("local_calls", ()))]
        for st in frag:
            for x in ast.walk(st):
                if isinstance(x, (ast.Return, ast.Yield, ast.YieldFrom, ast.Await)):
                    self.err(x, "%s inside the block" % type(x).__name__)
        ret = ast.parse("return " + self.spec["result"]).body[0]
        for x in ast.walk(ret):
            x.lineno = frag[-1].end_lineno
        return rewrite_self(self, list(frag)) + [ret]

    def check_signature(self, fn):
        pass        # the declared parameters are the block's free variables


class MutatorTr(Tr):
    """A method of SectionItems (a list subclass) that changes the list, as a function from the item list to
    the item list: `self` is the local variable holding the list; super(SectionItems, self).append / insert /
    __setitem__ / __delitem__ are the list operations; a call of another translated mutator method replaces
    self by its result; `return` returns self.  self[i] with an int i is list indexing (the mnemonic loop of
    SectionItems.__getitem__ never matches an int)."""
    LIST_OPS = {"append": None, "insert": "__list_insert__", "__setitem__": "__list_set__", "__delitem__": "__list_del__"}

    def body_of(self, fn):
        tr = self
        cls = self.spec["cls"]

        def super_call(c):
            return isinstance(c, ast.Call) and isinstance(c.func, ast.Attribute) and same_ast(c.func.value, "super(%s, self)" % cls) \
                and c.func.attr in tr.LIST_OPS and not c.keywords

        class Rw(ast.NodeTransformer):
            def visit_Expr(self, node):
                c = node.value
                if super_call(c):
                    if c.func.attr == "append":
                        new = ast.parse("self = self + [x]").body[0]
                        new.value.right.elts = [c.args[0]]
                    else:
                        new = ast.parse("self = %s(self)" % tr.LIST_OPS[c.func.attr]).body[0]
                        new.value.args = [new.value.args[0]] + list(c.args)
                    return ast.copy_location(new, node)
                if isinstance(c, ast.Call) and isinstance(c.func, ast.Attribute) and isinstance(c.func.value, ast.Name) \
                        and c.func.value.id == "self" and c.func.attr in tr.spec.get("self_methods", {}) \
                        and REGISTRY.get(tr.spec["self_methods"][c.func.attr], {}).get("mutator"):
                    new = ast.parse("self = x").body[0]
                    new.value = c
                    return ast.copy_location(new, node)
                return node

            def visit_Return(self, node):
                if node.value is not None:
                    tr.err(node, "a mutator that returns a value")
                return ast.copy_location(ast.parse("return self").body[0], node)
        body = [Rw().visit(st) for st in fn.body]
        for st in body:
            for x in ast.walk(st):
                if isinstance(x, ast.Call) and isinstance(x.func, ast.Name) and x.func.id == "super":
                    tr.err(x, "unsupported use of super()")
        ret = ast.parse("return self").body[0]
        for x in ast.walk(ret):
            x.lineno = fn.body[-1].end_lineno
        out = body + [ret]
        for st in out:
            ast.fix_missing_locations(st)
        return out


class NestedDefTr(Tr):
    """A function defined inside a big function, as a function of its own parameters and of the variables
    of the enclosing function it reads (the spec's `free`, which it must not assign).  Parameter defaults
    must be the source texts the spec declares; they are not translated (the pin theorems and the translated
    call sites supply every argument)."""

    def body_of(self, fn):
        defs = [x for x in ast.walk(fn) if isinstance(x, ast.FunctionDef) and x is not fn and x.name == self.spec["nested_name"]]
        if len(defs) != 1:
            self.err(fn, "expected exactly one nested def %s, found %d" % (self.spec["nested_name"], len(defs)))
        d = defs[0]
        a = d.args
        if a.vararg or a.kwarg or a.kwonlyargs or a.posonlyargs or d.decorator_list:
            self.err(d, "unsupported parameter kinds")
        if len(a.args) != self.spec["n_own"]:
            self.err(d, "%s has %d parameters, expected %d" % (d.name, len(a.args), self.spec["n_own"]))
        own = [p for p, _ in self.spec["params"][:len(a.args)]]
        for dflt in a.defaults:
            for x in ast.walk(dflt):
                if isinstance(x, ast.Name):
                    for y in ast.walk(fn):
                        if isinstance(y, ast.Name) and isinstance(y.ctx, ast.Store) and y.id == x.id and y.lineno >= d.lineno:
                            self.err(y, "%s is a parameter default of %s and is assigned after the def" % (x.id, d.name))
        if [x.arg for x in a.args] != own:
            self.err(d, "parameters are %s, expected %s" % ([x.arg for x in a.args], own))
        want = self.spec.get("def_defaults", {})
        got = dict(zip([x.arg for x in a.args][len(a.args) - len(a.defaults):], a.defaults))
        if set(got) != set(want) or any(not same_ast(got[k], want[k]) for k in got):
            self.err(d, "parameter defaults differ from the declared %s" % want)
        free = [p for p, _ in self.spec["params"][len(a.args):]]
        local = set(self.assigned(d.body, []))
        for nm in free:
            if nm in local and not nm.startswith("attr_"):
                self.err(d, "%s assigns the enclosing variable %s" % (d.name, nm))
        is_gen = any(isinstance(x, (ast.Yield, ast.YieldFrom)) for x in ast.walk(d))
        if is_gen != ("yields" in self.spec):
            self.err(d, "%s is %sa generator" % (d.name, "" if is_gen else "not "))
        if is_gen:
            # a generator, presented as the list of the values it yields when it is run to its end
            out = self.spec["yields"][0]
            for x in ast.walk(d):
                if isinstance(x, (ast.Return, ast.YieldFrom)) or (isinstance(x, ast.Name) and x.id == out) \
                        or (isinstance(x, ast.Yield) and (x.value is None or not any(
                            isinstance(st, ast.Expr) and st.value is x for st in ast.walk(d)))):
                    self.err(x, "unsupported in a generator: return / yield from / a yield that is not a statement")
            head = ast.parse("%s = []" % out).body[0]
            tail = ast.parse("return %s" % out).body[0]
            for x in ast.walk(head):
                x.lineno = d.body[0].lineno
            for x in ast.walk(tail):
                x.lineno = d.body[-1].end_lineno
            return [head] + list(d.body) + [tail]
        return d.body

    def check_signature(self, fn):
        pass


SPECS = [
    dict(py="configure_metadata_patterns", file="reader.py", cls=None, coq="py_configure_metadata_patterns",
         params=[("line", STR), ("section_name", STR)], ret=PATS, mode="patterns"),
    dict(py="determine_section_type", file="reader.py", cls=None, coq="py_determine_section_type",
         params=[("section_title", STR)], ret=STR),
    dict(py="strip_brackets", file="reader.py", cls="SectionParser", coq="py_strip_brackets",
         params=[("self", None), ("x", STR)], ret=STR, rec_fuel="S (List.length v_x)",
         # (the recursive form of lasio b7a2e2d and the iterative form that replaces it: each round drops two characters)
         while_fuel={"len(x) >= 2 and (x[0] == '[' and x[-1] == ']' or (x[0] == '(' and x[-1] == ')'))": "S (List.length v_x)"}),
    dict(py="useful_mnemonic", file="las_items.py", cls="HeaderItem", decorator="property", coq="py_useful_mnemonic",
         params=[("self", None)], self_attrs={"original_mnemonic": STR}, ret=STR),
    dict(py="mnemonic_compare", file="las_items.py", cls="SectionItems", coq="py_mnemonic_compare",
         params=[("self", None), ("one", STR), ("two", STR)], self_attrs={"mnemonic_transforms": BOOL}, ret=BOOL),
    dict(py="standardize_value", file="writer.py", cls=None, coq="py_standardize_value",
         params=[("value", DYN), ("unit", STR)], ret=DYN),
    dict(py="read", file="las.py", cls="LASFile", coq="py_route_key", translator=None,
         params=[("section_title", STR), ("version_is_3", BOOL)],
         const_exprs={"provisional_version == 3.0": ("v_version_is_3", BOOL)},
         opaque_tests={"provisional_version == 3.0 and las3_section": "is_las3_section"}, ret=STR),
]
SPECS[-1]["translator"] = RouteTr


def section_block(coq, table_name, lens, var, length):
    """one header section of writer.write: the title line, the order function, (the value normalisation loop,) the
    column widths and the loop that formats the items - `length` statements starting one before the assignment
    order_func = get_section_order_function(<table_name>, version)"""
    return dict(py="write", file="writer.py", cls=None, coq=coq, translator=BlockTr, anchor="order_func",
                anchor_value='get_section_order_function("%s", version)' % table_name, before=1, length=length,
                result="(%s, lines)" % var, use_lambdas=True, elem_lists={x: var for x in lens},
                params=[(var, LIST(ITEM)), ("version", VERSION), ("header_width", INT), ("lines", LIST(STR))],
                ret=TUPLE(LIST(ITEM), LIST(STR)))

NEW_ITEM = """(* HeaderItem(mnemonic, unit, value, descr) / CurveItem(...): what __init__ stores (the session
   mnemonic starts as the translated useful_mnemonic of the original one) *)
Definition pyo_new_item {V : Type} (m u : list N) (v : V) (d : list N) : py_item V :=
  mk_py_item (py_useful_mnemonic m) m u v d."""

NUM_BINDERS = [("{F : Type} (nops : num_ops V F)", "nops")]
NUM_ORACLES = {
    "np.int64": dict(args=[STR], ret=DYN, code="np_int64 nops", raises=True),
    "np.float64": dict(args=[STR], ret=FLOATV, code="np_float64 nops", raises=True),
    "np.isfinite": dict(args=[FLOATV], ret=BOOL, code="np_isfinite nops", raises=False),
}

SPECS += [
    dict(raw=NEW_ITEM),
    dict(py="__getitem__", file="las_items.py", cls="HeaderItem", coq="py_item_getitem",
         params=[("self", ITEM), ("key", STR)], ret=DYN),
    dict(py="get_section_order_function", file="writer.py", cls=None, coq="py_get_section_order_function",
         params=[("section", STR), ("version", VERSION), ("order_definitions", OTABLE)],
         defaults={"order_definitions": "defaults.ORDER_DEFINITIONS"}, default_codes={"order_definitions": "order_definitions"},
         locals={"orders": DICT(STR, STR)},
         returns_lambda=[("mnemonic", STR)], ret=STR),
    dict(py="get_formatter_function", file="writer.py", cls=None, coq="py_get_formatter_function",
         params=[("order", STR), ("left_width", OPT(INT)), ("middle_width", OPT(INT))],
         nested={"left_func": ([("item", ITEM)], STR), "middle_func": ([("unit", STR), ("right_hand_item", STR)], STR)},
         returns_lambda=[("item", ITEM)], ret=STR),
    dict(py="read_header_line", file="reader.py", cls=None, coq="py_header_line_fields", translator=HeaderPostTr,
         params=[("mdict", DICT(STR, STR))], locals={"d": DICT(STR, STR)}, ret=DICT(STR, STR)),
    dict(py="read_header_line", file="reader.py", cls=None, coq="py_read_header_line",
         params=[("line", STR), ("pattern", OPT(PAT)), ("section_name", STR)],
         locals={"d": DICT(STR, STR), "patterns": PATS, "m": MATCHOBJ}, ret=DICT(STR, STR)),
    dict(py="num", file="reader.py", cls="SectionParser", coq="py_num",
         params=[("self", None), ("x", STR), ("default", OPT(STR))], ret=DYN,
         extra_binders=NUM_BINDERS, oracles=NUM_ORACLES, float_to_dyn="num_of_float nops",
         const_exprs={'defaults.READ_SUBS["comma-decimal-mark"][0]': ("(rx_sub_comma, tpl_sub_comma)", TUPLE(REGEX, TPL))},
         module_regexes={"NUMERIC_LITERAL_REGEXP": "rx_numeric_literal"}),
    dict(py="__init__", file="reader.py", cls="SectionParser", coq="py_parser_init", translator=ParserInitTr,
         params=[("self", None), ("title", STR), ("version", VERSION)], defaults={"version": "1.2"},
         method_tags=("curves", "params", "metadata"), result_attrs=("func", "section_name2", "default_order", "orders"),
         maybe_unset=("attr_default_order", "attr_orders"), locals={"attr_orders": DICT(STR, STR)},
         const_exprs={"defaults.ORDER_DEFINITIONS": ("order_definitions", OTABLE)},
         ret=TUPLE(STR, STR, OPT(STR), OPT(DICT(STR, STR)))),
    dict(py="read", file="las.py", cls="LASFile", coq="py_reader_n_columns", translator=BlockTr,
         anchor="reader_n_columns", anchor_value="n_columns", length=2, result="reader_n_columns",
         params=[("n_columns", INT), ("attr_curves", LIST(CURVE)), ("wrap_in_version", BOOL), ("wrap_is_yes", BOOL)],
         ret=INT, extra_binders=[("{C : Type}", "")],
         const_exprs={'"WRAP" in attr_version': ("v_wrap_in_version", BOOL),
                      'attr_version.WRAP.value == "YES"': ("v_wrap_is_yes", BOOL)}),
    dict(py="read", file="las.py", cls="LASFile", coq="py_bind_columns", translator=BlockTr,
         anchor="data_assigned_to_curves", result="attr_curves",
         params=[("attr_curves", LIST(CURVE)), ("curves_data_gen", LIST(ARR)), ("version_NULL", BOOL), ("provisional_null", DYN)],
         ret=LIST(CURVE), extra_binders=[("{A C : Type} (rops : read_ops V A C)", "rops")],
         append_ops={"attr_curves": "sec_append rops"}, attr_setters={(CURVE, "data"): ("c_set_data rops", ARR)},
         stmt_rewrites={"curve_arr[curve_arr == provisional_null] = np.nan":
                        "curve_arr = arr_null_to_nan(provisional_null, curve_arr)"},
         oracles={"arr_null_to_nan": dict(args=[DYN, ARR], ret=ARR, code="arr_null_to_nan rops", raises=False)},
         const_exprs={"curve_arr.dtype == float": ("arr_is_float rops v_curve_arr", BOOL),
                      "len(curve_arr)": ("arr_len rops v_curve_arr", INT),
                      'CurveItem(mnemonic="", data=curve_arr)': ("c_new rops v_curve_arr", CURVE),
                      "np.empty(curve_length) * np.nan": ("arr_nan rops v_curve_length", ARR)}),
    dict(py="curves", file="reader.py", cls="SectionParser", coq="py_parser_curves",
         params=[("self", None)], kwarg=("keys", KEYS), ret=ITEM, constructors=("CurveItem",),
         self_methods={"strip_brackets": "SectionParser.strip_brackets"}),
    dict(py="params", file="reader.py", cls="SectionParser", coq="py_parser_params",
         params=[("self", None)], kwarg=("keys", KEYS), ret=ITEM, constructors=("HeaderItem",), extra_binders=NUM_BINDERS,
         self_methods={"strip_brackets": "SectionParser.strip_brackets", "num": "SectionParser.num"}),
    dict(py="metadata", file="reader.py", cls="SectionParser", coq="py_parser_metadata",
         params=[("self", None)], kwarg=("keys", KEYS), ret=ITEM, constructors=("HeaderItem",), extra_binders=NUM_BINDERS,
         self_attrs={"orders": DICT(STR, STR), "default_order": STR},
         self_methods={"strip_brackets": "SectionParser.strip_brackets", "num": "SectionParser.num"}),
    dict(py="__contains__", file="las_items.py", cls="SectionItems", coq="py_section_contains",
         params=[("self", LIST(ITEM)), ("testitem", STR)], ret=BOOL, self_attrs={"mnemonic_transforms": BOOL},
         self_methods={"mnemonic_compare": "SectionItems.mnemonic_compare"}),
    dict(py="__getitem__", file="las_items.py", cls="SectionItems", coq="py_section_getitem",
         params=[("self", LIST(ITEM)), ("key", STR)], ret=ITEM, self_attrs={"mnemonic_transforms": BOOL},
         self_methods={"mnemonic_compare": "SectionItems.mnemonic_compare"}),
    dict(py="write", file="writer.py", cls=None, coq="py_len_numeric_field", translator=BlockTr,
         anchor_if="len_numeric_field is None", length=1, result="len_numeric_field",
         params=[("len_numeric_field", OPT(INT)), ("fmt", STR)], ret=INT,
         extra_binders=[("{Smp : Type} (wops : write_ops Smp)", "wops")],
         const_exprs={"fmt % np.pi": ("w_fmt_pi wops v_fmt", STR)},
         while_fuel={"len(test_fmt) > len_numeric_field - 1": "S (Z.to_nat (pyo_len v_test_fmt))"}),
    dict(py="write", file="writer.py", cls=None, coq="py_get_column_fmt", translator=NestedDefTr, nested_name="get_column_fmt",
         n_own=1, params=[("j", INT), ("column_fmt", DICT(INT, STR)), ("fmt", STR)], ret=STR),
    dict(py="write", file="writer.py", cls=None, coq="py_get_left_spacing", translator=NestedDefTr, nested_name="get_left_spacing",
         n_own=1, params=[("j", INT), ("lhs_spacer", STR), ("spacer", STR)], ret=STR),
    dict(py="write", file="writer.py", cls=None, coq="py_format_data_section_line", translator=NestedDefTr,
         nested_name="format_data_section_line",
         n_own=4, params=[("n", SAMPLE), ("fmt", STR), ("l", INT), ("spacing_chars", STR), ("null_text", OPT(STR))],
         def_defaults={"l": "len_numeric_field", "spacing_chars": '" "'}, ret=STR,
         extra_binders=[("{Smp : Type} (wops : write_ops Smp)", "wops")],
         oracles={"np.isnan": dict(args=[SAMPLE], ret=BOOL, code="s_isnan wops", raises=True, exc="TypeError")},
         const_exprs={"fmt % n": ("s_fmt wops v_fmt v_n", STR, "TypeError"),
                      "str(n)": ("s_str wops v_n", STR),
                      'str(las.well["NULL"].value)': ("v_null_text", STR, "KeyError")}),
    dict(py="write", file="writer.py", cls=None, coq="py_write_data_rows", translator=BlockTr, anchor="twrapper", result="out_",
         params=[("nrows", INT), ("ncols", INT), ("columns", LIST(LIST(SAMPLE))), ("wrap", BOOL), ("data_width", INT),
                 ("lines", LIST(STR)), ("line_counter", INT), ("out_", STR), ("column_fmt", DICT(INT, STR)), ("fmt", STR),
                 ("lhs_spacer", STR), ("spacer", STR), ("len_numeric_field", INT), ("null_text", OPT(STR))],
         ret=STR, extra_binders=[("{Smp : Type} (wops : write_ops Smp)", "wops")], write_sink=("file_object", "out_"),
         const_exprs={"textwrap.TextWrapper(width=data_width, break_long_words=False, break_on_hyphens=False)": ("v_data_width", INT),
                      "twrapper.wrap(depth_slice)": ("w_wrap wops v_twrapper v_depth_slice", LIST(STR))},
         local_calls=("get_column_fmt", "get_left_spacing", "format_data_section_line")),
    dict(py="read", file="las.py", cls="LASFile", coq="py_update_steering", translator=BlockTr,
         anchor_if='section_title[1].upper() == "V"', length=2,
         result="(provisional_version, provisional_wrapped, provisional_null, provisional_delimiter)",
         params=[("section_title", STR), ("sct_items", SECTION), ("provisional_version", DYN), ("provisional_wrapped", DYN),
                 ("provisional_null", DYN), ("provisional_delimiter", DYN)],
         ret=TUPLE(DYN, DYN, DYN, DYN)),
    dict(py="assign_duplicate_suffixes", file="las_items.py", cls="SectionItems", coq="py_assign_duplicate_suffixes",
         translator=MutatorTr, mutator=True, params=[("self", LIST(ITEM)), ("test_mnemonic", STR)], ret=LIST(ITEM),
         self_attrs={"mnemonic_transforms": BOOL}, self_methods={"mnemonic_compare": "SectionItems.mnemonic_compare"},
         locals={"locations": LIST(INT)}, extra_binders=[("(int_str : Z -> list N)", "int_str")], int_str="int_str"),
    dict(py="append", file="las_items.py", cls="SectionItems", coq="py_section_append",
         translator=MutatorTr, mutator=True, params=[("self", LIST(ITEM)), ("newitem", ITEM)], ret=LIST(ITEM),
         self_attrs={"mnemonic_transforms": BOOL}, extra_binders=[("(int_str : Z -> list N)", "int_str")],
         self_methods={"assign_duplicate_suffixes": "SectionItems.assign_duplicate_suffixes"}),
    dict(py="insert", file="las_items.py", cls="SectionItems", coq="py_section_insert",
         translator=MutatorTr, mutator=True, params=[("self", LIST(ITEM)), ("i", INT), ("newitem", ITEM)], ret=LIST(ITEM),
         self_attrs={"mnemonic_transforms": BOOL}, extra_binders=[("(int_str : Z -> list N)", "int_str")],
         self_methods={"assign_duplicate_suffixes": "SectionItems.assign_duplicate_suffixes"}),
    dict(py="set_item", file="las_items.py", cls="SectionItems", coq="py_section_set_item",
         translator=MutatorTr, mutator=True, params=[("self", LIST(ITEM)), ("key", STR), ("newitem", ITEM)], ret=LIST(ITEM),
         self_attrs={"mnemonic_transforms": BOOL}, extra_binders=[("(int_str : Z -> list N)", "int_str")],
         self_methods={"assign_duplicate_suffixes": "SectionItems.assign_duplicate_suffixes", "append": "SectionItems.append",
                       "mnemonic_compare": "SectionItems.mnemonic_compare"}),
    dict(py="__delitem__", file="las_items.py", cls="SectionItems", coq="py_section_delitem",
         translator=MutatorTr, mutator=True, params=[("self", LIST(ITEM)), ("key", STR)], ret=LIST(ITEM),
         self_attrs={"mnemonic_transforms": BOOL}, self_methods={"mnemonic_compare": "SectionItems.mnemonic_compare"}),
    dict(py="_json_value", file="las.py", cls=None, coq="py_json_value",
         params=[("x", DYN)], ret=DYN, extra_binders=[("(jops : json_ops V)", "jops")],
         const_exprs={"isinstance(x, np.integer)": ("j_is_np_integer jops v_x", BOOL),
                      "isinstance(x, (float, np.floating))": ("j_is_float jops v_x", BOOL),
                      "np.isfinite(x)": ("j_is_finite jops v_x", BOOL),
                      "int(x)": ("j_int jops v_x", DYN), "float(x)": ("j_float jops v_x", DYN),
                      "None": ("j_none jops", DYN)}),
    dict(py="open_with_codecs", file="reader.py", cls=None, coq="py_open_with_codecs",
         params=[("filename", STR), ("encoding", OPT(STR)), ("encoding_errors", STR), ("autodetect_encoding", AUTOV),
                 ("autodetect_encoding_chars", OPT(INT))],
         defaults={"encoding_errors": '"replace"', "autodetect_encoding": "True", "autodetect_encoding_chars": "4000"},
         ret=TUPLE(HANDLE, OPT(STR)), locals={"nbytes": OPT(INT)},
         extra_binders=[("{H : Type} (wops : world_ops H)", "wops")],
         stmt_rewrites={'with open(filename, mode="rb") as test:\n    raw = test.read(nbytes_test)':
                        "raw = read_bytes(filename, nbytes_test)",
                        'with open(filename, mode="rb") as test:\n    if nbytes is None:\n        raw = test.read()\n'
                        '    else:\n        raw = test.read(nbytes)':
                        "raw = read_bytes_opt(filename, nbytes)"},
         oracles={"os.path.getsize": dict(args=[STR], ret=INT, code="w_getsize wops", raises=True, exc="OSError"),
                  "read_bytes": dict(args=[STR, INT], ret=STR, code="w_read wops", raises=True, exc="OSError"),
                  "read_bytes_opt": dict(args=[STR, OPT(INT)], ret=STR, code="w_read_opt wops", raises=True, exc="OSError"),
                  "get_encoding": dict(args=[AUTOV, STR], ret=OPT(STR), code="w_get_encoding wops", raises=True, exc="?"),
                  "adhoc_test_encoding": dict(args=[STR], ret=OPT(STR), code="w_adhoc wops", raises=True, exc="OSError")},
         const_exprs={"codecs.BOM_UTF8": ("[239; 187; 191]", STR),
                      'io.open(filename, mode="r", encoding=encoding, errors=encoding_errors)':
                      ("w_io_open wops v_filename v_encoding v_encoding_errors", HANDLE, "OSError")}),
    dict(py="define_line_splitter", file="reader.py", cls=None, coq="py_define_line_splitter",
         params=[("provisional_delimiter", STR)], returns_function=[("line", STR)], ret=LIST(JOINED),
         nested={"split_on_whitespace": ([("line", STR)], LIST(JOINED)), "split_on_tabs": ([("line", STR)], LIST(JOINED)),
                 "split_on_comma": ([("line", STR)], LIST(JOINED))},
         locals={"splitters": DICT(STR, FUNC([STR], LIST(JOINED)))}),
    dict(py="inspect_data_section", file="reader.py", cls=None, coq="py_inspect_data_section",
         params=[("file_obj", FILE), ("line_nos", TUPLE(INT, INT)), ("regexp_subs", LIST(SUBPAIR)), ("ignore_data_comments", STR),
                 ("line_splitter", OPT(FUNC([STR], LIST(JOINED))))],
         defaults={"ignore_data_comments": '"#"'},
         locals={"item_counts": LIST(INT), "hyphen_exists": LIST(INT), "hyphen_subs": LIST(SUBPAIR)},
         module_regexes={"sow_regex": "rx_sow"},
         module_consts_decl={"defaults.HYPHEN_SUBS": LIST(STR), "defaults.READ_SUBS": DICT(STR, LIST(SUBPAIR))},
         ret=TUPLE(INT, LIST(SUBPAIR))),
    dict(py="__call__", file="reader.py", cls="SectionParser", coq="py_parser_call", parser_call=True,
         method_tags=("curves", "params", "metadata")),
    dict(py="parse_header_items_section", file="reader.py", cls=None, coq="py_parse_header_items_section",
         params=[("file_obj", FILE), ("line_nos", TUPLE(INT, INT)), ("version", VERSION), ("ignore_header_errors", BOOL),
                 ("mnemonic_case", STR), ("ignore_comments", LIST(STR))],
         defaults={"ignore_header_errors": "False", "mnemonic_case": '"preserve"', "ignore_comments": '("#",)'},
         classes={"SectionParser": "parser", "SectionItems": "section"}, aliases={"read_line": "read_header_line"},
         message_names=("message",), loop_raise=True, ret=SECT,
         extra_binders=NUM_BINDERS + [("{S : Type} (sops : sect_ops S (py_item V))", "sops")]),
    dict(py="read_data_section_iterative_normal_engine", file="reader.py", cls=None, coq="py_engine_items",
         translator=NestedDefTr, nested_name="items", n_own=3, yields=("out_", SUM(FLOATV, STR)),
         params=[("f", FILE), ("start_line_no", INT), ("end_line_no", INT), ("ignore_data_comments", STR),
                 ("regexp_subs", LIST(SUBPAIR)), ("line_splitter", FUNC([STR], LIST(JOINED)))],
         locals={"out_": LIST(SUM(FLOATV, STR))}, ret=LIST(SUM(FLOATV, STR)),
         extra_binders=[("{V F : Type} (nops : num_ops V F)", "nops")],
         oracles={"np.float64": dict(args=[STR], ret=FLOATV, code="np_float64 nops", raises=True, exc="ValueError")}),
    dict(py="read_data_section_iterative_normal_engine", file="reader.py", cls=None, coq="py_engine_array",
         translator=BlockTr, anchor="title", until="value", result="array", local_calls=("items",),
         params=[("file_obj", FILE), ("line_nos", TUPLE(INT, INT)), ("regexp_subs", LIST(SUBPAIR)), ("ignore_data_comments", STR),
                 ("line_splitter", FUNC([STR], LIST(JOINED)))],
         ret=ARR, extra_binders=[("{V F : Type} (nops : num_ops V F)", "nops"), ("{A : Type} (np_array : list (F + list N) -> A)", "np_array")],
         oracles={"np.array": dict(args=[LIST(SUM(FLOATV, STR))], ret=ARR, code="np_array", raises=False)}),
    dict(consts_only=True, file="reader.py", module_consts_decl={"defaults.READ_POLICIES": DICT(STR, LIST(STR))}),
    dict(py="read", file="las.py", cls="LASFile", coq="py_inspect_twice", translator=BlockTr,
         anchor_if="recommended_regexp_subs != regexp_subs and accept_regexp_sub_recommendations", before=2, length=3,
         result="(n_columns, regexp_subs)", modules={"reader": "reader.py"},
         params=[("file_at_k", FILE), ("first_line", INT), ("last_line", INT), ("regexp_subs", LIST(SUBPAIR)),
                 ("ignore_data_comments", STR), ("line_splitter", FUNC([STR], LIST(JOINED))),
                 ("accept_regexp_sub_recommendations", BOOL)],
         stmt_rewrites={"file_obj.seek(k)": "file_obj = file_at_k"}, ret=TUPLE(INT, LIST(SUBPAIR))),
    dict(py="get_section_widths", file="writer.py", cls=None, coq="py_get_section_widths",
         params=[("section_name", None), ("items", LIST(ITEM)), ("version", None), ("order_func", FUNC([STR], STR))],
         locals={"section_widths": DICT(STR, OPT(INT)), "middle_widths": LIST(INT)}, ret=DICT(STR, OPT(INT))),
    section_block("py_write_version_section", "Version", ("version_section_to_write.values()", "version_section_to_write"), "vs_items", 4),
    section_block("py_write_well_section", "Well", ("las.well.values()", "las.well"), "well_items", 5),
    section_block("py_write_curves_section", "Curves", ("las.curves",), "curve_items", 4),
    section_block("py_write_params_section", "Parameter", ("las.params.values()", "las.params"), "param_items", 5),
]


def binders_of(stmts, name, into_classes=False):
    """the statements of a module / class body (looking into if / try / with / for / while blocks, not into
    functions) that bind `name`"""
    found = []
    for st in stmts:
        if isinstance(st, (ast.FunctionDef, ast.AsyncFunctionDef, ast.ClassDef)):
            if st.name == name:
                found.append(st)
            continue
        if isinstance(st, (ast.Import, ast.ImportFrom)):
            if any((a.asname or a.name.split(".")[0]) == name for a in st.names):
                found.append(st)
            continue
        for x in ast.walk(st):
            if isinstance(x, ast.Name) and isinstance(x.ctx, (ast.Store, ast.Del)) and x.id == name:
                found.append(st)
                break
        for field in ("body", "orelse", "finalbody", "handlers"):
            sub = getattr(st, field, None)
            if isinstance(sub, list):
                for h in sub:
                    found += binders_of(h.body if isinstance(h, ast.ExceptHandler) else [h], name)
    return found


def check_not_rebound(tree, spec, fn):
    """the translated function must be what its name means at run time: no second binding of the name in its
    module / class, no assignment to Class.name or setattr(Class, "name", ..) at module level, no `global name`"""
    name, cls = spec["py"], spec.get("cls")
    scope = tree.body
    if cls:
        scope = [n for n in tree.body if isinstance(n, ast.ClassDef) and n.name == cls][0].body
    others = [b for b in binders_of(scope, name) if b is not fn]
    if spec.get("decorator") == "property":
        others = [b for b in others if not (isinstance(b, ast.FunctionDef) and
                                            [ast.unparse(d) for d in b.decorator_list] == ["%s.setter" % name])]
    if others:
        raise TranslateError("%s is bound again at line %d" % (name, others[0].lineno))
    for x in ast.walk(tree):
        if isinstance(x, (ast.Global, ast.Nonlocal)) and name in x.names and not cls:
            raise TranslateError("`global %s` at line %d" % (name, x.lineno))
        if cls and isinstance(x, ast.Attribute) and isinstance(x.ctx, (ast.Store, ast.Del)) and x.attr == name \
                and isinstance(x.value, ast.Name) and x.value.id == cls:
            raise TranslateError("%s.%s is assigned at line %d" % (cls, name, x.lineno))
        if cls and isinstance(x, ast.Call) and isinstance(x.func, ast.Name) and x.func.id in ("setattr", "delattr") and x.args \
                and isinstance(x.args[0], ast.Name) and x.args[0].id == cls:
            raise TranslateError("setattr(%s, ...) at line %d" % (cls, x.lineno))
    if cls and len([n for n in binders_of(tree.body, cls)]) != 1:
        raise TranslateError("class %s is bound more than once" % cls)


MUTATORS = ("append", "extend", "insert", "pop", "update", "clear", "remove", "sort", "reverse", "setdefault", "popitem",
            "__setitem__", "__delitem__")


def render_literal(node, ty, what):
    """Gallina for a literal of another module's source, by the declared type"""
    def bad(msg):
        raise TranslateError("%s: line %s: %s" % (what, getattr(node, "lineno", "?"), msg))
    if ty == STR:
        if not (isinstance(node, ast.Constant) and isinstance(node.value, str)):
            bad("expected a string constant")
        return cstr(node.value)
    if ty == TPL:
        if not (isinstance(node, ast.Constant) and isinstance(node.value, str)):
            bad("expected a template string constant")
        try:
            return regexes.translate_template(node.value)
        except regexes.TranslateError as e:
            bad("template %r: %s" % (node.value, e))
    if ty == REGEX:
        if not (isinstance(node, ast.Call) and same_ast(node.func, "re.compile") and len(node.args) == 1 and not node.keywords
                and isinstance(node.args[0], ast.Constant) and isinstance(node.args[0].value, str)):
            bad("expected re.compile(<string constant>)")
        try:
            return regexes.translate(node.args[0].value)
        except regexes.TranslateError as e:
            bad("pattern %r: %s" % (node.args[0].value, e))
    if is_type(ty, "list"):
        if not isinstance(node, ast.List):
            bad("expected a list display")
        if not node.elts:
            return "([] : %s)" % coq_type(ty)
        return "[" + "; ".join(render_literal(x, ty[1], what) for x in node.elts) + "]"
    if is_type(ty, "tuple"):
        if not (isinstance(node, ast.Tuple) and len(node.elts) == len(ty) - 1):
            bad("expected a tuple of %d" % (len(ty) - 1))
        return "(" + ", ".join(render_literal(x, t, what) for x, t in zip(node.elts, ty[1:])) + ")"
    if is_type(ty, "dict") and ty[1] == STR:
        if not isinstance(node, ast.Dict):
            bad("expected a dict display")
        keys = []
        for k in node.keys:
            if not (isinstance(k, ast.Constant) and isinstance(k.value, str)) or k.value in keys:
                bad("dict keys must be distinct string constants")
            keys.append(k.value)
        if not keys:
            return "([] : %s)" % coq_type(ty)
        return "[" + ";\n   ".join("(%s, %s)" % (cstr(k), render_literal(v, ty[2], what)) for k, v in zip(keys, node.values)) + "]"
    bad("no rendering for type %s" % (ty,))


def check_module_import(using_tree, mod):
    imps = binders_of(using_tree.body, mod)
    if len(imps) != 1 or not (isinstance(imps[0], ast.ImportFrom) and imps[0].level == 1 and imps[0].module is None
                              and any(a.name == mod and a.asname is None for a in imps[0].names)):
        raise TranslateError("%s is not bound exactly once by `from . import %s`" % (mod, mod))


def module_constant(repo, using_tree, qual, ty):
    """`mod.NAME` used in a translated function of lasio/<using file>: mod is bound once there, by
    `from . import mod`; NAME is bound once at module level of lasio/mod.py, to a literal; nothing in the
    package assigns into it, deletes from it or calls a mutating method on it (aliases are not followed)"""
    mod, name = qual.split(".")
    check_module_import(using_tree, mod)
    path = os.path.join(repo, "lasio", mod + ".py")
    tree = ast.parse(open(path, encoding="utf-8").read())
    bs = binders_of(tree.body, name)
    if len(bs) != 1 or not (bs[0] in tree.body and isinstance(bs[0], ast.Assign) and len(bs[0].targets) == 1
                            and isinstance(bs[0].targets[0], ast.Name)):
        raise TranslateError("%s is not bound exactly once, by a plain module-level assignment" % qual)
    pkg = os.path.join(repo, "lasio")
    for root, _, files in os.walk(pkg):
        for fn in files:
            if not fn.endswith(".py"):
                continue
            t = tree if os.path.join(root, fn) == path else ast.parse(open(os.path.join(root, fn), encoding="utf-8").read())
            inside = os.path.join(root, fn) == path

            def is_const(x):
                if isinstance(x, ast.Attribute) and x.attr == name and isinstance(x.value, (ast.Name, ast.Attribute)):
                    return True              # <anything>.NAME
                return inside and isinstance(x, ast.Name) and x.id == name
            for x in ast.walk(t):
                if isinstance(x, (ast.Subscript, ast.Attribute)) and isinstance(x.ctx, (ast.Store, ast.Del)):
                    y = x
                    while isinstance(y, (ast.Subscript, ast.Attribute)):
                        if is_const(y) and y is not x:
                            raise TranslateError("%s is assigned into at %s:%d" % (qual, fn, x.lineno))
                        if is_const(y) and y is x and isinstance(x, ast.Attribute):
                            raise TranslateError("%s is rebound at %s:%d" % (qual, fn, x.lineno))
                        y = y.value
                if isinstance(x, ast.AugAssign) and is_const(x.target) and not (inside and x in tree.body and False):
                    raise TranslateError("%s is changed in place at %s:%d" % (qual, fn, x.lineno))
                if isinstance(x, ast.Call) and isinstance(x.func, ast.Attribute) and x.func.attr in MUTATORS:
                    y = x.func.value
                    while isinstance(y, (ast.Subscript, ast.Attribute)):
                        if is_const(y):
                            raise TranslateError("%s.%s(...) at %s:%d" % (qual, x.func.attr, fn, x.lineno))
                        y = y.value
                    if is_const(y):
                        raise TranslateError("%s.%s(...) at %s:%d" % (qual, x.func.attr, fn, x.lineno))
                if isinstance(x, (ast.Global, ast.Nonlocal)) and name in x.names:
                    raise TranslateError("`global %s` at %s:%d" % (name, fn, x.lineno))
    return render_literal(bs[0].value, ty, qual)


def parser_call_def(fn, spec):
    """SectionParser.__call__ must be exactly `item = self.func(**keys); return item`: the parser object (the
    attributes __init__ set; self.func holds the NAME of the method __init__ stored) applied to the keys is that
    method of the same object applied to them.  A method's self attribute that __init__ left unset: AttributeError."""
    body = [st for st in fn.body if not (isinstance(st, ast.Expr) and isinstance(st.value, ast.Constant))]
    a = fn.args
    if [x.arg for x in a.args] != ["self"] or a.vararg or a.kwonlyargs or a.posonlyargs or a.defaults or a.kwarg is None \
            or a.kwarg.arg != "keys" or fn.decorator_list:
        raise TranslateError("SectionParser.__call__: unexpected signature")
    want = ast.parse("item = self.func(**keys)\nreturn item").body
    if [ast.dump(x) for x in body] != [ast.dump(x) for x in want]:
        raise TranslateError("SectionParser.__call__ is no longer `item = self.func(**keys); return item`")
    names = ["p_%s" % x for x in PARSER_ATTRS]
    code = "None"
    for tag in reversed(spec["method_tags"]):
        r = REGISTRY.get("SectionParser." + tag)
        if r is None or r["args"][len(r["self_attrs"]):] != [KEYS] or r["ret"] != ITEM:
            raise TranslateError("SectionParser.%s is not translated as a method of **keys" % tag)
        head = r["coq"] + (" ops" if r["ops"] else "")
        for b in r["extra"]:
            if b not in NUM_BINDERS:
                raise TranslateError("SectionParser.%s needs %s" % (tag, b[1]))
            head += " " + b[1]
        pats, conds = [], []
        for attr, t in zip(r["self_attrs"], r["args"]):
            k = PARSER_ATTRS.index(attr)
            if PARSER[1 + k] == OPT(t):
                conds.append((names[k], "a_%s" % attr))
                head += " a_%s" % attr
            elif PARSER[1 + k] == t:
                head += " " + names[k]
            else:
                raise TranslateError("SectionParser.%s reads self.%s with another type" % (tag, attr))
        call = "%s v_keys" % head
        if not r["partial"]:
            call = "Some (%s)" % call
        for nm, a_ in reversed(conds):
            call = "match %s with Some %s => %s | None => None end" % (nm, a_, call)
        code = "if str_eqb p_func %s then %s\n  else %s" % (cstr(tag), call, code)
    REGISTRY["SectionParser.__call__"] = dict(coq=spec["coq"], args=[PARSER, KEYS], ret=ITEM, partial=True, ops=True,
                                               extra=list(NUM_BINDERS), file=None, mutator=False, pnames=["self", "keys"],
                                               none_defaults=[], self_attrs=[])
    return ("Definition %s {V : Type} (ops : dyn_ops V) %s (v_self : %s) (v_keys : py_keys) : option (py_item V) :=\n"
            "  let '(%s) := v_self in\n  %s.") % (spec["coq"], NUM_BINDERS[0][0], coq_type(PARSER), ", ".join(names), code)


def find_function(tree, spec):
    scope = tree.body
    if spec.get("cls"):
        cs = [n for n in tree.body if isinstance(n, ast.ClassDef) and n.name == spec["cls"]]
        if len(cs) != 1:
            raise TranslateError("class %s: found %d definitions" % (spec["cls"], len(cs)))
        scope = cs[0].body
    fs = [n for n in scope if isinstance(n, ast.FunctionDef) and n.name == spec["py"]]
    dec = spec.get("decorator")

    def decs(f):
        return [ast.unparse(d) for d in f.decorator_list]
    fs = [f for f in fs if decs(f) == ([dec] if dec else [])]
    if len(fs) != 1:
        raise TranslateError("%s%s: found %d definitions" % (spec["cls"] + "." if spec.get("cls") else "", spec["py"], len(fs)))
    return fs[0]


def render(repo):
    out = [PRELUDE]
    trees = {}
    consts_done = {}
    REGISTRY.clear()
    for spec in SPECS:
        if "raw" in spec:
            out.append(spec["raw"])
            out.append("")
            continue
        path = os.path.join(repo, "lasio", spec["file"])
        if path not in trees:
            trees[path] = ast.parse(open(path, encoding="utf-8").read())
        if spec.get("consts_only"):
            # module-level constants used by functions that are not translated themselves
            for qual, ty in spec["module_consts_decl"].items():
                cname = "py_const_" + qual.replace(".", "_")
                code = module_constant(repo, trees[path], qual, ty)
                if consts_done.setdefault(cname, ty) != ty:
                    raise TranslateError("%s declared with two types" % qual)
                out.append("(* ---- %s (lasio/%s.py) ---- *)" % (qual, qual.split(".")[0]))
                out.append("Definition %s : %s :=\n  %s.\n" % (cname, coq_type(ty), code))
            continue
        fn = find_function(trees[path], spec)
        check_not_rebound(trees[path], spec, fn)
        if spec.get("parser_call"):
            out.append("(* ---- %s:%s.%s ---- *)" % (spec["file"], spec["cls"], spec["py"]))
            out.append(parser_call_def(fn, spec))
            out.append("")
            continue
        for al, target in spec.get("aliases", {}).items():
            # `al` must be exactly the forwarding wrapper of `target`, bound once
            afn = find_function(trees[path], dict(py=al, cls=None))
            check_not_rebound(trees[path], dict(py=al, cls=None), afn)
            abody = [st for st in afn.body if not (isinstance(st, ast.Expr) and isinstance(st.value, ast.Constant))]
            a = afn.args
            if a.args or a.kwonlyargs or a.posonlyargs or a.vararg is None or a.kwarg is None or afn.decorator_list \
                    or [ast.dump(x) for x in abody] != [ast.dump(x) for x in ast.parse(
                        "return %s(*%s, **%s)" % (target, a.vararg.arg, a.kwarg.arg)).body]:
                raise TranslateError("%s is no longer the forwarding wrapper of %s" % (al, target))
        for mod, modfile in spec.get("modules", {}).items():
            check_module_import(trees[path], mod)
            if modfile != mod + ".py" or mod in Tr(spec).assigned(fn.body, []):
                raise TranslateError("%s: the module name %s" % (spec["py"], mod))
        if "module_consts_decl" in spec:
            spec["module_consts"] = {}
            for qual, ty in spec["module_consts_decl"].items():
                cname = "py_const_" + qual.replace(".", "_")
                code = module_constant(repo, trees[path], qual, ty)
                if cname not in consts_done:
                    consts_done[cname] = ty
                    out.append("(* ---- %s (lasio/%s.py) ---- *)" % (qual, qual.split(".")[0]))
                    out.append("Definition %s : %s :=\n  %s.\n" % (cname, coq_type(ty), code))
                elif consts_done[cname] != ty:
                    raise TranslateError("%s declared with two types" % qual)
                spec["module_consts"][qual] = (cname, ty)
                if qual.split(".")[0] in Tr(spec).assigned(fn.body, []):
                    raise TranslateError("%s: the name %s is assigned in the function" % (spec["py"], qual.split(".")[0]))
        tr = (spec.get("translator") or Tr)(spec)
        out.append("(* ---- %s:%s%s%s ---- *)" % (spec["file"], spec["cls"] + "." if spec.get("cls") else "", spec["py"],
                                                 " / " + spec["coq"] if spec.get("translator") else ""))
        out.append(tr.function(fn))
        out.append("")
    return "\n".join(out)


if __name__ == "__main__":
    sys.stdout.write(render(sys.argv[1] if len(sys.argv) > 1 else "/repo"))
