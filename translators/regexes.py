"""Translate every regular expression lasio's reader uses into a Coq term (Gen/Regexes.v).

The pattern strings are taken from /repo's working tree (ast of reader.py, and the
compiled patterns in defaults.py); each is parsed by CPython's own re._parser and the
op-tree printed as a PyLib.Regex.re term.  Fail-closed: any construct outside the
supported subset, or a missing/renamed pattern variable, raises TranslateError.
"""
import ast
import os
import sys

try:
    import re._parser as sp
    import re._constants as sc
except ImportError:  # pragma: no cover
    import sre_parse as sp
    import sre_constants as sc


class TranslateError(Exception):
    pass


NAMED = {"name": 0, "unit": 1, "value": 2, "descr": 3}


def cls_of_in(items):
    neg = False
    parts = []
    for op, av in items:
        op = str(op)
        if op == "NEGATE":
            neg = True
        elif op == "LITERAL":
            parts.append("CChar %d" % av)
        elif op == "RANGE":
            parts.append("CRange %d %d" % (av[0], av[1]))
        elif op == "CATEGORY":
            cat = str(av)
            m = {
                "CATEGORY_DIGIT": "CDigit",
                "CATEGORY_SPACE": "CSpace",
                "CATEGORY_NOT_DIGIT": "CNot CDigit",
                "CATEGORY_NOT_SPACE": "CNot CSpace",
            }
            if cat not in m:
                raise TranslateError("unsupported category %s" % cat)
            parts.append(m[cat])
        else:
            raise TranslateError("unsupported IN item %s" % op)
    if not parts:
        raise TranslateError("empty class")
    t = parts[-1]
    for p in reversed(parts[:-1]):
        t = "COr (%s) (%s)" % (p, t)
    if neg:
        t = "CNot (%s)" % t
    return t


def single_cls(sub):
    """If the op list is one single-character item, return its class term, else None."""
    if len(sub) != 1:
        return None
    op, av = sub[0]
    op = str(op)
    if op == "LITERAL":
        return "CChar %d" % av
    if op == "NOT_LITERAL":
        return "CNot (CChar %d)" % av
    if op == "ANY":
        return "CAny"
    if op == "IN":
        return cls_of_in(av)
    return None


def alts_of(sub):
    """Expand a look-around body into a list of alternatives, each a list of class terms."""
    res = [[]]
    for op, av in sub:
        ops = str(op)
        c = single_cls([(op, av)])
        if c is not None:
            res = [r + [c] for r in res]
        elif ops == "SUBPATTERN":
            inner = alts_of(av[3])
            res = [r + i for r in res for i in inner]
        elif ops == "BRANCH":
            inner = []
            for b in av[1]:
                inner += alts_of(b)
            res = [r + i for r in res for i in inner]
        else:
            raise TranslateError("unsupported construct in look-around: %s" % ops)
    return res


class Ctx:
    def __init__(self, groupnames):
        self.names = {v: k for k, v in groupnames.items()}  # gid -> name
        self.anon = 0


def tr_seq(sub, ctx):
    terms = [tr_op(op, av, ctx) for op, av in sub]
    if not terms:
        return "Eps"
    t = terms[-1]
    for p in reversed(terms[:-1]):
        t = "Seq (%s) (%s)" % (p, t)
    return t


def tr_op(op, av, ctx):
    ops = str(op)
    c = single_cls([(op, av)])
    if c is not None:
        return "Cls (%s)" % c
    if ops == "SUBPATTERN":
        gid, add, dele, p = av
        if add or dele:
            raise TranslateError("inline flags unsupported")
        body = tr_seq(p, ctx)
        if gid is None:
            return body
        if gid in ctx.names:
            nm = ctx.names[gid]
            if nm not in NAMED:
                raise TranslateError("unknown group name %s" % nm)
            return "Grp %d (%s)" % (NAMED[nm], body)
        return "Grp %d (%s)" % (100 + gid, body)
    if ops in ("MAX_REPEAT", "MIN_REPEAT"):
        lo, hi, sub = av
        inf = hi == sc.MAXREPEAT
        c = single_cls(list(sub))
        if ops == "MAX_REPEAT":
            if lo == 0 and hi == 1:
                return "Opt (%s)" % tr_seq(sub, ctx)
            if lo == 0 and inf and c is not None:
                return "Star (%s)" % c
            if lo == 1 and inf and c is not None:
                return "Plus (%s)" % c
        else:
            if lo == 0 and inf and c is not None:
                return "LStar (%s)" % c
        raise TranslateError("unsupported repeat %s{%s,%s} over %r" % (ops, lo, hi, list(sub)))
    if ops == "BRANCH":
        bs = [tr_seq(b, ctx) for b in av[1]]
        t = bs[-1]
        for p in reversed(bs[:-1]):
            t = "Alt (%s) (%s)" % (p, t)
        return t
    if ops == "ASSERT_NOT":
        direction, sub = av
        alts = alts_of(sub)
        w = {len(a) for a in alts}
        if direction < 0 and len(w) != 1:
            raise TranslateError("variable-width look-behind")
        body = "[" + "; ".join("[" + "; ".join(a) + "]" for a in alts) + "]"
        return ("NotBehind %s" if direction < 0 else "NotAhead %s") % body
    if ops == "AT":
        at = str(av)
        if at == "AT_END":
            return "AtEnd"
        if at == "AT_END_STRING":
            return "AtEndStr"
        raise TranslateError("unsupported anchor %s" % at)
    raise TranslateError("unsupported regex construct %s" % ops)


def translate(pattern, flags=0):
    if flags & ~(32):  # re.UNICODE only
        raise TranslateError("unsupported flags %r" % flags)
    p = sp.parse(pattern)
    ctx = Ctx(dict(p.state.groupdict))
    return tr_seq(list(p), ctx)


def translate_template(t):
    out = []
    i = 0
    lit = []
    while i < len(t):
        ch = t[i]
        if ch == "\\":
            if i + 1 < len(t) and t[i + 1].isdigit():
                if lit:
                    out.append("TLit [%s]" % "; ".join(str(ord(c)) for c in lit))
                    lit = []
                out.append("TGrp %d" % (100 + int(t[i + 1])))
                i += 2
                continue
            raise TranslateError("unsupported escape in template %r" % t)
        lit.append(ch)
        i += 1
    if lit:
        out.append("TLit [%s]" % "; ".join(str(ord(c)) for c in lit))
    return "[" + "; ".join(out) + "]"


HEADER_FRAGMENTS = [
    "name_re", "value_re", "desc_re", "unit_re", "name_missing_period_re",
    "value_missing_period_re", "value_without_colon_delimiter_re",
    "value_with_time_colon_re", "name_with_dots_re", "no_desc_re", "no_unit_re",
]


def collect(repo):
    """Return ordered {coq_name: (pattern, origin)} and {coq_name: template}."""
    sys.path.insert(0, repo)
    src = open(os.path.join(repo, "lasio", "reader.py"), encoding="utf-8").read()
    tree = ast.parse(src)
    pats, tpls = {}, {}
    fn = [n for n in tree.body if isinstance(n, ast.FunctionDef) and n.name == "configure_metadata_patterns"]
    if len(fn) != 1:
        raise TranslateError("configure_metadata_patterns not found")
    first = {}
    searches = []
    for n in ast.walk(fn[0]):
        if isinstance(n, ast.Assign) and len(n.targets) == 1 and isinstance(n.targets[0], ast.Name):
            if isinstance(n.value, ast.Constant) and isinstance(n.value.value, str):
                first.setdefault(n.targets[0].id, []).append(n.value.value)
        if isinstance(n, ast.Call) and isinstance(n.func, ast.Attribute) and isinstance(n.func.value, ast.Name) \
                and n.func.value.id == "re":
            if n.func.attr == "search" and isinstance(n.args[0], ast.Constant):
                searches.append(n.args[0].value)
            else:
                raise TranslateError("unrecognised re.%s call in configure_metadata_patterns" % n.func.attr)
    for k in HEADER_FRAGMENTS:
        if k not in first:
            raise TranslateError("pattern variable %s missing from configure_metadata_patterns" % k)
        if len(first[k]) != 1:
            raise TranslateError("pattern variable %s assigned %d string constants" % (k, len(first[k])))
        pats["rx_" + k] = first[k][0]
    extra = set(first) - set(HEADER_FRAGMENTS)
    if extra:
        raise TranslateError("unexpected pattern variables %s" % sorted(extra))
    if len(searches) != 1:
        raise TranslateError("expected exactly one re.search in configure_metadata_patterns")
    pats["rx_double_dot_search"] = searches[0]

    import importlib
    reader = importlib.import_module("lasio.reader")
    defaults = importlib.import_module("lasio.defaults")
    pats["rx_sow"] = reader.sow_regex.pattern
    # the splitters defined inside define_line_splitter
    dl = [n for n in tree.body if isinstance(n, ast.FunctionDef) and n.name == "define_line_splitter"]
    if len(dl) != 1:
        raise TranslateError("define_line_splitter not found")
    for n in ast.walk(dl[0]):
        if isinstance(n, ast.Assign) and isinstance(n.value, ast.Call) and getattr(n.value.func, "attr", "") == "compile":
            nm = n.targets[0].id
            if nm not in ("sow_regex", "sot_regex"):
                raise TranslateError("unexpected splitter %s" % nm)
            if not isinstance(n.value.args[0], ast.Constant) or len(n.value.args) != 1:
                raise TranslateError("splitter %s not a plain constant" % nm)
            pats["rx_split_" + nm[:3]] = n.value.args[0].value
    for want in ("rx_split_sow", "rx_split_sot"):
        if want not in pats:
            raise TranslateError("%s missing" % want)
    for key, coq in (("comma-decimal-mark", "comma"), ("run-on(-)", "runon_minus"), ("run-on(.)", "runon_dot")):
        subs = defaults.READ_SUBS[key]
        if len(subs) != 1:
            raise TranslateError("READ_SUBS[%s] has %d entries" % (key, len(subs)))
        rx, t = subs[0]
        if rx.flags & ~32:
            raise TranslateError("flags on READ_SUBS[%s]" % key)
        pats["rx_sub_" + coq] = rx.pattern
        tpls["tpl_sub_" + coq] = t
    if sorted(defaults.READ_SUBS) != sorted(["comma-decimal-mark", "run-on(-)", "run-on(.)"]):
        raise TranslateError("READ_SUBS keys changed: %s" % sorted(defaults.READ_SUBS))
    # numeric-literal guard used by SectionParser.num (absent on trees without it)
    lit = getattr(reader, "NUMERIC_LITERAL_REGEXP", None)
    if lit is not None:
        if lit.flags & ~32:
            raise TranslateError("flags on NUMERIC_LITERAL_REGEXP")
        pats["rx_numeric_literal"] = lit.pattern
    return pats, tpls


def csafe(v):
    """repr() made safe inside a Coq comment (no comment delimiters, no string quotes)."""
    return repr(v).replace("*", "\\x2a").replace('"', "\\x22")


def render(pats, tpls):
    out = ["(* GENERATED by translators/regexes.py from /repo — do not edit *)",
           "From Coq Require Import List NArith.", "Import ListNotations.",
           "Require Import PyStr Regex.", "Open Scope N_scope.", ""]
    for k, v in pats.items():
        out.append("(* %s = %s *)" % (k, csafe(v)))
        out.append("Definition %s : re := %s." % (k, translate(v)))
    for k, v in tpls.items():
        out.append("(* %s = %s *)" % (k, csafe(v)))
        out.append("Definition %s : list tpl := %s." % (k, translate_template(v)))
    out.append("Definition has_numeric_literal_guard : bool := %s." % ("true" if "rx_numeric_literal" in pats else "false"))
    if "rx_numeric_literal" not in pats:
        out.append("Definition rx_numeric_literal : re := Star CAny.")
    return "\n".join(out) + "\n"


if __name__ == "__main__":
    repo = sys.argv[1] if len(sys.argv) > 1 else "/repo"
    p, t = collect(repo)
    sys.stdout.write(render(p, t))
