#!/bin/bash
# Build the Coq development from clean (full .vo build, never -vos), offline:
# the regenerated Gen files, the models, the correspondence glue and the closure of every
# claimed property's Props/Cxx.v.  A file that fails to compile is reported here and makes
# the check of the property that depends on it fail (proof obligation broken); it does not
# stop the other properties from being built.
cd "$(dirname "$0")"
export PYTHONHASHSEED=0 PYTHONPATH=/repo LASIO_VERIF=1
/venv/bin/python translators/run_all.py || echo "setup: a translator failed (the dependent checks will report it)"
cd coq
./gen_project.sh
targets="Corr/CaseLib.vo Corr/ReadShow.vo Corr/WriteShow.vo"
for p in $(/venv/bin/python -c "import json;print(' '.join(c['property_id'] for c in json.load(open('../MANIFEST.json'))['checks']))"); do
  targets="$targets Props/$p.vo"
done
flock .lock timeout 3000 make -k -j16 $targets > ../out_setup.log 2>&1
rc=$?
grep -E "Error|\*\*\*" ../out_setup.log | head -20
echo "setup: make exit $rc ($(ls Props/*.vo 2>/dev/null | wc -l) Props files built)"
rm -f ../out_setup.log
exit 0
