#!/bin/bash
# Build the whole Coq development from clean (full .vo build), offline.
set -e
cd "$(dirname "$0")"
export PYTHONHASHSEED=0 PYTHONPATH=/repo LASIO_VERIF=1
/venv/bin/python translators/run_all.py || true
cd coq
./gen_project.sh
timeout 3000 make -j16
echo "setup ok"
