import io, numpy as np, textwrap, random
def g(txt, **kw):
    try:
        a = np.genfromtxt(io.StringIO(txt), names=None, unpack=True, loose=False, **kw); return a.shape, a.tolist()
    except Exception as e: return ('EXC', type(e).__name__, str(e)[:60])
T = "h1\nh2\n1 2\n\n# c\n3 4\n5 6\n~P\nx\n"
print('skip2 max3', g(T, skip_header=2, max_rows=3))
print('skip2 max2', g(T, skip_header=2, max_rows=2))
print('skip2 max4', g(T, skip_header=2, max_rows=4))
print('max0', g(T, skip_header=2, max_rows=0))
print('max-1', g(T, skip_header=2, max_rows=-1))
print('ragged', g("1 2\n3\n", max_rows=2))
print('nonnum', g("1 a\n3 4\n", max_rows=2))
print('inline comment', g("1 2 # x\n3 4\n"))
print('empty', g("\n\n", max_rows=2))
print('skip beyond', g("1 2\n", skip_header=5, max_rows=2))
print('unicode space sep', g("1 2\n3 4\n"))
print('vt/ff sep', g("1\x0b2\n3\x0c4\n"))
print('1e5 +.5 5.', g("1e5 +.5 5.\n"))
print('nan inf', g("nan inf -Infinity\n"))
print('1_0', g("1_0 2\n"))
print('0x10', g("0x10 2\n"))
print('CR only lines', g("1 2\r3 4\r"))
print('ctrl-z', g("1 2\n\x1a\n"))
# TextWrapper greedy-fill assumption on numeric tokens
R = random.Random(3)
def greedy(s, width):
    # model: chunks = words and space-runs; first line keeps leading spaces
    import re
    chunks = re.findall(r'\s+|\S+', s)
    lines=[]; cur=[]; curlen=0
    chunks = chunks[::-1]
    while chunks:
        cur=[]; curlen=0
        if chunks[-1].strip()=='' and lines: chunks.pop()
        while chunks:
            l=len(chunks[-1])
            if curlen+l<=width: cur.append(chunks.pop()); curlen+=l
            else: break
        if chunks and len(chunks[-1])>width:
            # break long word
            space = width-curlen if width>=1 else 1
            if space<1: space=1
            w=chunks[-1]; cur.append(w[:space]); chunks[-1]=w[space:]; 
        if cur and cur[-1].strip()=='' : curlen-=len(cur[-1]); cur.pop()
        if cur: lines.append(''.join(cur))
    return lines
bad=0
for _ in range(3000):
    n=R.randint(1,30); width=R.choice([12,20,40,79,200])
    toks=[("%.*f"%(R.randint(0,6), R.choice([1,-1])*R.random()*10**R.randint(-3,8))) if R.random()<.8 else "%.3e"%(R.random()*10**R.randint(-200,200)) for _ in range(n)]
    L=R.choice([-1,8,10,14])
    s="".join(R.choice([" ","  ",""]) if i==0 else R.choice([" ","  "]) + (t.rjust(L) if L>0 else t) for i,t in enumerate(toks)) if False else "".join((" " if True else "")+ (t.rjust(L) if L>0 else t) for t in toks)
    a=textwrap.TextWrapper(width=width).wrap(s); b=greedy(s,width)
    if a!=b: bad+=1; 
    if a!=b and bad<4: print('WRAP DIFF', width, repr(s[:80]), a[:3], b[:3])
    # token preservation when no token exceeds width
    if all(len(t)<=width for t in toks):
        if " ".join(a).split()!=toks: print('TOKENS LOST', width, toks[:5])
print('wrap diffs', bad)
