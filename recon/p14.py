import sys; sys.path.insert(0,'/repo')
import logging; logging.disable(logging.CRITICAL)
import io, numpy as np, lasio
from lasio import LASFile, CurveItem
def st(l): return [(c.mnemonic,c.original_mnemonic,c.unit,c.descr,c.data.tolist()) for c in l.curves]
def mk():
    l = LASFile(); l.append_curve('D', np.array([1.,2.]), unit='m'); l.append_curve('A', np.array([3.,4.]), unit='u', descr='a'); return l
def tr(name, f):
    l = mk()
    try: r = f(l); print(name, 'ok', st(l))
    except Exception as e: print(name, 'EXC', type(e).__name__, str(e)[:70], st(l))
tr('truncate', lambda l: l.set_data(np.array([[1.,2.,3.],[4.,5.,6.]]), truncate=True))
tr('wider', lambda l: l.set_data(np.array([[1.,2.,3.],[4.,5.,6.]])))
tr('names short', lambda l: l.set_data(np.array([[1.,2.],[4.,5.]]), names=['X']))
tr('names dup', lambda l: l.set_data(np.array([[1.,2.],[4.,5.]]), names=['X','X']))
tr('narrower', lambda l: l.set_data(np.array([[1.],[4.]])))
tr('insert neg', lambda l: l.insert_curve(-1, 'N', np.array([9.,9.])))
tr('insert big', lambda l: l.insert_curve(10, 'N', np.array([9.,9.])))
tr('delete missing', lambda l: l.delete_curve('ZZ'))
tr('delete ix neg', lambda l: l.delete_curve(ix=-1))
tr('setitem dup name arr', lambda l: l.__setitem__('A', np.array([7.,8.])))
tr('setitem item mismatch', lambda l: l.__setitem__('B', CurveItem('C')))
tr('setitem item replace', lambda l: l.__setitem__('A', CurveItem('A', unit='new', data=[0,0])))
tr('update ix', lambda l: l.update_curve(ix=1, data=np.array([0.,0.]), unit='q'))
tr('append dup', lambda l: l.append_curve('A', np.array([5.,6.])))
tr('replace item', lambda l: l.replace_curve_item(0, CurveItem('Z', data=[1,1])))
l = mk(); print(l['A'], l[1], l[-1], l.index, l.data.tolist(), l.keys(), [v.tolist() for v in l.values()])
l = mk(); l.append_curve('A', np.array([5.,6.])); 
try: print(l['A'])
except Exception as e: print('A after dup', type(e).__name__)
print(l['A:1'], l['A:2'])
print('--- F16 mixed-case STRT 1.2')
l = LASFile(); l.well.append(lasio.HeaderItem('Fld2','', 'myvalue', 'mydescr')); l.well['STRT'].mnemonic='Strt'
l.append_curve('D', np.array([1.,2.]), unit='m')
s = io.StringIO()
try:
    l.write(s, version=1.2); print(s.getvalue()[s.getvalue().find('~Well'):s.getvalue().find('~Curve')][:200])
except Exception as e: print('write EXC', type(e).__name__, e)
