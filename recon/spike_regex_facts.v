From Coq Require Import List NArith Bool Lia.
Import ListNotations.
Require Import Rx.
Open Scope N_scope.
(* greedy: if continuation succeeds at the maximal split, that is the answer *)
Lemma star_g_max k : forall s1 s2 p cs cont r,
  forallb (cmatch k) s1 = true ->
  match s2 with [] => True | c::_ => cmatch k c = false end ->
  cont {| pre := rev s1 ++ p; rem := s2; caps := cs |} = Some r ->
  star_g k p (s1 ++ s2) cs cont = Some r.
Proof.
  induction s1 as [|c s1 IH]; intros s2 p cs cont r Hall Hhd Hk; cbn [app rev] in *.
  - destruct s2 as [|c s2]; cbn [star_g]; [exact Hk|]. rewrite Hhd. exact Hk.
  - cbn [forallb] in Hall. apply andb_true_iff in Hall as [Hc Hall].
    cbn [star_g]. rewrite Hc.
    rewrite (IH s2 (c::p) cs cont r Hall Hhd); [reflexivity|].
    rewrite <- app_assoc in Hk. exact Hk.
Qed.
(* back-off: continuation fails on every split longer than |s1|; then result is cont at split s1 *)
Lemma star_g_backoff k : forall s2 s1 p cs cont,
  forallb (cmatch k) s1 = true ->
  (forall a b, s2 = a ++ b -> a <> [] -> forallb (cmatch k) a = true ->
     cont {| pre := rev a ++ rev s1 ++ p; rem := b; caps := cs |} = None) ->
  star_g k p (s1 ++ s2) cs cont =
  star_g k (rev s1 ++ p) s2 cs cont.
Proof.
  intros s2 s1; revert s2. induction s1 as [|c s1 IH]; intros s2 p cs cont Hall Hf; [reflexivity|].
  cbn [forallb] in Hall. apply andb_true_iff in Hall as [Hc Hall].
  cbn [app star_g rev]. rewrite Hc.
  rewrite (IH s2 (c::p) cs cont Hall).
  2:{ intros a b E Ha Hka. specialize (Hf a b E Ha Hka). cbn [rev] in Hf. rewrite <- !app_assoc in Hf. exact Hf. }
  rewrite <- app_assoc. cbn [app].
  destruct (star_g k (rev s1 ++ c :: p) s2 cs cont) eqn:E; [reflexivity|].
Abort.
