import sys; sys.path.insert(0,'/repo')
import logging; logging.disable(logging.CRITICAL)
import io, random
import lasio, numpy as np
H = "~V\nVERS. 2.0 :\nWRAP. NO :\n~W\nNULL. -999.25 :\n~C\nDEPT.M :\nA.M :\nB.M :\n"
def both(text):
    out = []
    for eng in ('numpy','normal'):
        try:
            r = lasio.read(text, engine=eng)
            out.append((r.data.tolist(), r.params.keys()))
        except Exception as e:
            out.append(('EXC', type(e).__name__, str(e)[:80]))
    return out
cases = {
 'A last': H+"~A\n1 2 3\n4 5 6\n7 8 9\n",
 'A then P': H+"~A\n1 2 3\n4 5 6\n7 8 9\n~P\nX. 1 :\n",
 'A then P, no final nl': H+"~A\n1 2 3\n4 5 6\n7 8 9\n~P\nX. 1 :",
 'A last no final nl': H+"~A\n1 2 3\n4 5 6\n7 8 9",
 'A last trailing blank': H+"~A\n1 2 3\n4 5 6\n7 8 9\n\n",
 'A last trailing comment': H+"~A\n1 2 3\n4 5 6\n7 8 9\n# c\n",
 'A blank mid then P': H+"~A\n1 2 3\n\n4 5 6\n7 8 9\n~P\nX. 1 :\n",
 'A comment mid last': H+"~A\n1 2 3\n#c\n4 5 6\n7 8 9\n",
 'A then P trailing blank before P': H+"~A\n1 2 3\n4 5 6\n7 8 9\n\n~P\nX. 1 :\n",
 'A then P trailing comment before P': H+"~A\n1 2 3\n4 5 6\n7 8 9\n#c\n~P\nX. 1 :\n",
 'single row': H+"~A\n1 2 3\n",
 'single row then P': H+"~A\n1 2 3\n~P\nX. 1 :\n",
 'two rows then P': H+"~A\n1 2 3\n4 5 6\n~P\nX. 1 :\n",
 'single col': "~V\nVERS. 2.0 :\nWRAP. NO :\n~W\nNULL. -999.25 :\n~C\nDEPT.M :\n~A\n1\n2\n3\n",
 'single col 2 rows': "~V\nVERS. 2.0 :\nWRAP. NO :\n~W\nNULL. -999.25 :\n~C\nDEPT.M :\n~A\n1\n2\n",
 'single col 1 row': "~V\nVERS. 2.0 :\nWRAP. NO :\n~W\nNULL. -999.25 :\n~C\nDEPT.M :\n~A\n1\n",
 'single col then P': "~V\nVERS. 2.0 :\nWRAP. NO :\n~W\nNULL. -999.25 :\n~C\nDEPT.M :\n~A\n1\n2\n3\n~P\nX. 1:\n",
 'CRLF': (H+"~A\n1 2 3\n4 5 6\n7 8 9\n").replace("\n","\r\n"),
 'A before C': "~V\nVERS. 2.0 :\nWRAP. NO :\n~W\nNULL. -999.25 :\n~A\n1 2 3\n4 5 6\n7 8 9\n~C\nDEPT.M :\nA.M :\nB.M :\n",
 '2 rows of 2 (max_rows==1?) then P': "~V\nVERS. 2.0 :\nWRAP. NO :\n~W\nNULL. -999.25 :\n~C\nDEPT.M :\nA.M:\n~A\n1 2\n3 4\n~P\nX. 1:\n",
}
for k,t in cases.items():
    a,b = both(t)
    print(('OK  ' if a==b else 'DIFF'), k, a if a!=b else a[0], '' if a==b else b)
