import sys; sys.path.insert(0,'/repo')
import logging; logging.disable(logging.CRITICAL)
import io, builtins, os
import lasio, numpy as np
opened = []
_open = builtins.open; _ioopen = io.open
def spy(*a, **k):
    f = _open(*a, **k); opened.append(f); return f
builtins.open = spy; io.open = spy
import lasio.las, lasio.reader
lasio.reader.io.open = spy
kept = []
def run(name, f):
    opened.clear()
    try: f(); r='ok'
    except BaseException as e: kept.append(e); r=type(e).__name__
    print(name, r, [(os.path.basename(str(x.name)), 'closed' if x.closed else 'OPEN') for x in opened])
l = lasio.read('/repo/tests/examples/sample.las')
run('write ok', lambda: l.write('/tmp/probe/o.las'))
run('write bad version', lambda: l.write('/tmp/probe/o.las', version=3))
h = lasio.read('/repo/tests/examples/header_only.las')
run('write header only', lambda: h.write('/tmp/probe/o.las'))
run('to_csv bad kw', lambda: l.to_csv('/tmp/probe/o.csv', bogus=1))
run('to_csv empty', lambda: lasio.LASFile().to_csv('/tmp/probe/o.csv'))
run('read not las', lambda: lasio.read('/repo/tests/examples/not_a_las_file.las'))
run('read hdr err', lambda: lasio.read('/repo/tests/examples/dodgy_param_sect.las'))
run('read reshape', lambda: lasio.read('/repo/tests/examples/sample_lastcolblanked.las'))
run('read missing', lambda: lasio.read('/tmp/probe/nonexistent.las'))
run('read decode strict', lambda: lasio.read('/repo/tests/examples/encodings_utf16le.las', encoding='ascii', encoding_errors='strict'))
