import sys; sys.path.insert(0,'/repo')
import logging; logging.disable(logging.CRITICAL)
import io, random
import lasio, numpy as np
def rd(text, **kw):
    try:
        r = lasio.read(text, **kw)
        d = {}
        for k,s in r.sections.items():
            d[k] = s if isinstance(s,str) else [(i.original_mnemonic,i.unit,i.value,i.descr) for i in s]
        return d, (r.data.tolist() if len(r.curves) else None)
    except Exception as e:
        return ('EXC', type(e).__name__, str(e)[:100])
V="~V\nVERS. 2.0 :\nWRAP. NO :\n"; W="~W\nNULL. -999.25 :\nSTRT.M 1 :\n"; C="~C\nDEPT.M :\nA.M :\n"; P="~P\nX. 1 : px\n"; O="~O\nsome text\nmore text\n"; A="~A\n1 2\n3 4\n"; X="~Xtra stuff\nQ. 5 : q\n"
print('--- lower case titles')
print(rd(V.replace('~V','~v')+W.replace('~W','~w')+C.replace('~C','~c')+P.replace('~P','~p')+O.replace('~O','~o')+A.replace('~A','~a'), engine='normal'))
print('--- only ~a lower')
print(rd(V+W+C+P+O+A.replace('~A','~a'), engine='normal'))
print('--- only ~o lower')
print(rd(V+W+C+P+O.replace('~O','~other')+A, engine='normal'))
print('--- steering names in P: NULL, WRAP')
print(rd(V+W+C+"~P\nNULL. 3 : my null param\nWRAP. YES : ha\n"+A, engine='normal'))
print('--- steering names in P: VERS 1.2 before W')
print(rd(V+"~P\nVERS. 1.2 : p\n"+"~W\nNULL. -999.25 : n\nFOO. descr : val\n"+C+A, engine='normal'))
print('--- DLM in custom')
print(rd(V+W+C+"~Xtra\nDLM. COMMA : x\n"+A, engine='normal'))
print('--- O then X then A; empty sections')
print(rd(V+W+"~P\n"+C+O+X+A, engine='normal'))
print('--- O last line blank then next')
print(rd(V+W+C+"~O\nline1\n\n"+P+A, engine='normal'))
print('--- O before W; O contains tilde line?')
print(rd(V+"~O\nline1\nline2\n"+W+C+A, engine='normal'))
print('--- O is last section')
print(rd(V+W+C+A+"~O\nline1\nline2\n", engine='normal'))
print('--- O is last section no nl')
print(rd(V+W+C+A+"~O\nline1\nline2", engine='normal'))
print('--- custom with underscore: ~C_x ; ~Parameter_foo')
print(rd(V+W+C+"~Core_stuff\nQ. 5 : q\n"+A, engine='normal'))
print('--- ~Well title with A letter inside; ~ASCII w/ words; ~A  DEPTH  GR')
print(rd(V+"~WELL INFORMATION Block\nNULL. -999.25 :\n"+"~CURVE INFORMATION\nDEPT.M :\nA.M :\n"+"~A  DEPTH   A\n1 2\n3 4\n", engine='normal'))
