import sys; sys.path.insert(0,'/repo')
import logging; logging.disable(logging.CRITICAL)
import random, itertools
from lasio.reader import read_header_line
R = random.Random(1)
def fmt(m,u,v,d,p):
    return p[0]+m+p[1]+"."+u+p[2]+v+p[3]+":"+p[4]+d+p[5]
pads = ["", " ", "    ", "\t", " \t "]
mn = ["DEPT","A B","X1","GR_1","Ünit","a","A-B","A/B","A(B)","A'B", "A:B"]
un = ["","M","US/M","hh:mm",".1IN","G/CM3","K.M","ohm.m","1000","0.1IN","M:S","%","'","1000lbf","a.b.c","m.","m..n","[m]","(m)"]
va = ["","12.5","hello world","23:15 23-JAN-2001","A9-16-49-20W3M","1 2 3","a.b","x (y) [z]",'"q"',"5.","0","-999.25","14:00","14:00:32","00:00","9:30","23:59:59"]
de = ["","DEPTH","1  DEPTH","Time Logger","a.b.c","x (y)","Time: At Bottom","a:b", "  ", "ends."]
secs = [None,"Version","Well","Curves","Parameter","~Custom"]
fails = {}
n=0
for m in mn:
  for u in un:
    for v in va:
      for d in de:
        for sec in secs:
          p = [R.choice(pads) for _ in range(6)]
          # unit/value sep must be nonempty blank if value nonempty (else unit absorbs)
          if p[2]=="" : p[2]=" "
          line = fmt(m,u,v,d,p)
          n+=1
          try:
              r = read_header_line(line, section_name=sec)
              got = (r['name'],r['unit'],r['value'],r['descr'])
          except Exception as e:
              got = ('EXC',type(e).__name__)
          exp = (m.strip(),u,v.strip(),d.strip())
          if got!=exp:
              key=(sec, 'colon-in-mnem' if ':' in m else '', 'colon-in-unit' if ':' in u else '', 'colon-in-val' if ':' in v else '', 'colon-in-desc' if ':' in d else '', 'dot-unit' if '.' in u else '', 'numunit' if u[:1].isdigit() else '', 'brack' if u[:1] in '[(' else '')
              fails.setdefault(key,[]).append((line,exp,got))
print(n, sum(len(v) for v in fails.values()))
for k,v in sorted(fails.items(), key=lambda kv:-len(kv[1])):
    print(k,len(v)); 
    for x in v[:2]: print('    ',x)
