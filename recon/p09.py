import sys; sys.path.insert(0,'/repo')
import logging; logging.disable(logging.CRITICAL)
import lasio
H = "~V\nVERS. 2.0 :\nWRAP. NO :\n~W\nNULL. -999.25 :\n~C\nDEPT.M :\nA.M :\n"
def rd(t, **kw):
    try: r = lasio.read(t, **kw); return [c.data.tolist() for c in r.curves]
    except Exception as e: return ('EXC', type(e).__name__, str(e)[:70])
base = H+"~A\n1 2 3\n4 5 6\n"
blank = H+"~A\n1 2 3\n\n4 5 6\n"
for eng in ('numpy','normal'):
    print(eng, 'base', rd(base, engine=eng)); print(eng, 'blank inserted', rd(blank, engine=eng))
# comment line first in data + hyphen rule etc.
print('comment', rd(H+"~A\n#c\n1 2 3\n4 5 6\n", engine='normal'))
# blank line with declared == columns
print('eq cols blank', rd(H.replace("A.M :\n","A.M :\nB.M :\n")+"~A\n1 2 3\n\n4 5 6\n", engine='normal'))
# whitespace-only line
print('ws line', rd(H+"~A\n1 2 3\n   \n4 5 6\n", engine='normal'))
