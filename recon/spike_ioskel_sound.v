From Coq Require Import List Arith Bool Lia.
Import ListNotations.
Require Import IOSkel.

Lemma rm_incl h s A : incl s A -> incl (rm h s) (rm h A).
Proof. intros H x Hx. unfold rm in *. apply filter_In in Hx as [Hx Hb]. apply filter_In. split; auto. Qed.
Lemma subl_incl a b : subl a b = true -> incl a b.
Proof.
  unfold subl. intros H x Hx. rewrite forallb_forall in H. specialize (H x Hx).
  apply existsb_exists in H as [y [Hy E]]. apply Nat.eqb_eq in E. subst. exact Hy.
Qed.
Lemma oj_l a b X s : a = Some X -> incl s X -> exists Y, oj a b = Some Y /\ incl s Y.
Proof. intros -> H. destruct b as [y|]; cbn; eexists; split; eauto. apply incl_appl; auto. Qed.
Lemma oj_r a b X s : b = Some X -> incl s X -> exists Y, oj a b = Some Y /\ incl s Y.
Proof. intros -> H. destruct a as [y|]; cbn; eexists; split; eauto. apply incl_appr; auto. Qed.

Ltac inv H := inversion H; subst; clear H.

Theorem an_sound : forall s σ o σ', exec s σ o σ' ->
  forall A r, an s A = Some r -> incl σ A -> exists A', get r o = Some A' /\ incl σ' A'.
Proof.
  induction 1; intros A r Han Hin; cbn [an] in Han.
  - inv Han; cbn; eauto.
  - inv Han; cbn; eauto.
  - inv Han; cbn; eauto.
  - inv Han; cbn; eauto.
  - inv Han; cbn; eauto.
  - inv Han; cbn. eexists; split; eauto. intros x [->|Hx]; [left; auto| right; auto].
  - inv Han; cbn; eauto.
  - inv Han; cbn. eexists; split; eauto. apply rm_incl; auto.
  - inv Han; cbn. eexists; split; eauto. apply rm_incl; auto.
  - (* SeqN *)
    destruct (an a A) as [ra|] eqn:Ea; [|discriminate].
    destruct (IHexec1 _ _ Ea Hin) as [A1 [G1 I1]]. cbn in G1. rewrite G1 in Han.
    destruct (an b A1) as [rb|] eqn:Eb; [|discriminate]. inv Han.
    destruct (IHexec2 _ _ Eb I1) as [A2 [G2 I2]].
    destruct o; cbn in *; eauto using oj_r.
  - (* SeqX *)
    destruct (an a A) as [ra|] eqn:Ea; [|discriminate].
    destruct (IHexec _ _ Ea Hin) as [A1 [G1 I1]].
    destruct (rN ra) as [AN|] eqn:EN.
    + destruct (an b AN) as [rb|] eqn:Eb; [|discriminate]. inv Han.
      destruct o; cbn in *; try congruence; eauto using oj_l.
    + inv Han. eauto.
  - (* IfL *)
    destruct (an a A) as [ra|] eqn:Ea; [|discriminate]. destruct (an b A) as [rb|] eqn:Eb; [|discriminate]. inv Han.
    destruct (IHexec _ _ Ea Hin) as [A1 [G1 I1]]. destruct o; cbn in *; eauto using oj_l.
  - (* IfR *)
    destruct (an a A) as [ra|] eqn:Ea; [|discriminate]. destruct (an b A) as [rb|] eqn:Eb; [|discriminate]. inv Han.
    destruct (IHexec _ _ Eb Hin) as [A1 [G1 I1]]. destruct o; cbn in *; eauto using oj_r.
  - (* Loop0 *)
    destruct (an b A) as [rb|] eqn:Eb; [|discriminate].
    destruct (match rN rb with Some A1 => subl A1 A | None => true end) eqn:Ok; [|discriminate]. inv Han.
    cbn [get rN]. exact (oj_l (Some A) (rB rb) A s eq_refl Hin).
  - (* LoopN *)
    destruct (an b A) as [rb|] eqn:Eb; [|discriminate].
    destruct (match rN rb with Some A1 => subl A1 A | None => true end) eqn:Ok; [|discriminate].
    destruct (IHexec1 _ _ Eb Hin) as [A1 [G1 I1]]. cbn in G1. rewrite G1 in Ok.
    assert (Hin1 : incl s1 A) by (eapply incl_tran; [exact I1| apply subl_incl; exact Ok]).
    apply (IHexec2 A r); auto. cbn [an]. rewrite Eb, G1, Ok. exact Han.
  - (* LoopB *)
    destruct (an b A) as [rb|] eqn:Eb; [|discriminate].
    destruct (match rN rb with Some A1 => subl A1 A | None => true end) eqn:Ok; [|discriminate]. inv Han.
    destruct (IHexec _ _ Eb Hin) as [A1 [G1 I1]]. cbn [get rN rB] in *. exact (oj_r (Some A) (rB rb) A1 s1 G1 I1).
  - (* LoopX *)
    destruct (an b A) as [rb|] eqn:Eb; [|discriminate].
    destruct (match rN rb with Some A1 => subl A1 A | None => true end) eqn:Ok; [|discriminate]. inv Han.
    destruct (IHexec _ _ Eb Hin) as [A1 [G1 I1]]. destruct H0; subst; cbn in *; eauto.
  - (* FinN *)
    destruct (an b A) as [rb|] eqn:Eb; [|discriminate].
    destruct (IHexec1 _ _ Eb Hin) as [A1 [G1 I1]].
    destruct (afin (an f) (rN rb)) as [fN|] eqn:EN; [|discriminate].
    destruct (afin (an f) (rR rb)) as [fR|] eqn:ER; [|discriminate].
    destruct (afin (an f) (rT rb)) as [fT|] eqn:ET; [|discriminate].
    destruct (afin (an f) (rB rb)) as [fB|] eqn:EB; [|discriminate]. inv Han.
    destruct o; cbn [get] in G1; cbn [get rN rR rT rB].
    + rewrite G1 in EN; cbn [afin] in EN. destruct (IHexec2 _ _ EN I1) as [A2 [G2 I2]]. eauto.
    + rewrite G1 in ER; cbn [afin] in ER. destruct (IHexec2 _ _ ER I1) as [A2 [G2 I2]]. cbn [get] in G2. eauto using oj_l.
    + rewrite G1 in ET; cbn [afin] in ET. destruct (IHexec2 _ _ ET I1) as [A2 [G2 I2]]. cbn [get] in G2. eauto using oj_l.
    + rewrite G1 in EB; cbn [afin] in EB. destruct (IHexec2 _ _ EB I1) as [A2 [G2 I2]]. cbn [get] in G2. eauto using oj_l.
  - (* FinX *)
    destruct (an b A) as [rb|] eqn:Eb; [|discriminate].
    destruct (IHexec1 _ _ Eb Hin) as [A1 [G1 I1]].
    destruct (afin (an f) (rN rb)) as [fN|] eqn:EN; [|discriminate].
    destruct (afin (an f) (rR rb)) as [fR|] eqn:ER; [|discriminate].
    destruct (afin (an f) (rT rb)) as [fT|] eqn:ET; [|discriminate].
    destruct (afin (an f) (rB rb)) as [fB|] eqn:EB; [|discriminate]. inv Han.
    assert (Hab : forall k, (k = rR \/ k = rT \/ k = rB) ->
              forall fo, (o = ONorm /\ fo = fN) \/ (o = ORaise /\ fo = fR) \/ (o = ORet /\ fo = fT) \/ (o = OBrk /\ fo = fB) ->
              forall X, k fo = Some X -> incl s2 X -> exists Y, ab4 k fN fR fT fB = Some Y /\ incl s2 Y).
    { intros k _ fo Hfo X HX HI. unfold ab4.
      destruct Hfo as [[-> ->]|[[-> ->]|[[-> ->]|[-> ->]]]].
      - destruct (oj_l (k fN) (k fR) X s2 HX HI) as [Y [E I]]. eapply oj_l; eauto.
      - destruct (oj_r (k fN) (k fR) X s2 HX HI) as [Y [E I]]. eapply oj_l; eauto.
      - destruct (oj_l (k fT) (k fB) X s2 HX HI) as [Y [E I]]. eapply oj_r; eauto.
      - destruct (oj_r (k fT) (k fB) X s2 HX HI) as [Y [E I]]. eapply oj_r; eauto. }
    assert (Hf : exists fo, an f A1 = Some fo /\ ((o = ONorm /\ fo = fN) \/ (o = ORaise /\ fo = fR) \/ (o = ORet /\ fo = fT) \/ (o = OBrk /\ fo = fB))).
    { destruct o; cbn [get] in G1.
      - rewrite G1 in EN; cbn [afin] in EN; eauto 8.
      - rewrite G1 in ER; cbn [afin] in ER; eauto 8.
      - rewrite G1 in ET; cbn [afin] in ET; eauto 8.
      - rewrite G1 in EB; cbn [afin] in EB; eauto 8. }
    destruct Hf as [fo [Ef Hfo]].
    destruct (IHexec2 _ _ Ef I1) as [A2 [G2 I2]].
    destruct o2; try congruence; cbn [get rN rR rT rB] in *.
    + destruct (Hab rR (or_introl eq_refl) fo Hfo A2 G2 I2) as [Y [E I]]. eapply oj_r; eauto.
    + destruct (Hab rT (or_intror (or_introl eq_refl)) fo Hfo A2 G2 I2) as [Y [E I]]. eapply oj_r; eauto.
    + destruct (Hab rB (or_intror (or_intror eq_refl)) fo Hfo A2 G2 I2) as [Y [E I]]. eapply oj_r; eauto.
  - (* ExcP *)
    destruct (an b A) as [rb|] eqn:Eb; [|discriminate].
    destruct (IHexec _ _ Eb Hin) as [A1 [G1 I1]].
    destruct (rR rb) as [AR|] eqn:ER.
    + destruct (an h AR) as [rh|] eqn:Eh; [|discriminate]. inv Han. destruct o; cbn in *; eauto using oj_l.
    + inv Han. eauto.
  - (* ExcH *)
    destruct (an b A) as [rb|] eqn:Eb; [|discriminate].
    destruct (IHexec1 _ _ Eb Hin) as [A1 [G1 I1]]. cbn in G1. rewrite G1 in Han.
    destruct (an h A1) as [rh|] eqn:Eh; [|discriminate]. inv Han.
    destruct (IHexec2 _ _ Eh I1) as [A2 [G2 I2]]. destruct o; cbn in *; eauto using oj_r.
Qed.

Corollary leak_free_sound s : leak_free s = true -> forall o σ', exec s [] o σ' -> o <> OBrk -> σ' = [].
Proof.
  unfold leak_free. destruct (an s []) as [r|] eqn:E; [|discriminate]. intros H o σ' X Ho.
  destruct (an_sound _ _ _ _ X _ _ E (incl_refl _)) as [A' [G I]].
  assert (HA : A' = []).
  { destruct o; cbn [get] in G; try congruence; rewrite G in H;
    destruct A' as [|a A'']; try reflexivity;
    destruct (rN r) as [[|? ?]|]; destruct (rR r) as [[|? ?]|]; destruct (rT r) as [[|? ?]|]; discriminate. }
  subst A'. destruct σ' as [|x xs]; [reflexivity|]. exfalso. apply (I x). left. reflexivity.
Qed.
Print Assumptions leak_free_sound.
