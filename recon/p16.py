import sys; sys.path.insert(0,'/repo')
import logging; logging.disable(logging.CRITICAL)
import io, copy
import lasio, numpy as np
from lasio import LASFile, HeaderItem
def snap(l):
    d = {}
    for k,s in l.sections.items():
        d[k] = s if isinstance(s,str) else [(i.mnemonic,i.original_mnemonic,i.unit,repr(i.value),i.descr) for i in s]
    return d, [repr(c.data.tolist()) for c in l.curves], l.index_unit
def diff(a,b):
    out=[]
    for k in a[0]:
        if a[0][k]!=b[0][k]:
            if isinstance(a[0][k],str): out.append((k,'text'))
            else: out += [(k,x,y) for x,y in zip(a[0][k],b[0][k]) if x!=y]
    if a[1]!=b[1]: out.append('DATA')
    return out
T = "~V\nVERS. 2.0 : v\nWRAP. NO : w\n~W\nNULL. -999.25 : n\nSTRT.M 1 : s\nSTOP.M 3 : s\nSTEP.M 1 : s\nWELL. W1 : w\nEMPTYU.K  : e\n~C\nDEPT.M : d\nA.M : a\n~P\nX. 1 : px\nE.K  : empty with unit\n~A\n1 2\n2 -999.25\n3 4\n"
l = lasio.read(T); a = snap(l); s1=io.StringIO(); l.write(s1); b = snap(l); s2=io.StringIO(); l.write(s2); c = snap(l)
print('read, unedited: changes on 1st write:', diff(a,b)); print(' 2nd write:', diff(b,c), 'same text', s1.getvalue()==s2.getvalue())
l = lasio.read(T); l.curves[0].data = l.curves[0].data*2; a=snap(l); s1=io.StringIO(); l.write(s1, version=1.2, wrap=True); b=snap(l); s2=io.StringIO(); l.write(s2, version=1.2, wrap=True); c=snap(l)
print('index edited: 1st:', diff(a,b)); print(' 2nd:', diff(b,c), s1.getvalue()==s2.getvalue())
print([x for x in s1.getvalue().splitlines() if x[:4] in ('STRT','STOP','STEP')])
# wrong STOP
l = lasio.read(T.replace("STOP.M 3","STOP.M 7")); a=snap(l); s1=io.StringIO(); l.write(s1); b=snap(l); print('wrong stop:', diff(a,b))
# fresh
l = LASFile(); l.append_curve('DEPT', np.array([5.,4.,3.]), unit='ft'); l.append_curve('A', np.array([1.,np.nan,3.])); a=snap(l); s1=io.StringIO(); l.write(s1); b=snap(l); s2=io.StringIO(); l.write(s2); c=snap(l)
print('fresh: 1st:', diff(a,b)); print(' 2nd:', diff(b,c), s1.getvalue()==s2.getvalue())
# single sample
l = LASFile(); l.append_curve('DEPT', np.array([5.]), unit='ft'); s1=io.StringIO(); l.write(s1); print([x for x in s1.getvalue().splitlines() if x[:4] in ('STRT','STOP','STEP')])
s2=io.StringIO(); l.write(s2); print('single same text', s1.getvalue()==s2.getvalue()); print([x for x in s2.getvalue().splitlines() if x[:4] in ('STRT','STOP','STEP')])
# irregular
l = LASFile(); l.append_curve('DEPT', np.array([1.,2.,4.]), unit='m'); s1=io.StringIO(); l.write(s1); print([x for x in s1.getvalue().splitlines() if x[:4] in ('STRT','STOP','STEP')])
# read file whose STOP agrees, edit other curve only -> STRT etc untouched?
l = lasio.read(T); l.curves[1].data = l.curves[1].data+1; a=snap(l); s1=io.StringIO(); l.write(s1); b=snap(l); print('other curve edited:', diff(a,b))
# index unit empty on curve
l = lasio.read(T.replace("DEPT.M","DEPT.")); a=snap(l); s1=io.StringIO(); l.write(s1); b=snap(l); print('no curve unit:', diff(a,b))
