import sys; sys.path.insert(0,'/repo')
import logging; logging.disable(logging.CRITICAL)
import io, random
import lasio, numpy as np
from lasio import LASFile
def mk(nc, nr, vals=None):
    las = LASFile()
    for j in range(nc):
        d = np.array([ (i+1)*100 + j + 0.5 for i in range(nr)]) if vals is None else vals[:,j]
        las.append_curve("C%d"%j if j else "DEPT", d)
    return las
def rt(las, engine='normal', **kw):
    s = io.StringIO(); las.write(s, **kw); t = s.getvalue()
    try:
        r = lasio.read(t, engine=engine)
        return t, r
    except Exception as e:
        return t, e
bad=[]
for nc in range(1,41):
    for nr in (1,2,3,25):
        for wrap in (True, False):
            for eng in ('normal','numpy'):
                las = mk(nc,nr)
                t, r = rt(las, eng, wrap=wrap, version=2.0)
                if isinstance(r, Exception): bad.append((nc,nr,wrap,eng,'EXC '+type(r).__name__+str(r)[:60])); continue
                ok = len(r.curves)==nc and r.data.shape==(nr,nc) and np.allclose(r.data, las.data)
                if not ok: bad.append((nc,nr,wrap,eng,[len(c.data) for c in r.curves][:3], len(r.curves)))
print(len(bad))
for b in bad[:60]: print(b)
