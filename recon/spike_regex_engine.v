From Coq Require Import List NArith Bool Lia.
Import ListNotations.
Open Scope N_scope.
Definition char := N.
Definition str := list char.
(* character classes *)
Inductive cls :=
| CAny            (* . : anything but \n *)
| CChar (c:char)
| CRange (a b:char)
| CSpace | CDigit
| CNot (c:cls)
| COr (a b:cls).
Definition is_space (c:char) : bool :=
  ((9 <=? c) && (c <=? 13)) || ((28 <=? c) && (c <=? 32)) || (c =? 133) || (c =? 160).
Fixpoint cmatch (k:cls) (c:char) : bool :=
  match k with
  | CAny => negb (c =? 10)
  | CChar x => c =? x
  | CRange a b => (a <=? c) && (c <=? b)
  | CSpace => is_space c
  | CDigit => (48 <=? c) && (c <=? 57)
  | CNot k => negb (cmatch k c)
  | COr a b => cmatch a c || cmatch b c
  end.
Inductive re :=
| Eps
| Cls (k:cls)
| Seq (a b:re)
| Alt (a b:re)
| Opt (a:re)             (* greedy ? *)
| Star (k:cls)           (* greedy * over a class *)
| Plus (k:cls)
| LStar (k:cls)          (* lazy *? *)
| Grp (name:nat) (a:re)
| NotBehind (alts:list (list cls))   (* (?<!a|b|c) fixed-width class strings *)
| NotAhead (alts:list (list cls)).
(* state: reversed consumed prefix, remaining, captures (name -> (start_rem_len, end_rem_len)) *)
Record st := { pre : str; rem : str; caps : list (nat * str) }.
Fixpoint prefix_cls (ks:list cls) (s:str) : bool :=
  match ks, s with
  | [], _ => true
  | k::ks', c::s' => cmatch k c && prefix_cls ks' s'
  | _::_, [] => false
  end.
Definition K := st -> option st.
(* greedy star over class: consume maximal, then back off *)
Fixpoint star_g (k:cls) (p:str) (s:str) (cs:list (nat*str)) (cont:K) : option st :=
  match s with
  | c::s' => if cmatch k c then
               match star_g k (c::p) s' cs cont with
               | Some r => Some r
               | None => cont {| pre:=p; rem:=s; caps:=cs |}
               end
             else cont {| pre:=p; rem:=s; caps:=cs |}
  | [] => cont {| pre:=p; rem:=s; caps:=cs |}
  end.
Fixpoint star_l (k:cls) (p:str) (s:str) (cs:list (nat*str)) (cont:K) : option st :=
  match cont {| pre:=p; rem:=s; caps:=cs |} with
  | Some r => Some r
  | None => match s with
            | c::s' => if cmatch k c then star_l k (c::p) s' cs cont else None
            | [] => None
            end
  end.
Fixpoint m (r:re) (x:st) (cont:K) {struct r} : option st :=
  match r with
  | Eps => cont x
  | Cls k => match rem x with
             | c::s' => if cmatch k c then cont {| pre:=c::pre x; rem:=s'; caps:=caps x |} else None
             | [] => None end
  | Seq a b => m a x (fun y => m b y cont)
  | Alt a b => match m a x cont with Some r => Some r | None => m b x cont end
  | Opt a => match m a x cont with Some r => Some r | None => cont x end
  | Star k => star_g k (pre x) (rem x) (caps x) cont
  | Plus k => match rem x with
              | c::s' => if cmatch k c then star_g k (c::pre x) s' (caps x) cont else None
              | [] => None end
  | LStar k => star_l k (pre x) (rem x) (caps x) cont
  | Grp n a => let start := length (rem x) in
               m a x (fun y => cont {| pre:=pre y; rem:=rem y;
                  caps := (n, firstn (start - length (rem y)) (rem x)) :: caps y |})
  | NotBehind alts => if existsb (fun ks => prefix_cls (rev ks) (pre x)) alts then None else cont x
  | NotAhead alts => if existsb (fun ks => prefix_cls ks (rem x)) alts then None else cont x
  end.
Definition re_match (r:re) (s:str) : option (list (nat*str)) :=
  match m r {| pre:=[]; rem:=s; caps:=[] |} (fun y => Some y) with
  | Some y => Some (caps y) | None => None end.
(* name_re unit_re value_re desc_re *)
Definition dot := 46. Definition colon := 58.
Definition name_re := Seq (Opt (Cls (CChar dot))) (Seq (Grp 0 (Star (CNot (CChar dot)))) (Cls (CChar dot))).
Definition unit_re := Grp 1 (Seq (Opt (Seq (Plus CDigit) (Cls CSpace))) (Star (CNot CSpace))).
Definition value_re := Seq (Grp 2 (Star CAny)) (Cls (CChar colon)).
Definition desc_re := Grp 3 (Star CAny).
Definition pat := Seq name_re (Seq unit_re (Seq value_re desc_re)).
Require Import Ascii String.
Definition s2l (s:string) : str := map (fun a => N_of_ascii a) (list_ascii_of_string s).
Definition l2s (l:str) : string := string_of_list_ascii (map ascii_of_N l).
Definition show (o:option (list (nat*str))) := match o with Some l => map (fun p => (fst p, l2s (snd p))) l | None => [] end.
Eval vm_compute in show (re_match pat (s2l "TIML.hh:mm 23:15 23-JAN-2001:   Time Logger: At Bottom")).
Eval vm_compute in show (re_match pat (s2l "HKLA            .1000 lbf                                  :(RT)")).
Definition tval := Seq (Grp 2 (LStar CAny)) (Seq (NotBehind [[CChar 32; CRange 48 50; CRange 48 51]; [CChar 32; CChar 104; CChar 104]; [CChar 32; CChar 72; CChar 72]]) (Seq (Cls (CChar colon)) (NotAhead [[CRange 48 53; CRange 48 57]; [CChar 109; CChar 109]; [CChar 77; CChar 77]]))).
Definition ppat := Seq name_re (Seq unit_re (Seq tval desc_re)).
Eval vm_compute in show (re_match ppat (s2l "TIML.hh:mm 23:15 23-JAN-2001:   Time Logger: At Bottom")).
Time Eval vm_compute in List.length (flat_map (fun _ => show (re_match ppat (s2l "TIML.hh:mm 23:15 23-JAN-2001:   Time Logger: At Bottom"))) (seq 0 2000)).
