import sys; sys.path.insert(0,'/repo')
import logging; logging.disable(logging.CRITICAL)
import io, random, string
import lasio, numpy as np
def canon(r):
    d = {}
    for k,s in r.sections.items():
        d[k] = s if isinstance(s,str) else [(i.original_mnemonic,i.unit,str(i.value),i.descr) for i in s]
    return d, repr(r.data.tolist())
T = "~V\nVERS. 2.0 : v\nWRAP. NO : w\n~W\nNULL. -999.25 : n\nSTRT.M 1 : s\nWELL. W1 : w\n~C\nDEPT.M : d\nA.M : a\n~P\nX. 1 : px\nY. 1.5 : py\n~Xtra\nQ. 5 : q\n~A\n1 2\n2 -999.25\n3 4\n"
base = canon(lasio.read(T))
R = random.Random(5)
junk = [".", ":", "..", "::", ".:", ":.", "\"", "'", "\"# Surface Coords: 1,000' FNL & 2,000' FWL\"", "DEPTH     DT       RHOB", "....", " . . ", "a", "-", "=====", "x"*5000, "a.b.c.d:e:f", "12:30", ".:.:", "\x1a", "[", "(", "\\", "*", "?.+", "%s", "{}", "no period no colon", "only: colon", "only. period"]
junk += ["".join(R.choice(string.punctuation.replace('~','')+"  ab1") for _ in range(R.randint(1,12))) for _ in range(3000)]
res = {}
lines = T.split("\n")
sites = {'V':2, 'W':5, 'P':13, 'X':15}
for j in junk:
    if j.strip().startswith('~') or j.strip().startswith('#') or not j.strip(): continue
    for sname, pos in sites.items():
        t = "\n".join(lines[:pos]+[j]+lines[pos:])
        try:
            r = lasio.read(t, ignore_header_errors=True)
            c = canon(r)
            # genuine items preserved in order? remove extra items
            ok = c[1]==base[1]
            for k in base[0]:
                if isinstance(base[0][k], str): ok = ok and c[0][k]==base[0][k]
                else:
                    # base items must be a subsequence
                    it = iter(c[0].get(k, [])); ok = ok and all(x in it for x in base[0][k])
            if not ok: res.setdefault(('CHANGED',sname), []).append(j)
        except Exception as e:
            res.setdefault(('EXC', sname, type(e).__name__), []).append(j)
        try:
            lasio.read(t)
        except lasio.exceptions.LASHeaderError as e:
            if j.strip() not in str(e): res.setdefault(('HDRERR-not-naming', sname), []).append(j)
        except Exception as e:
            res.setdefault(('noflag EXC', sname, type(e).__name__), []).append(j)
for k,v in res.items(): print(k, len(v), [x[:40] for x in v[:6]])
