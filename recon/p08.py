import sys; sys.path.insert(0,'/repo')
import logging; logging.disable(logging.CRITICAL)
import lasio, numpy as np
from lasio.reader import SectionParser
p = SectionParser("~Well", version=2.0)
for s in ["15_9","1_000","1_0.5","1e1_0"," 12","12 ","1,5","1,000,000","inf","-inf","nan","NaN","Infinity","0x10","1e5","1E+3",".5","5.","+5","-0","99999999999999999999","9223372036854775807","9223372036854775808","-9223372036854775808","1e400","1e-400","١٢","１２","1.5e","e5","--5","+-5","1..5","", "12-34-12-34W5M","00123","1,5e3","1,5,3", "1.5,3", "٣.٥", "1_", "_1","1__0", "0b1","1j","1d5","1f", "1 2", "1\t", "1e309", "-1e309", "0e0","1E400"]:
    r = p.num(s)
    print(repr(s), '->', type(r).__name__, repr(r))
