From Coq Require Import List Arith Bool Lia.
Import ListNotations.

Inductive stmt :=
| Skip | MayRaise | Return | Break
| Open (h:nat) | Close (h:nat)
| Seq (a b:stmt) | If (a b:stmt) | Loop (b:stmt)
| TryFinally (b f:stmt) | TryExcept (b h:stmt).

Inductive outcome := ONorm | ORaise | ORet | OBrk.
Definition st := list nat.   (* owned handles currently open *)
Definition rm (h:nat) (s:st) : st := filter (fun x => negb (x =? h)) s.

Inductive exec : stmt -> st -> outcome -> st -> Prop :=
| XSkip s : exec Skip s ONorm s
| XMayN s : exec MayRaise s ONorm s
| XMayR s : exec MayRaise s ORaise s
| XRet s : exec Return s ORet s
| XBrk s : exec Break s OBrk s
| XOpenN h s : exec (Open h) s ONorm (h::s)
| XOpenR h s : exec (Open h) s ORaise s
| XCloseN h s : exec (Close h) s ONorm (rm h s)
| XCloseR h s : exec (Close h) s ORaise (rm h s)
| XSeqN a b s s1 o s2 : exec a s ONorm s1 -> exec b s1 o s2 -> exec (Seq a b) s o s2
| XSeqX a b s o s1 : exec a s o s1 -> o <> ONorm -> exec (Seq a b) s o s1
| XIfL a b s o s1 : exec a s o s1 -> exec (If a b) s o s1
| XIfR a b s o s1 : exec b s o s1 -> exec (If a b) s o s1
| XLoop0 b s : exec (Loop b) s ONorm s
| XLoopN b s s1 o s2 : exec b s ONorm s1 -> exec (Loop b) s1 o s2 -> exec (Loop b) s o s2
| XLoopB b s s1 : exec b s OBrk s1 -> exec (Loop b) s ONorm s1
| XLoopX b s o s1 : exec b s o s1 -> o = ORaise \/ o = ORet -> exec (Loop b) s o s1
| XFinN b f s o s1 s2 : exec b s o s1 -> exec f s1 ONorm s2 -> exec (TryFinally b f) s o s2
| XFinX b f s o s1 o2 s2 : exec b s o s1 -> exec f s1 o2 s2 -> o2 <> ONorm -> exec (TryFinally b f) s o2 s2
| XExcP b h s o s1 : exec b s o s1 -> exec (TryExcept b h) s o s1      (* incl. uncaught raise *)
| XExcH b h s s1 o s2 : exec b s ORaise s1 -> exec h s1 o s2 -> exec (TryExcept b h) s o s2.

(* abstract result: possibly-open sets per exit kind; None = that exit cannot happen *)
Record res := { rN : option st; rR : option st; rT : option st; rB : option st }.
Definition get (r:res) (o:outcome) := match o with ONorm => rN r | ORaise => rR r | ORet => rT r | OBrk => rB r end.
Definition oj (a b:option st) : option st :=
  match a, b with None, x => x | x, None => x | Some x, Some y => Some (x ++ y) end.
Definition rj (a b:res) : res := {| rN := oj (rN a) (rN b); rR := oj (rR a) (rR b); rT := oj (rT a) (rT b); rB := oj (rB a) (rB b) |}.
Definition none : res := {| rN := None; rR := None; rT := None; rB := None |}.
Definition obind (a:option st) (f:st -> res) : res := match a with None => none | Some x => f x end.
Definition subl (a b:st) : bool := forallb (fun x => existsb (Nat.eqb x) b) a.

Definition afin (anf : st -> option res) (x : option st) : option res :=
  match x with None => Some none | Some A1 => anf A1 end.
Definition ab4 (k : res -> option st) (fN fR fT fB : res) : option st :=
  oj (oj (k fN) (k fR)) (oj (k fT) (k fB)).

Fixpoint an (s:stmt) (A:st) : option res :=
  match s with
  | Skip => Some {| rN := Some A; rR := None; rT := None; rB := None |}
  | MayRaise => Some {| rN := Some A; rR := Some A; rT := None; rB := None |}
  | Return => Some {| rN := None; rR := None; rT := Some A; rB := None |}
  | Break => Some {| rN := None; rR := None; rT := None; rB := Some A |}
  | Open h => Some {| rN := Some (h::A); rR := Some A; rT := None; rB := None |}
  | Close h => Some {| rN := Some (rm h A); rR := Some (rm h A); rT := None; rB := None |}
  | Seq a b =>
      match an a A with None => None | Some ra =>
        match rN ra with
        | None => Some ra
        | Some A1 => match an b A1 with None => None | Some rb =>
            Some {| rN := rN rb; rR := oj (rR ra) (rR rb); rT := oj (rT ra) (rT rb); rB := oj (rB ra) (rB rb) |} end
        end end
  | If a b => match an a A, an b A with Some ra, Some rb => Some (rj ra rb) | _, _ => None end
  | Loop b =>
      (* require A itself to be a loop invariant: body's normal exit stays within A *)
      match an b A with None => None | Some rb =>
        let okN := match rN rb with None => true | Some A1 => subl A1 A end in
        if okN then Some {| rN := oj (Some A) (rB rb); rR := rR rb; rT := rT rb; rB := None |} else None end
  | TryFinally b f =>
      match an b A with None => None | Some rb =>
        match afin (an f) (rN rb), afin (an f) (rR rb), afin (an f) (rT rb), afin (an f) (rB rb) with
        | Some fN, Some fR, Some fT, Some fB =>
            Some {| rN := rN fN; rR := oj (rN fR) (ab4 rR fN fR fT fB);
                    rT := oj (rN fT) (ab4 rT fN fR fT fB); rB := oj (rN fB) (ab4 rB fN fR fT fB) |}
        | _, _, _, _ => None end end
  | TryExcept b h =>
      match an b A with None => None | Some rb =>
        match rR rb with
        | None => Some rb
        | Some A1 => match an h A1 with None => None | Some rh => Some (rj rb rh) end
        end end
  end.

Definition leak_free (s:stmt) : bool :=
  match an s [] with
  | Some r => match rN r, rR r, rT r with
              | (None | Some []), (None | Some []), (None | Some []) => true | _, _, _ => false end
  | None => false end.

(* examples: lasio's write() today vs repaired *)
Definition write_today := Seq (If (Open 0) Skip) (Seq MayRaise (Close 0)).
Definition write_fixed := Seq (If (Open 0) Skip) (TryFinally MayRaise (Close 0)).
Definition read_today := TryFinally (Seq (Open 0) (Seq MayRaise (Loop (Seq MayRaise (If Break Skip))))) (Close 0).
Eval vm_compute in (leak_free write_today, leak_free write_fixed, leak_free read_today).
