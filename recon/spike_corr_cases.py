import sys, random, re
R = random.Random(7)
def Q(s): return '"' + s.replace('"','""') + '"'
pads = ["", " ", "    ", " ", "  "]
mn = ["DEPT","A B","X1","GR_1","a","A-B"]; un = ["","M","US/M","hh:mm","G/CM3","K.M","%","1000lbf"]
va = ["","12.5","hello world","A9-16-49-20W3M","x (y) [z]","23:15 23-JAN-2001","-999.25"]; de = ["","DEPTH","1  DEPTH","Time Logger","x (y)","ends."]
N = int(sys.argv[1]); out = []
for i in range(N):
    m,u,v,d = R.choice(mn),R.choice(un),R.choice(va),R.choice(de); p=[R.choice(pads) for _ in range(6)]
    if p[2]=="" and v: p[2]=" "
    line = (p[0]+m+p[1]+"."+u+p[2]+v+p[3]+":"+p[4]+d+p[5]).strip()
    g = re.match(r"\.?(?P<name>[^.]*)\." + r"(?P<unit>([0-9]+\s)?[^\s]*)" + r"(?P<value>.*):" + r"(?P<descr>.*)", line).groupdict()
    out.append("(%s, [%s;%s;%s;%s])" % (Q(line), Q(g['name']), Q(g['unit']), Q(g['value']), Q(g['descr'])))
print("Require Import Rx. From Coq Require Import List NArith Bool Ascii String. Import ListNotations. Open Scope string_scope.")
print("Definition cases : list (string * list string) := [")
print(";\n".join(out)); print("].")
print("""Definition dec (s:string) : str := map (fun a => N_of_ascii a) (list_ascii_of_string s).
Definition obs (s:str) : list str :=
  match re_match pat s with
  | Some caps => let g n := match find (fun p => Nat.eqb (fst p) n) caps with Some p => snd p | None => [] end in [g 0%nat; g 1%nat; g 2%nat; g 3%nat]
  | None => [] end.
Definition streq (a b:str) := if list_eq_dec N.eq_dec a b then true else false.
Fixpoint mism (i:nat) (cs:list (string * list string)) : list nat :=
  match cs with [] => [] | (x,e)::t => let o := obs (dec x) in if forallb (fun p => streq (fst p) (dec (snd p))) (combine o e) && Nat.eqb (List.length o) (List.length e) then mism (S i) t else i :: mism (S i) t end.
Eval vm_compute in mism 0 cases.""")
