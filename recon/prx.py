import sys; sys.path.insert(0,'/repo')
import ast, re, inspect
try: import re._parser as sp
except ImportError: import sre_parse as sp
import lasio.reader as R, lasio.defaults as D
src = inspect.getsource(R.configure_metadata_patterns)
tree = ast.parse(src)
pats = {}
for n in ast.walk(tree):
    if isinstance(n, ast.Assign) and isinstance(n.value, ast.Constant) and isinstance(n.value.value, str):
        pats[n.targets[0].id] = n.value.value
    if isinstance(n, ast.Assign) and isinstance(n.value, ast.JoinedStr): print('joined', n.targets[0].id)
    if isinstance(n, ast.Assign) and isinstance(n.value, ast.Tuple): print('tuple', n.targets[0].id)
# implicit concatenation (value_with_time_colon_re uses parenthesised string) is a Constant too
pats['sow_regex'] = R.sow_regex.pattern
pats['search_dd'] = r"[^ ]\.\."
for k,v in D.READ_SUBS.items(): pats['READ_SUBS:'+k] = v[0][0].pattern
ops=set()
def walk(t, depth=0):
    for op, av in t:
        ops.add(str(op))
        if str(op) in ('SUBPATTERN',): walk(av[3], depth+1)
        elif str(op) in ('MAX_REPEAT','MIN_REPEAT'):
            lo,hi,sub = av; ops.add('%s(%s,%s) over %s' % (op, lo, 'inf' if hi==sp.MAXREPEAT else hi, [str(o) for o,_ in sub])); walk(sub, depth+1)
        elif str(op)=='BRANCH':
            for b in av[1]: walk(b, depth+1)
        elif str(op) in ('ASSERT','ASSERT_NOT'):
            ops.add('%s dir=%s' % (op, av[0])); walk(av[1], depth+1)
        elif str(op)=='IN':
            for o,a in av: ops.add('IN:'+str(o)+(':'+str(a) if str(o)=='CATEGORY' else ''))
for k,v in pats.items():
    print(k, repr(v)); walk(sp.parse(v))
print(sorted(ops))
