import sys; sys.path.insert(0,'/repo')
import logging; logging.disable(logging.CRITICAL)
import io, random
import lasio, numpy as np
def H(null, wrap="NO"): return "~V\nVERS. 2.0 :\nWRAP. %s :\n~W\nNULL. %s :\n~C\nDEPT.M :\nA.M :\nB.M :\n" % (wrap,null)
def rd(t, **kw):
    try:
        r = lasio.read(t, **kw); return np.isnan(r.data.astype(float)).astype(int).tolist(), [c.data.dtype.kind for c in r.curves]
    except Exception as e: return ('EXC', type(e).__name__, str(e)[:90])
for null, data in [("-999.25", "-999.25 -999.25 -999.2500\n2 -9.9925E2 -999.250001\n"),
                   ("-999.2500", "1 -999.25 5\n-999.25 3 4\n"),
                   ("-9.9925E2", "1 -999.25 5\n"),
                   ("0", "0 0 0.0\n1 -0.0 1\n"),
                   ("999", "999 999 999.0\n1 9.99e2 +999\n"),
                   ("-9999", "-9999 -9999 -9999.0\n1 2 -9999\n"),
                   ("1e30", "1 1e30 1E+30\n2 3 4\n"),
                   ("-999.25", "1 -999.25 txt\n2 3 -999.25\n"),
                   ]:
    for eng in ('numpy','normal'):
        for pol in ('strict','none'):
            print(null, repr(data), eng, pol, rd(H(null)+"~A\n"+data, engine=eng, null_policy=pol))
# NULL given as string non-numeric / missing NULL
print(rd("~V\nVERS. 2.0 :\nWRAP. NO :\n~W\nSTRT.M 1:\n~C\nDEPT.M :\nA.M :\n~A\n1 -999.25\n2 3\n"))
