import sys; sys.path.insert(0,'/repo')
import logging; logging.disable(logging.CRITICAL)
import lasio, numpy as np
H = "~V\nVERS. 2.0 :\nWRAP. NO :\n~W\nNULL. -999.25 :\n~C\nDEPT.M :\nA.M :\nB.M :\n"
def both(text):
    out = []
    for eng in ('numpy','normal'):
        try:
            r = lasio.read(text, engine=eng); out.append([c.data.tolist() for c in r.curves])
        except Exception as e: out.append(('EXC', type(e).__name__, str(e)[:80]))
    return out
for k,t in {'single row + trailing blank': H+"~A\n1 2 3\n\n", 'single row + trailing comment': H+"~A\n1 2 3\n#x\n", 'single row no nl': H+"~A\n1 2 3", 'blank then single row': H+"~A\n\n1 2 3\n", 'single col single row + blank': "~V\nVERS. 2.0 :\nWRAP. NO :\n~W\nNULL. -999.25 :\n~C\nDEPT.M :\n~A\n1\n\n",
  'two rows where max_rows==1? (A then P, 2 rows)': H+"~A\n1 2 3\n4 5 6\n~P\n", 'inline comment': H+"~A\n1 2 3 # c\n4 5 6\n", 'quoted': H+"~A\n1 2 \"3\"\n4 5 6\n", 'ragged': H+"~A\n1 2 3\n4 5\n6 7 8 9\n", 'comma decimal': H+"~A\n1,5 2 3\n4 5 6\n", 'runon': H+"~A\n1 2-3\n4 5 6\n", 'nan token': H+"~A\n1 NaN 3\n4 nan 6\n", 'inf':H+"~A\n1 inf 3\n4 -inf 6\n", 'hex/underscore': H+"~A\n1 1_0 3\n4 5 6\n", 'plus': H+"~A\n+1 +.5 5.\n4 5e0 6E-1\n", '1d5': H+"~A\n1 1d5 3\n4 5 6\n", 'ctrlZ': H+"~A\n1 2 3\n4 5 6\n\x1a\n"}.items():
    a,b = both(t); print('OK  ' if a==b else 'DIFF', k, a, '' if a==b else b)
