import sys; sys.path.insert(0,'/repo')
import logging; logging.disable(logging.CRITICAL)
import io, random
import lasio, numpy as np
from lasio import HeaderItem, CurveItem, LASFile
def mk(well_extra=(), params=(), curves=(), version_extra=()):
    las = LASFile()
    for it in well_extra: las.well.append(HeaderItem(*it))
    for it in params: las.params.append(HeaderItem(*it))
    las.append_curve("DEPT", np.array([1.,2.,3.]), unit="m", descr="depth")
    for it in curves: las.append_curve(it[0], np.array([1.,2.,3.]), unit=it[1], value=it[2], descr=it[3])
    return las
def rt(las, version, **kw):
    s = io.StringIO(); las.write(s, version=version, **kw); t = s.getvalue()
    return t, lasio.read(t, mnemonic_case='preserve')
def show(sec): return [(i.original_mnemonic,i.unit,i.value,i.descr) for i in sec]
# 1. widest unit+value with empty value
las = mk(well_extra=[("LONGU","VERYLONGUNITXXXXXXXXXXXXXXXXX","","d")])
t, r = rt(las, 2.0); 
print([l for l in t.splitlines() if l.startswith("LONGU")]); print(show(r.well)[-1])
las = mk(params=[("P1","DEGC","","bht"),("P2","","x","y")])
t, r = rt(las, 2.0); print(t[t.find('~Params'):t.find('~Other')]); print(show(r.params))
# None value
las = mk(params=[("P1","",None,"bht")]); t,r = rt(las,2.0); print(show(r.params))
# long mnemonic / blank mnemonic
las = mk(params=[("","","v","blank mnem"),("AVERYLONGMNEMONICNAME","m",1.5,"d")]); t,r = rt(las,2.0); print(t[t.find('~Params'):t.find('~Other')]); print(show(r.params), r.params.keys())
# curves with blank mnemonics
las = mk(curves=[("", "m","","x"),("","","","")]); t,r = rt(las,2.0); print(t[t.find('~Curve'):t.find('~Params')]); print(show(r.curves), r.curves.keys())
# 1.2 well
las = mk(well_extra=[("FOO","","val","desc"),("strt","m",1.0,"lower strt"),("Null","",-1,"mixed")]); t,r = rt(las,1.2); print(t[t.find('~Well'):t.find('~Curve')]); print(show(r.well))
