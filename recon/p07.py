import sys; sys.path.insert(0,'/repo')
import logging; logging.disable(logging.CRITICAL)
import io, random
import lasio, numpy as np
bad=[]
for d in range(0,6):
  for c in range(1,6):
    for r in (1,2,3,22):
      for eng in ('numpy','normal'):
        for wrap in ('NO','YES'):
          t = "~V\nVERS. 2.0 :\nWRAP. %s :\n~W\nNULL. -999.25 :\n~C\n" % wrap + "".join("C%d.M : d%d\n"%(j,j) for j in range(d)) + "~A\n"
          if wrap=='NO':
              t += "".join(" ".join(str((i+1)*100+j) for j in range(c))+"\n" for i in range(r))
          else:
              for i in range(r):
                  toks=[str((i+1)*100+j) for j in range(c)]
                  t += toks[0]+"\n" + ("\n".join(" ".join(toks[1:][k:k+2]) for k in range(0,len(toks)-1,2)) + "\n" if len(toks)>1 else "")
          try:
              l = lasio.read(t, engine=eng)
              lens = [len(x.data) for x in l.curves]
              exp_n = max(d,c)
              ok = len(l.curves)==exp_n and all(n==r for n in lens)
              if ok:
                  for j in range(exp_n):
                      for i in range(r):
                          v = l.curves[j].data[i]
                          if j<c: ok = ok and v==(i+1)*100+j
                          else: ok = ok and np.isnan(v)
                  ok = ok and [x.descr for x in l.curves[:d]]==["d%d"%j for j in range(d)]
              if not ok: bad.append((d,c,r,eng,wrap,len(l.curves),lens[:6]))
          except Exception as e:
              bad.append((d,c,r,eng,wrap,'EXC',type(e).__name__,str(e)[:70]))
print(len(bad))
for b in bad[:80]: print(b)
