import sys; sys.path.insert(0,'/repo')
import logging; logging.disable(logging.CRITICAL)
import random, itertools
from lasio.reader import read_header_line
R = random.Random(2)
def fmt(m,u,v,d,p):
    return p[0]+m+p[1]+"."+u+p[2]+v+p[3]+":"+p[4]+d+p[5]
pads = ["", " ", "    ", "\t", " \t "]
mn = ["DEPT","A B","X1","GR_1","Ünit","a","A-B","A/B","A(B)","A'B","A  B C", "1A", "9"]
un = ["","M","US/M","hh:mm","G/CM3","K.M","ohm.m","M:S","%","'","1000lbf","a.b.c","m[2]","µs","1/s","m3/m3","0.1IN","1.5m", "m:", ":m", "-", "--"]
va = ["","12.5","hello world","A9-16-49-20W3M","1 2 3","a.b","x (y) [z]",'"q"',"5.","0","-999.25","a..b", ".5", ". .", "'", "#x", "~x"]
tv = ["14:00","14:00:32","00:00","9:30","23:59:59","23:15 23-JAN-2001","12-JAN-2001 04:05", "20:00","21:30", "24:00","19:45","13:05:00 x", "hh:mm", "HH:MM", "03:04"]
de = ["","DEPTH","1  DEPTH","Time Logger","a.b.c","x (y)", "ends.", "a..b", "#", "~", ".."]
dc = ["Time: At Bottom","a:b", "a: b", "Time Logger: At Bottom: x", "12:30 is the time", "x 23:15"]
secs = [None,"Version","Well","Curves","Parameter","~Custom"]
fails = {}
n=0
def run(m,u,v,d,sec,p):
    global n
    line = fmt(m,u,v,d,p); n+=1
    try:
        r = read_header_line(line, section_name=sec)
        got = (r['name'],r['unit'],r['value'],r['descr'])
    except Exception as e:
        got = ('EXC',type(e).__name__)
    exp = (m.strip(),u,v.strip(),d.strip())
    if got!=exp:
        key=(sec, 'U='+u if ('.' in u or ':' in u or u[:1].isdigit()) else '', 'timeval' if ':' in v else '', 'colon-in-desc' if ':' in d else '', 'V='+v if '.' in v and sec=='Curves' else '')
        fails.setdefault(key,[]).append((line,exp,got))
for m in mn:
  for u in un:
    for v in va:
      for d in de:
        for sec in secs:
          p = [R.choice(pads) for _ in range(6)]
          if p[2]=="" and v: p[2]=" "
          run(m,u,v,d,sec,p)
# Parameter: time values and colon descriptions (separator colon set off by blanks)
for m in mn[:4]:
  for u in un:
    for v in va[:6]+tv:
      for d in de[:4]+dc:
          p = [R.choice(pads) for _ in range(6)]
          if p[2]=="": p[2]=" "
          if ':' in d: p[3]=R.choice([" ","   "," \t "]); p[4]=R.choice([" ","  "])
          run(m,u,v,d,"Parameter",p)
# time values outside Parameter with plain descriptions: last colon separates
print(n, sum(len(v) for v in fails.values()))
for k,v in sorted(fails.items(), key=lambda kv:-len(kv[1])):
    print(k,len(v)); 
    for x in v[:3]: print('    ',x)
