import sys; sys.path.insert(0,'/repo')
import logging; logging.disable(logging.CRITICAL)
import io, os, pathlib, tempfile
import lasio, numpy as np
def canon(r):
    d = {}
    for k,s in r.sections.items():
        d[k] = s if isinstance(s,str) else [(i.mnemonic,i.original_mnemonic,i.unit,str(i.value),i.descr) for i in s]
    return d, (repr(r.data.tolist()) if len(r.curves) else None)
T = "~V\nVERS. 2.0 : v\nWRAP. NO : w\n~W\nNULL. -999.25 : n\nSTRT.m 1 : start\nCOMP. Société Générale ñ : compañía «x»\n~C\nDEPT.m : depth\nA.µs : Ångström\n~P\nX. 1 : px\n~O\nfree téxt ü\n~A\n1 2\n3 -999.25\n"
base = canon(lasio.read(T))
tmp = tempfile.mkdtemp(dir='/tmp/probe')
res = {}
for enc in ['utf-8','utf-8-sig','utf-16','utf-16-le','utf-16-be','cp1251','latin-1','cp1252']:
    for nl in ['\n','\r\n','\r']:
        try:
            b = T.replace('\n',nl).encode(enc)
        except UnicodeEncodeError as e:
            res[(enc,repr(nl))]='unencodable'; continue
        p = os.path.join(tmp,'f.las'); open(p,'wb').write(b)
        for ch in ['str','Path','fileobj']:
            for kw in [dict(encoding=enc), dict(encoding=enc, autodetect_encoding=False)] + ([dict()] if enc=='utf-8-sig' else []):
                try:
                    if ch=='str': r = lasio.read(p, **kw)
                    elif ch=='Path': r = lasio.read(pathlib.Path(p), **kw)
                    else:
                        with open(p, encoding=enc, newline=None) as f: r = lasio.read(f)
                    ok = canon(r)==base
                    if not ok:
                        c = canon(r)
                        diff = [k for k in base[0] if c[0].get(k)!=base[0][k]]
                        res[(enc,repr(nl),ch,str(kw))] = ('DIFF', diff, c[1]==base[1])
                except Exception as e:
                    res[(enc,repr(nl),ch,str(kw))] = ('EXC',type(e).__name__,str(e)[:80])
for k,v in res.items(): print(k,v)
print('done; base ok')
