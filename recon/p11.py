import sys; sys.path.insert(0,'/repo')
import logging; logging.disable(logging.CRITICAL)
import io, os, glob
import lasio, numpy as np
def canon(r):
    d = {}
    for k,s in r.sections.items():
        d[k] = s if isinstance(s,str) else [(i.mnemonic,i.original_mnemonic,i.unit,(float(i.value) if isinstance(i.value,(int,float,np.number)) else i.value),i.descr) for i in s]
    try: dat = repr(np.vstack([c.data for c in r.curves]).T.tolist())
    except Exception as e: dat = 'ERR'+str(e)[:40]
    return d, dat
files = sorted(glob.glob('/repo/tests/examples/*.las')+glob.glob('/repo/tests/examples/1.2/*.las')+glob.glob('/repo/tests/examples/2.0/*.las'))
for f in files:
    name = f.replace('/repo/tests/examples/','')
    try: r0 = lasio.read(f)
    except Exception as e: print(name, 'unreadable', type(e).__name__); continue
    for ver in (None, 1.2, 2.0):
      for wrap in (None, True):
        try:
            s = io.StringIO(); r0b = lasio.read(f); r0b.write(s, version=ver, wrap=wrap); t1 = s.getvalue()
        except Exception as e: print(name, ver, wrap, 'unwritable', type(e).__name__, str(e)[:60]); continue
        try:
            r1 = lasio.read(t1)
            s = io.StringIO(); c1 = canon(r1); r1.write(s, version=ver, wrap=wrap); t2 = s.getvalue()
            r2 = lasio.read(t2); c2 = canon(r2)
            if c1 != c2:
                diffs = [k for k in c1[0] if c1[0][k] != c2[0].get(k)]
                det = []
                for k in diffs:
                    if isinstance(c1[0][k], str): det.append((k, c1[0][k][:40], c2[0][k][:40]))
                    else:
                        for a,b in zip(c1[0][k], c2[0][k]):
                            if a!=b: det.append((k,a,b)); break
                print(name, ver, wrap, 'DRIFT', diffs, 'data' if c1[1]!=c2[1] else '', det[:2])
            c0 = canon(r0)
            if c0[1] != c1[1]:
                print(name, ver, wrap, 'DATA CHANGED on first cycle', len(c0[1]), len(c1[1]))
        except Exception as e:
            print(name, ver, wrap, 'reread EXC', type(e).__name__, str(e)[:80])
