import sys; sys.path.insert(0,'/repo')
import logging; logging.disable(logging.CRITICAL)
import io, copy, pickle, json, csv, os
import lasio, numpy as np
from lasio import HeaderItem, CurveItem, SectionItems, LASFile
def strict(s): return json.loads(s, parse_constant=lambda c: (_ for _ in ()).throw(ValueError('const '+c)))
print('--- C18 json default LASFile')
try: print(strict(LASFile().to_json())['metadata']['Well'])
except Exception as e: print('EXC', type(e).__name__, e)
T = "~V\nVERS. 2.0 : v\nWRAP. NO : w\n~W\nNULL. -999.25 : n\nSTRT.M 1 : s\nSTOP.M 3 : s\nSTEP.M 1 : s\nWELL. W1 : w\n~C\nDEPT.M : d\nA.M : a\n~P\nX. 1 : px\nY. 1.5 : py\n~A\n1 2\n2 -999.25\n3 4\n"
las = lasio.read(T)
try: j = strict(las.to_json()); print(j['metadata']['Well'], j['metadata']['Parameter'], j['data'])
except Exception as e: print('EXC', type(e).__name__, e)
print('--- text curve')
T2 = T.replace("1 2\n2 -999.25\n3 4\n", "1 abc\n2 def\n3 ghi\n")
l2 = lasio.read(T2); print([c.data.dtype for c in l2.curves])
for nm, f in [('json', lambda: l2.to_json()[:80]), ('csv', lambda: (lambda s:(l2.to_csv(s), s.getvalue())[1])(io.StringIO())), ('xlsx', lambda: l2.to_excel('/tmp/probe/x.xlsx')), ('df', lambda: l2.df().to_dict())]:
    try: print(nm, f())
    except Exception as e: print(nm, 'EXC', type(e).__name__, str(e)[:80])
print('--- csv of float')
s=io.StringIO(); las.to_csv(s); print(repr(s.getvalue()))
s=io.StringIO(); las.to_csv(s, units_loc='[]'); print(repr(s.getvalue()))
s=io.StringIO(); las.to_csv(s, mnemonics=False, units=True); print(repr(s.getvalue()))
s=io.StringIO(); las.to_csv(s, mnemonics=False, units=True, units_loc='()'); print(repr(s.getvalue()))
print('--- excel')
las.to_excel('/tmp/probe/y.xlsx'); import openpyxl; wb = openpyxl.load_workbook('/tmp/probe/y.xlsx'); print([[c.value for c in r] for r in wb['Curves'].rows]); print([[c.value for c in r] for r in wb['Header'].rows][:8])
print('--- df roundtrip')
df = las.df(); l3 = lasio.read(T); l3.set_data_from_df(df); print(l3.keys(), l3.data.tolist())
lasd = lasio.read('/repo/tests/examples/mnemonic_duplicate.las'); df = lasd.df(); print(list(df.columns), df.index.name); lasd.set_data_from_df(df); print([(c.mnemonic,c.original_mnemonic) for c in lasd.curves])
print('--- empty file exports')
e = LASFile()
for nm, f in [('csv', lambda: (lambda s:(e.to_csv(s), s.getvalue())[1])(io.StringIO())), ('xlsx', lambda: e.to_excel('/tmp/probe/z.xlsx')), ('df', lambda: e.df())]:
    try: print(nm, repr(f()))
    except Exception as ex: print(nm, 'EXC', type(ex).__name__, str(ex)[:80])
print('--- depth units')
for u in ['M','m','FT','ft','F','feet','Feet','.1IN','0.1in','метер','м','METRES','metres','km','']:
    t = T.replace('STRT.M','STRT.'+u).replace('STOP.M','STOP.'+u).replace('STEP.M','STEP.'+u).replace('DEPT.M','DEPT.'+u)
    try:
        l = lasio.read(t); 
        try: dm, df_ = l.depth_m, l.depth_ft; r = np.allclose(dm, df_*0.3048)
        except Exception as ex: r = type(ex).__name__
        print(repr(u), l.index_unit, r)
    except Exception as ex: print(repr(u), 'EXC', type(ex).__name__, ex)
t = T.replace('STRT.M','STRT.FT'); l = lasio.read(t); print('conflict', l.index_unit)
