(* PyLib.NumLit — which strings int()/float() (np.int64/np.float64 of a str) accept,
   the exact decimal value of a literal, int64 range and float64 overflow tests.
   Exact for strings whose digits are ASCII (the callers guard for that).  Definitions only. *)
From Coq Require Import List NArith ZArith Bool String.
Import ListNotations.
Require Import PyStr.
Open Scope N_scope.

(* --- digit runs ------------------------------------------------------------------ *)
Fixpoint all_digits (s : str) : bool :=
  match s with [] => true | c :: s' => is_digit c && all_digits s' end.
Definition digits1 (s : str) : bool :=
  match s with [] => false | _ => all_digits s end.

(* digits with single underscores between digits (PEP 515), non-empty *)
Fixpoint udigits_tail (s : str) (prev_us : bool) : bool :=
  match s with
  | [] => negb prev_us
  | c :: s' =>
      if is_digit c then udigits_tail s' false
      else if c =? ch_us then negb prev_us && udigits_tail s' true
      else false
  end.
Definition udigits (s : str) : bool :=
  match s with
  | c :: s' => is_digit c && udigits_tail s' false
  | [] => false
  end.

Fixpoint digits_val (s : str) (acc : Z) : Z :=
  match s with
  | [] => acc
  | c :: s' => if is_digit c then digits_val s' (10 * acc + Z.of_N (c - 48))%Z
               else digits_val s' acc          (* underscores are skipped *)
  end.

Definition split_sign (s : str) : bool * str :=   (* (negative?, rest) *)
  match s with
  | c :: s' => if c =? ch_minus then (true, s') else if c =? ch_plus then (false, s') else (false, s)
  | [] => (false, [])
  end.

(* --- int(str) --------------------------------------------------------------------- *)
Definition py_int_lit (s : str) : option Z :=
  let (neg, body) := split_sign (strip s) in
  if udigits body then Some (if neg then (- digits_val body 0)%Z else digits_val body 0)
  else None.

Definition in_int64 (z : Z) : bool := ((- 2 ^ 63 <=? z) && (z <? 2 ^ 63))%Z.

(* --- float(str): decimal forms only; the words inf/infinity/nan are recognised apart -- *)
Fixpoint span_by (f : char -> bool) (s : str) : str * str :=
  match s with
  | c :: s' => if f c then let (a, b) := span_by f s' in (c :: a, b) else ([], s)
  | [] => ([], [])
  end.
Definition is_dig_or_us (c : char) : bool := is_digit c || (c =? ch_us).
Definition is_e (c : char) : bool := (c =? 101) || (c =? 69).

Record declit := mkdec { d_neg : bool; d_int : str; d_frac : str; d_exp : Z }.

(* mantissa: udigits [ "." [udigits] ] | "." udigits ; then optional exponent *)
Definition parse_exp (s : str) : option Z :=
  match s with
  | [] => Some 0%Z
  | c :: s' =>
      if is_e c then
        let (neg, body) := split_sign s' in
        if udigits body then Some (if neg then (- digits_val body 0)%Z else digits_val body 0)
        else None
      else None
  end.

Definition py_float_dec (s : str) : option declit :=
  let (neg, body) := split_sign (strip s) in
  let (ip, r1) := span_by is_dig_or_us body in
  match r1 with
  | c :: r2 =>
      if c =? ch_dot then
        let (fp, r3) := span_by is_dig_or_us r2 in
        let ok_i := match ip with [] => true | _ => udigits ip end in
        let ok_f := match fp with [] => true | _ => udigits fp end in
        let nonempty := match ip, fp with [], [] => false | _, _ => true end in
        if ok_i && ok_f && nonempty then
          match parse_exp r3 with Some e => Some (mkdec neg ip fp e) | None => None end
        else None
      else
        if udigits ip then
          match parse_exp r1 with Some e => Some (mkdec neg ip [] e) | None => None end
        else None
  | [] => if udigits ip then Some (mkdec neg ip [] 0%Z) else None
  end.

Definition lower_ascii_str (s : str) : str := List.map ascii_lower s.
Definition py_float_word (s : str) : bool :=     (* inf / infinity / nan, any case, signed *)
  let (_, body) := split_sign (strip s) in
  let b := lower_ascii_str body in
  str_eqb b (s2l "inf"%string) || str_eqb b (s2l "infinity"%string) || str_eqb b (s2l "nan"%string).

(* exact value = mant * 10^e10 *)
Definition only_digits (s : str) : str := List.filter is_digit s.
Definition dec_mant (d : declit) : Z := digits_val (d_int d ++ d_frac d) 0.
Definition dec_e10 (d : declit) : Z := (d_exp d - Z.of_nat (List.length (only_digits (d_frac d))))%Z.

Fixpoint lstrip_zeros (s : str) : str :=
  match s with c :: s' => if c =? 48 then lstrip_zeros s' else s | [] => [] end.
Definition ndigits (d : declit) : Z :=
  Z.of_nat (List.length (lstrip_zeros (only_digits (d_int d ++ d_frac d)))).

(* float64 overflow: |v| >= 2^1024 - 2^970 rounds to infinity (round-half-even) *)
Definition ovf_threshold : Z := (2 ^ 1024 - 2 ^ 970)%Z.
Definition dec_overflows (d : declit) : bool :=
  let mnt := dec_mant d in
  if (mnt =? 0)%Z then false else
  let n := ndigits d in
  let e := dec_e10 d in
  if (n + e <=? 308)%Z then false
  else if (309 <=? n - 1 + e)%Z then true
  else (* -? bounded: 308 - n < e < 310 - n + ... *)
    if (0 <=? e)%Z then (ovf_threshold <=? mnt * 10 ^ e)%Z
    else (ovf_threshold * 10 ^ (- e) <=? mnt)%Z.

Definition dec_is_zero (d : declit) : bool := (dec_mant d =? 0)%Z.
