(* PyLib.Regex — backtracking matcher with CPython `re` semantics for the construct
   subset lasio uses.  ASTs are produced by translators/regexes.py from CPython's own
   parse of each pattern string (Gen/Regexes.v).  Definitions only. *)
From Coq Require Import List NArith Bool.
Import ListNotations.
Require Import PyStr.
Open Scope N_scope.

Inductive cls :=
| CAny                       (* .  : anything but \n *)
| CChar (c : char)
| CRange (a b : char)
| CSpace | CDigit
| CNot (c : cls)
| COr (a b : cls).

Fixpoint cmatch (k : cls) (c : char) : bool :=
  match k with
  | CAny => negb (c =? 10)
  | CChar x => c =? x
  | CRange a b => (a <=? c) && (c <=? b)
  | CSpace => is_space c
  | CDigit => is_digit c
  | CNot k => negb (cmatch k c)
  | COr a b => cmatch a c || cmatch b c
  end.

Inductive re :=
| Eps
| Cls (k : cls)
| Seq (a b : re)
| Alt (a b : re)
| Opt (a : re)                         (* greedy ?           *)
| Star (k : cls)                       (* greedy * over a class *)
| Plus (k : cls)                       (* greedy + over a class *)
| LStar (k : cls)                      (* lazy *? over a class  *)
| Grp (n : nat) (a : re)               (* capturing group n *)
| NotBehind (alts : list (list cls))   (* (?<!a|b|c) fixed-width class strings *)
| NotAhead (alts : list (list cls))    (* (?!a|b|c) *)
| AtEnd                                (* $  (no MULTILINE) *)
| AtEndStr.                            (* \Z *)

(* matcher state: reversed consumed prefix (whole subject to the left), remaining suffix,
   captures (most recent first) *)
Record st := mkst { pre : str; rem : str; caps : list (nat * str) }.
Definition K := st -> option st.

Fixpoint prefix_cls (ks : list cls) (s : str) : bool :=
  match ks, s with
  | [], _ => true
  | k :: ks', c :: s' => cmatch k c && prefix_cls ks' s'
  | _ :: _, [] => false
  end.

Fixpoint star_g (k : cls) (p s : str) (cs : list (nat * str)) (cont : K) : option st :=
  match s with
  | c :: s' =>
      if cmatch k c then
        match star_g k (c :: p) s' cs cont with
        | Some r => Some r
        | None => cont (mkst p s cs)
        end
      else cont (mkst p s cs)
  | [] => cont (mkst p s cs)
  end.

Fixpoint star_l (k : cls) (p s : str) (cs : list (nat * str)) (cont : K) : option st :=
  match cont (mkst p s cs) with
  | Some r => Some r
  | None =>
      match s with
      | c :: s' => if cmatch k c then star_l k (c :: p) s' cs cont else None
      | [] => None
      end
  end.

Fixpoint m (r : re) (x : st) (cont : K) {struct r} : option st :=
  match r with
  | Eps => cont x
  | Cls k =>
      match rem x with
      | c :: s' => if cmatch k c then cont (mkst (c :: pre x) s' (caps x)) else None
      | [] => None
      end
  | Seq a b => m a x (fun y => m b y cont)
  | Alt a b => match m a x cont with Some r => Some r | None => m b x cont end
  | Opt a => match m a x cont with Some r => Some r | None => cont x end
  | Star k => star_g k (pre x) (rem x) (caps x) cont
  | Plus k =>
      match rem x with
      | c :: s' => if cmatch k c then star_g k (c :: pre x) s' (caps x) cont else None
      | [] => None
      end
  | LStar k => star_l k (pre x) (rem x) (caps x) cont
  | Grp n a =>
      let start := List.length (rem x) in
      m a x (fun y => cont (mkst (pre y) (rem y)
               ((n, firstn (start - List.length (rem y))%nat (rem x)) :: caps y)))
  | NotBehind alts =>
      if existsb (fun ks => prefix_cls (rev ks) (pre x)) alts then None else cont x
  | NotAhead alts =>
      if existsb (fun ks => prefix_cls ks (rem x)) alts then None else cont x
  | AtEnd => match rem x with [] => cont x | [c] => if c =? 10 then cont x else None | _ => None end
  | AtEndStr => match rem x with [] => cont x | _ => None end
  end.

Definition kdone : K := fun y => Some y.
Definition kfull : K := fun y => match rem y with [] => Some y | _ => None end.

(* re.match(r, s): anchored at the start *)
Definition re_match (r : re) (s : str) : option st := m r (mkst [] s []) kdone.
Definition re_fullmatch (r : re) (s : str) : option st := m r (mkst [] s []) kfull.

(* group n of a match, "" when it did not participate (callers that need None use group_opt) *)
Fixpoint group_opt (n : nat) (cs : list (nat * str)) : option str :=
  match cs with
  | [] => None
  | (k, v) :: cs' => if Nat.eqb k n then Some v else group_opt n cs'
  end.
Definition group (n : nat) (cs : list (nat * str)) : str :=
  match group_opt n cs with Some v => v | None => [] end.

(* re.search: try each start position left to right; [p] is the reversed text to the left *)
Fixpoint search_from (r : re) (p s : str) : option (st * str) :=
  match m r (mkst p s []) kdone with
  | Some y => Some (y, p)
  | None => match s with
            | [] => None
            | c :: s' => search_from r (c :: p) s'
            end
  end.
Definition re_search (r : re) (s : str) : bool :=
  match search_from r [] s with Some _ => true | None => false end.

(* replacement templates: literal text and \N back-references *)
Inductive tpl := TLit (s : str) | TGrp (n : nat).
Definition expand (t : list tpl) (cs : list (nat * str)) : str :=
  flat_map (fun x => match x with TLit s => s | TGrp n => group n cs end) t.

(* re.sub(r, t, s) for patterns that never match the empty string (true of every
   substitution lasio applies; an empty match is treated as "no match here").  Fuel is
   the subject length + 1: every iteration consumes at least one character. *)
Fixpoint sub_fuel (fuel : nat) (r : re) (t : list tpl) (p s : str) : str :=
  match fuel with
  | O => s
  | S f =>
      match m r (mkst p s []) kdone with
      | Some y =>
          let consumed := (List.length s - List.length (rem y))%nat in
          match consumed with
          | O => match s with [] => [] | c :: s' => c :: sub_fuel f r t (c :: p) s' end
          | _ => expand t (caps y) ++ sub_fuel f r t (pre y) (rem y)
          end
      | None => match s with [] => [] | c :: s' => c :: sub_fuel f r t (c :: p) s' end
      end
  end.
Definition re_sub (r : re) (t : list tpl) (s : str) : str :=
  sub_fuel (S (List.length s)) r t [] s.

(* re.findall(r, s) for a pattern whose groups are alternatives (the sow/sot splitters):
   each match contributes the concatenation of its groups, i.e. "".join(tuple). *)
Definition all_groups (cs : list (nat * str)) : str :=
  flat_map (fun kv => snd kv) (rev cs).
Fixpoint findall_fuel (fuel : nat) (r : re) (p s : str) : list str :=
  match fuel with
  | O => []
  | S f =>
      match m r (mkst p s []) kdone with
      | Some y =>
          let consumed := (List.length s - List.length (rem y))%nat in
          match consumed with
          | O => match s with [] => [all_groups (caps y)]
                 | c :: s' => all_groups (caps y) :: findall_fuel f r (c :: p) s' end
          | _ => all_groups (caps y) :: findall_fuel f r (pre y) (rem y)
          end
      | None => match s with [] => [] | c :: s' => findall_fuel f r (c :: p) s' end
      end
  end.
Definition re_findall_joined (r : re) (s : str) : list str :=
  findall_fuel (S (List.length s)) r [] s.
