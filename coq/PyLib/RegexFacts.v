(* PyLib.RegexFacts — the backtracking matcher succeeds exactly on the regular language
   (with look-around contexts) of its AST: soundness and completeness of [m] with respect
   to a declarative language [L], for every capture-oblivious continuation. *)
From Coq Require Import List NArith Bool Lia.
Import ListNotations.
Require Import PyStr Regex.
Open Scope N_scope.

Definition ok (o : option st) : bool := match o with Some _ => true | None => false end.

(* continuations whose success does not depend on the captures *)
Definition uni (cont : K) : Prop :=
  forall p s c1 c2, ok (cont (mkst p s c1)) = ok (cont (mkst p s c2)).

(* L r p s t : r matches s, with reversed left context p and right context t *)
Fixpoint L (r : re) (p s t : str) {struct r} : Prop :=
  match r with
  | Eps => s = []
  | Cls k => exists c, s = [c] /\ cmatch k c = true
  | Seq a b => exists s1 s2, s = s1 ++ s2 /\ L a p s1 (s2 ++ t) /\ L b (rev s1 ++ p) s2 t
  | Alt a b => L a p s t \/ L b p s t
  | Opt a => L a p s t \/ s = []
  | Star k => forallb (cmatch k) s = true
  | Plus k => s <> [] /\ forallb (cmatch k) s = true
  | LStar k => forallb (cmatch k) s = true
  | Grp _ a => L a p s t
  | NotBehind alts => s = [] /\ existsb (fun ks => prefix_cls (rev ks) p) alts = false
  | NotAhead alts => s = [] /\ existsb (fun ks => prefix_cls ks t) alts = false
  | AtEnd => s = [] /\ (t = [] \/ t = [10])
  | AtEndStr => s = [] /\ t = []
  end.

Definition succ (cont : K) (p s : str) (cs : list (nat * str)) (R : str -> str -> Prop) : Prop :=
  exists s1 s2, s = s1 ++ s2 /\ R s1 s2 /\ ok (cont (mkst (rev s1 ++ p) s2 cs)) = true.

Lemma ok_true_iff (a b : bool) : (a = true <-> b = true) -> a = b.
Proof. destruct a, b; intuition congruence. Qed.

Lemma star_g_ok k cont : forall s p cs,
  ok (star_g k p s cs cont) = true <->
  succ cont p s cs (fun s1 _ => forallb (cmatch k) s1 = true).
Proof.
  induction s as [|c s IH]; intros p cs; cbn [star_g].
  - split.
    + intros H. exists [], []. cbn. auto.
    + intros (s1 & s2 & E & H1 & H2). destruct s1; [|discriminate]. destruct s2; [|discriminate]. exact H2.
  - destruct (cmatch k c) eqn:Hc.
    + destruct (star_g k (c :: p) s cs cont) eqn:Hs.
      * split; [intros _|reflexivity].
        assert (H : ok (star_g k (c :: p) s cs cont) = true) by (rewrite Hs; reflexivity).
        apply IH in H. destruct H as (s1 & s2 & E & H1 & H2).
        exists (c :: s1), s2. cbn [forallb app rev]. rewrite Hc, H1. subst s.
        rewrite <- app_assoc. cbn [app]. auto.
      * split.
        -- intros H. exists [], (c :: s). cbn. auto.
        -- intros (s1 & s2 & E & H1 & H2). destruct s1 as [|c' s1].
           ++ cbn in E. subst s2. exact H2.
           ++ cbn [app] in E. injection E as E1 E2; subst c' s. cbn [forallb] in H1.
              apply andb_true_iff in H1 as [_ H1].
              assert (H : ok (star_g k (c :: p) (s1 ++ s2) cs cont) = true).
              { apply IH. exists s1, s2. cbn [rev] in H2. rewrite <- app_assoc in H2. auto. }
              rewrite Hs in H. discriminate.
    + split.
      * intros H. exists [], (c :: s). cbn. auto.
      * intros (s1 & s2 & E & H1 & H2). destruct s1 as [|c' s1].
        -- cbn in E. subst s2. exact H2.
        -- cbn [app] in E. injection E as E1 E2; subst c' s. cbn [forallb] in H1. rewrite Hc in H1. discriminate.
Qed.

Lemma star_l_ok k cont : forall s p cs,
  ok (star_l k p s cs cont) = true <->
  succ cont p s cs (fun s1 _ => forallb (cmatch k) s1 = true).
Proof.
  induction s as [|c s IH]; intros p cs; cbn [star_l].
  - destruct (cont (mkst p [] cs)) eqn:Hk.
    + split; [intros _|reflexivity]. exists [], []. cbn. rewrite Hk. auto.
    + split; [discriminate|]. intros (s1 & s2 & E & H1 & H2).
      destruct s1; [|discriminate]. destruct s2; [|discriminate]. cbn in H2. rewrite Hk in H2. discriminate.
  - destruct (cont (mkst p (c :: s) cs)) eqn:Hk.
    + split; [intros _|reflexivity]. exists [], (c :: s). cbn. rewrite Hk. auto.
    + destruct (cmatch k c) eqn:Hc.
      * rewrite IH. split.
        -- intros (s1 & s2 & E & H1 & H2). exists (c :: s1), s2. cbn [forallb app rev].
           rewrite Hc, H1. subst s. rewrite <- app_assoc. cbn [app]. auto.
        -- intros (s1 & s2 & E & H1 & H2). destruct s1 as [|c' s1].
           ++ cbn in E. subst s2. cbn in H2. rewrite Hk in H2. discriminate.
           ++ cbn [app] in E. injection E as E1 E2; subst c' s. cbn [forallb] in H1.
              apply andb_true_iff in H1 as [_ H1]. exists s1, s2.
              cbn [rev] in H2. rewrite <- app_assoc in H2. auto.
      * split; [discriminate|]. intros (s1 & s2 & E & H1 & H2). destruct s1 as [|c' s1].
        -- cbn in E. subst s2. cbn in H2. rewrite Hk in H2. discriminate.
        -- cbn [app] in E. injection E as E1 E2; subst c' s. cbn [forallb] in H1. rewrite Hc in H1. discriminate.
Qed.

Theorem m_ok : forall r cont, uni cont -> forall p s cs,
  ok (m r (mkst p s cs) cont) = true <-> succ cont p s cs (fun s1 s2 => L r p s1 s2).
Proof.
  induction r as [ | k | a IHa b IHb | a IHa b IHb | a IHa | k | k | k | n a IHa | alts | alts | | ];
    intros cont Hu p s cs; cbn [m L pre rem caps].
  - (* Eps *) split.
    + intros H. exists [], s. cbn. auto.
    + intros (s1 & s2 & E & -> & H2). cbn in *. subst. exact H2.
  - (* Cls *) destruct s as [|c s].
    + split; [discriminate|]. intros (s1 & s2 & E & (c & -> & _) & _). discriminate.
    + destruct (cmatch k c) eqn:Hc.
      * split.
        -- intros H. exists [c], s. cbn. eauto.
        -- intros (s1 & s2 & E & (c' & -> & _) & H2). cbn in E. injection E as E1 E2; subst c' s. exact H2.
      * split; [discriminate|]. intros (s1 & s2 & E & (c' & -> & Hc') & _).
        cbn in E. injection E as E1 E2; subst c' s. congruence.
  - (* Seq *)
    assert (Hu' : uni (fun y => m b y cont)).
    { intros p' s' c1 c2. apply ok_true_iff. rewrite !(IHb cont Hu). unfold succ.
      split; intros (s1 & s2 & E & H1 & H2); exists s1, s2; (split; [exact E|split; [exact H1|]]);
        [rewrite (Hu _ _ c2 c1)|rewrite (Hu _ _ c1 c2)]; exact H2. }
    rewrite (IHa _ Hu'). unfold succ. split.
    + intros (s1 & s2 & E & H1 & H2). apply (IHb cont Hu) in H2.
      destruct H2 as (s3 & s4 & E' & H3 & H4). subst s2 s.
      exists (s1 ++ s3), s4. rewrite app_assoc. split; [reflexivity|]. split.
      * exists s1, s3. auto.
      * rewrite rev_app_distr, <- app_assoc. exact H4.
    + intros (s13 & s4 & E & (s1 & s3 & -> & H1 & H3) & H4). subst s.
      exists s1, (s3 ++ s4). rewrite <- app_assoc. split; [reflexivity|]. split; [exact H1|].
      apply (IHb cont Hu). exists s3, s4. rewrite rev_app_distr, <- app_assoc in H4. auto.
  - (* Alt *)
    destruct (m a (mkst p s cs) cont) eqn:Ha.
    + split; [intros _|reflexivity].
      assert (H : ok (m a (mkst p s cs) cont) = true) by (rewrite Ha; reflexivity).
      apply (IHa cont Hu) in H. destruct H as (s1 & s2 & E & H1 & H2). exists s1, s2. auto.
    + rewrite (IHb cont Hu). unfold succ. split.
      * intros (s1 & s2 & E & H1 & H2). exists s1, s2. auto.
      * intros (s1 & s2 & E & [H1|H1] & H2).
        -- assert (H : ok (m a (mkst p s cs) cont) = true) by (apply (IHa cont Hu); exists s1, s2; auto).
           rewrite Ha in H. discriminate.
        -- exists s1, s2. auto.
  - (* Opt *)
    destruct (m a (mkst p s cs) cont) eqn:Ha.
    + split; [intros _|reflexivity].
      assert (H : ok (m a (mkst p s cs) cont) = true) by (rewrite Ha; reflexivity).
      apply (IHa cont Hu) in H. destruct H as (s1 & s2 & E & H1 & H2). exists s1, s2. auto.
    + split.
      * intros H. exists [], s. cbn. auto.
      * intros (s1 & s2 & E & [H1| ->] & H2).
        -- assert (H : ok (m a (mkst p s cs) cont) = true) by (apply (IHa cont Hu); exists s1, s2; auto).
           rewrite Ha in H. discriminate.
        -- cbn in *. subst. exact H2.
  - (* Star *) apply star_g_ok.
  - (* Plus *) destruct s as [|c s].
    + split; [discriminate|]. intros (s1 & s2 & E & (Hn & _) & _). destruct s1; [congruence|discriminate].
    + destruct (cmatch k c) eqn:Hc.
      * rewrite star_g_ok. unfold succ. split.
        -- intros (s1 & s2 & E & H1 & H2). exists (c :: s1), s2. cbn [forallb app rev].
           rewrite Hc, H1. subst s. rewrite <- app_assoc. cbn [app]. repeat split; auto. discriminate.
        -- intros (s1 & s2 & E & (Hn & H1) & H2). destruct s1 as [|c' s1]; [congruence|].
           cbn [app] in E. injection E as E1 E2; subst c' s. cbn [forallb] in H1.
           apply andb_true_iff in H1 as [_ H1]. exists s1, s2.
           cbn [rev] in H2. rewrite <- app_assoc in H2. auto.
      * split; [discriminate|]. intros (s1 & s2 & E & (Hn & H1) & _). destruct s1 as [|c' s1]; [congruence|].
        cbn [app] in E. injection E as E1 E2; subst c' s. cbn [forallb] in H1. rewrite Hc in H1. discriminate.
  - (* LStar *) apply star_l_ok.
  - (* Grp *)
    set (cont' := fun y : st => cont (mkst (pre y) (rem y)
        ((n, firstn (List.length s - List.length (rem y))%nat s) :: caps y))).
    assert (Hu' : uni cont').
    { intros p' s' c1 c2. unfold cont'. cbn [pre rem caps]. apply Hu. }
    rewrite (IHa cont' Hu'). unfold succ, cont'. cbn [pre rem caps]. split;
      intros (s1 & s2 & E & H1 & H2); exists s1, s2; (split; [exact E|split; [exact H1|]]).
    + rewrite (Hu _ _ _ cs) in H2. exact H2.
    + rewrite (Hu _ _ _ cs). exact H2.
  - (* NotBehind *)
    destruct (existsb (fun ks => prefix_cls (rev ks) p) alts) eqn:Hb.
    + split; [discriminate|]. intros (s1 & s2 & E & (-> & Hf) & _). discriminate.
    + split.
      * intros H. exists [], s. cbn. auto.
      * intros (s1 & s2 & E & (-> & _) & H2). cbn in *. subst. exact H2.
  - (* NotAhead *)
    destruct (existsb (fun ks => prefix_cls ks s) alts) eqn:Hb.
    + split; [discriminate|]. intros (s1 & s2 & E & (-> & Hf) & _). cbn in E. subst. congruence.
    + split.
      * intros H. exists [], s. cbn. auto.
      * intros (s1 & s2 & E & (-> & _) & H2). cbn in *. subst. exact H2.
  - (* AtEnd *)
    split.
    + intros H. destruct s as [|c [|c' s]].
      * exists [], []. cbn. auto.
      * destruct (c =? 10) eqn:Hc; [|discriminate]. apply N.eqb_eq in Hc. subst c.
        exists [], [10]. cbn. auto.
      * discriminate.
    + intros (s1 & s2 & E & (-> & Ht) & H2). cbn in E. subst s2.
      destruct Ht as [-> | ->]; cbn in *; exact H2.
  - (* AtEndStr *)
    split.
    + intros H. destruct s; [|discriminate]. exists [], []. cbn. auto.
    + intros (s1 & s2 & E & (-> & ->) & H2). cbn in E. subst. exact H2.
Qed.

Lemma uni_kfull : uni kfull.
Proof. intros p s c1 c2. unfold kfull. cbn. destruct s; reflexivity. Qed.
Lemma uni_kdone : uni kdone.
Proof. intros p s c1 c2. reflexivity. Qed.

Corollary fullmatch_ok r s : ok (re_fullmatch r s) = true <-> L r [] s [].
Proof.
  unfold re_fullmatch. rewrite (m_ok r kfull uni_kfull). unfold succ. split.
  - intros (s1 & s2 & E & H1 & H2). unfold kfull in H2. cbn in H2. destruct s2; [|discriminate].
    rewrite app_nil_r in E. subst. exact H1.
  - intros H. exists s, []. rewrite app_nil_r. auto.
Qed.

Corollary match_ok r s : ok (re_match r s) = true <-> exists s1 s2, s = s1 ++ s2 /\ L r [] s1 s2.
Proof.
  unfold re_match. rewrite (m_ok r kdone uni_kdone). unfold succ. split.
  - intros (s1 & s2 & E & H1 & _). eauto.
  - intros (s1 & s2 & E & H1). exists s1, s2. auto.
Qed.
