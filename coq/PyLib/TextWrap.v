(* PyLib.TextWrap — textwrap.TextWrapper(width=w, break_long_words=False,
   break_on_hyphens=False).wrap(text) with the remaining options at their defaults
   (expand_tabs, replace_whitespace, drop_whitespace, empty indents).  Definitions only. *)
From Coq Require Import List NArith Bool Arith.
Import ListNotations.
Require Import PyStr.
Open Scope N_scope.

(* str.expandtabs(8) followed by the translation of every white-space character to a blank
   (textwrap's own white-space set: \t \n \v \f \r and blank) *)
Definition tw_space (c : N) : bool := ((9 <=? c) && (c <=? 13)) || (c =? 32).

Fixpoint expandtabs_aux (s : list N) (col : nat) : list N :=
  match s with
  | [] => []
  | c :: s' =>
      if c =? 9 then
        let n := (8 - Nat.modulo col 8)%nat in repeat_ch 32 n ++ expandtabs_aux s' (col + n)
      else if (c =? 10) || (c =? 13) then c :: expandtabs_aux s' 0
      else c :: expandtabs_aux s' (S col)
  end.
Definition munge (s : list N) : list N :=
  List.map (fun c => if tw_space c then 32 else c) (expandtabs_aux s 0).

(* chunks: maximal runs of blanks and maximal runs of non-blanks *)
Fixpoint chunks_aux (s : list N) (cur : list N) (cur_sp : bool) : list (list N) :=
  match s with
  | [] => match cur with [] => [] | _ => [rev cur] end
  | c :: s' =>
      let sp := c =? 32 in
      match cur with
      | [] => chunks_aux s' [c] sp
      | _ => if Bool.eqb sp cur_sp then chunks_aux s' (c :: cur) cur_sp
             else rev cur :: chunks_aux s' [c] sp
      end
  end.
Definition chunks (s : list N) : list (list N) := chunks_aux s [] false.

Definition is_blank_chunk (c : list N) : bool := forallb (fun x => x =? 32) c.

(* fill one line: take chunks while they fit; returns (line chunks in order, rest) *)
Fixpoint take_fit (cs : list (list N)) (width cur_len : nat) : list (list N) * list (list N) :=
  match cs with
  | [] => ([], [])
  | c :: cs' =>
      if Nat.leb (cur_len + List.length c) width then
        let (a, b) := take_fit cs' width (cur_len + List.length c) in (c :: a, b)
      else ([], cs)
  end.

Definition drop_trailing_blank (l : list (list N)) : list (list N) :=
  match rev l with
  | c :: r => if is_blank_chunk c then rev r else l
  | [] => l
  end.

(* _wrap_chunks; fuel = number of chunks + 1 (every iteration consumes at least one chunk,
   or drops a blank chunk and then consumes one) *)
Fixpoint wrap_chunks (fuel : nat) (cs : list (list N)) (width : nat) (have_lines : bool) : list (list N) :=
  match fuel with
  | O => []
  | S f =>
      match cs with
      | [] => []
      | c0 :: cs0 =>
          (* drop a leading blank chunk at the start of every line but the first *)
          let cs1 := if have_lines && is_blank_chunk c0 then cs0 else cs in
          match cs1 with
          | [] => []
          | _ =>
              let (line, rest) := take_fit cs1 width 0 in
              (* a chunk wider than the width goes alone on its own line (break_long_words=False) *)
              let (line, rest) :=
                match line, rest with
                | [], w :: rest' => if Nat.ltb width (List.length w) then ([w], rest') else (line, rest)
                | _, _ => (line, rest)
                end in
              let line := drop_trailing_blank line in
              match line with
              | [] => wrap_chunks f rest width have_lines
              | _ => List.concat line :: wrap_chunks f rest width true
              end
          end
      end
  end.

Definition wrap (width : nat) (text : list N) : list (list N) :=
  let cs := chunks (munge text) in
  wrap_chunks (S (S (List.length cs))) cs width false.
