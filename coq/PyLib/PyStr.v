(* PyLib.PyStr — Python str operations used by lasio, over code-point lists.
   Definitions only (executable under vm_compute); lemmas live in PyStrFacts.v. *)
From Coq Require Import List NArith Bool Ascii String.
Import ListNotations.
Open Scope N_scope.

(* notations rather than definitions: keeps rewriting syntactic *)
Notation char := N (only parsing).
Notation str := (list N) (only parsing).

(* ASCII literal helper: s2l "VERS" *)
Definition s2l (s : string) : str := List.map N_of_ascii (list_ascii_of_string s).
Definition l2s (l : str) : string := string_of_list_ascii (List.map ascii_of_N l).

Definition ch_nl : char := 10.
Definition ch_cr : char := 13.
Definition ch_sp : char := 32.
Definition ch_tab : char := 9.
Definition ch_dot : char := 46.
Definition ch_colon : char := 58.
Definition ch_tilde : char := 126.
Definition ch_hash : char := 35.
Definition ch_comma : char := 44.
Definition ch_minus : char := 45.
Definition ch_plus : char := 43.
Definition ch_us : char := 95.

(* str.isspace() per code point == what str.strip() removes and what \s matches for str
   patterns: the Unicode White_Space set plus the four separators 0x1c..0x1f. *)
Definition is_space (c : char) : bool :=
  ((9 <=? c) && (c <=? 13)) || ((28 <=? c) && (c <=? 32)) || (c =? 133) || (c =? 160)
  || (c =? 5760) || ((8192 <=? c) && (c <=? 8202)) || (c =? 8232) || (c =? 8233)
  || (c =? 8239) || (c =? 8287) || (c =? 12288).

Definition is_digit (c : char) : bool := (48 <=? c) && (c <=? 57).

Fixpoint str_eqb (a b : str) : bool :=
  match a, b with
  | [], [] => true
  | x :: a', y :: b' => (x =? y) && str_eqb a' b'
  | _, _ => false
  end.

Fixpoint lstrip_by (f : char -> bool) (s : str) : str :=
  match s with
  | c :: s' => if f c then lstrip_by f s' else s
  | [] => []
  end.
Definition rstrip_by (f : char -> bool) (s : str) : str := rev (lstrip_by f (rev s)).
Definition strip_by (f : char -> bool) (s : str) : str := rstrip_by f (lstrip_by f s).

Definition lstrip := lstrip_by is_space.
Definition rstrip := rstrip_by is_space.
Definition strip := strip_by is_space.
Definition strip_chars (cs : str) : str -> str :=
  strip_by (fun c => existsb (N.eqb c) cs).

(* line.strip("\n").strip() and line.strip().strip("\n") coincide with strip *)

Fixpoint startswith (p s : str) : bool :=
  match p, s with
  | [], _ => true
  | x :: p', y :: s' => (x =? y) && startswith p' s'
  | _ :: _, [] => false
  end.
Definition endswith (p s : str) : bool := startswith (rev p) (rev s).

(* s.find(p): index of first occurrence or None (Python's -1) *)
Fixpoint find_from (p s : str) (i : nat) : option nat :=
  if startswith p s then Some i else
  match s with
  | [] => None
  | _ :: s' => find_from p s' (S i)
  end.
Definition find (p s : str) : option nat := find_from p s 0%nat.
Definition contains (p s : str) : bool :=
  match find p s with Some _ => true | None => false end.
Definition in_str (c : char) (s : str) : bool := existsb (N.eqb c) s.

(* s.rfind(p) for a single character p *)
Fixpoint rfind_char_aux (c : char) (s : str) (i : nat) (acc : option nat) : option nat :=
  match s with
  | [] => acc
  | x :: s' => rfind_char_aux c s' (S i) (if x =? c then Some i else acc)
  end.
Definition rfind_char (c : char) (s : str) : option nat := rfind_char_aux c s 0%nat None.
Definition find_char (c : char) (s : str) : option nat := find [c] s.

Definition repeat_ch (c : char) (n : nat) : str := List.repeat c n.
Definition ljust (w : nat) (fill : char) (s : str) : str :=
  s ++ repeat_ch fill (w - List.length s).
Definition rjust (w : nat) (fill : char) (s : str) : str :=
  repeat_ch fill (w - List.length s) ++ s.

(* s.replace(old, new) for single-char old *)
Definition replace_char (old : char) (new : str) (s : str) : str :=
  flat_map (fun c => if c =? old then new else [c]) s.
Definition remove_char (old : char) (s : str) : str := replace_char old [] s.

(* str.split() with no argument: maximal runs of non-space characters *)
Fixpoint split_ws_aux (s : str) (cur : str) : list str :=
  match s with
  | [] => match cur with [] => [] | _ => [rev cur] end
  | c :: s' =>
      if is_space c then
        match cur with [] => split_ws_aux s' [] | _ => rev cur :: split_ws_aux s' [] end
      else split_ws_aux s' (c :: cur)
  end.
Definition split_ws (s : str) : list str := split_ws_aux s [].

(* s.split(sep) for a single-character sep: always at least one field *)
Fixpoint split_char_aux (sep : char) (s : str) (cur : str) : list str :=
  match s with
  | [] => [rev cur]
  | c :: s' => if c =? sep then rev cur :: split_char_aux sep s' []
               else split_char_aux sep s' (c :: cur)
  end.
Definition split_char (sep : char) (s : str) : list str := split_char_aux sep s [].

Fixpoint join (sep : str) (l : list str) : str :=
  match l with
  | [] => []
  | [x] => x
  | x :: l' => x ++ sep ++ join sep l'
  end.

(* Lines of a text as a file object yields them (readline on a StringIO / text file after
   universal-newline translation): cut after every \n, terminator kept. *)
Fixpoint lines_keep_aux (s : str) (cur : str) : list str :=
  match s with
  | [] => match cur with [] => [] | _ => [rev cur] end
  | c :: s' => if c =? ch_nl then rev (c :: cur) :: lines_keep_aux s' []
               else lines_keep_aux s' (c :: cur)
  end.
Definition lines_keep (s : str) : list str := lines_keep_aux s [].

(* str.splitlines() boundaries: \n \r \r\n \v \f \x1c \x1d \x1e \x85     *)
Definition is_linebreak (c : char) : bool :=
  ((10 <=? c) && (c <=? 13)) || ((28 <=? c) && (c <=? 30)) || (c =? 133) || (c =? 8232) || (c =? 8233).
Fixpoint splitlines_aux (s : str) (cur : str) : list str :=
  match s with
  | [] => match cur with [] => [] | _ => [rev cur] end
  | c :: s' =>
      if is_linebreak c then
        match c =? ch_cr, s' with
        | true, d :: s'' => if d =? ch_nl then rev cur :: splitlines_aux s'' []
                            else rev cur :: splitlines_aux s' []
        | _, _ => rev cur :: splitlines_aux s' []
        end
      else splitlines_aux s' (c :: cur)
  end.
Definition splitlines (s : str) : list str := splitlines_aux s [].

(* ASCII case mapping; non-ASCII letters are handled by the oracle tables of PyCase.v *)
Definition ascii_upper (c : char) : char := if (97 <=? c) && (c <=? 122) then c - 32 else c.
Definition ascii_lower (c : char) : char := if (65 <=? c) && (c <=? 90) then c + 32 else c.

(* Python slicing s[a:b] with non-negative bounds *)
Definition slice (a b : nat) (s : str) : str := firstn (b - a) (skipn a s).

(* decimal rendering of a nat / Z, as str(int) prints it *)
Fixpoint digits_fuel (fuel : nat) (n : N) (acc : str) : str :=
  match fuel with
  | O => acc
  | S f => let d := 48 + (n mod 10) in
           if n / 10 =? 0 then d :: acc else digits_fuel f (n / 10) (d :: acc)
  end.
Definition N_to_str (n : N) : str := digits_fuel (S (N.to_nat (N.log2 n))) n [].
Definition nat_to_str (n : nat) : str := N_to_str (N.of_nat n).
