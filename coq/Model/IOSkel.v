(* Model.IOSkel — open/close skeletons of lasio's I/O entry points (property C20).
   Definitions only; proofs are in Proofs/IOSkelProofs.v; the skeleton terms themselves are
   regenerated from the Python source on every run (Gen/Skel.v, translators/skeleton.py).

   A handle id stands for "the file object held by one program variable" (ids are global
   over the six translated functions; a callee's returned variable and the caller's target
   variable share one id).  A state is a triple
       (owned, touched, lost)
   owned   : variables that hold a file opened by lasio during this call that is open now;
   touched : caller-supplied objects on which lasio called close();
   lost    : number of open files no variable refers to any more (a variable holding an
             open file was overwritten, by another open or by an assignment): they can
             never be closed.

   Every MayRaise / Open / Close may complete or raise, nondeterministically: an injected
   OSError at the k-th low-level operation (for every k) and every input-induced exception
   are instances of this one semantics.  A close that raises has still closed the file
   (CPython's file objects do; stated as an assumption of the check). *)
From Coq Require Import List Arith Bool.
Import ListNotations.

Inductive stmt :=
| Skip | MayRaise | Return | Break | Continue
| Open (h:nat)                  (* x = open(..) / io.open(..): raises, or x holds a new open file *)
| Close (h:nat)                 (* x.close() where x can only hold a file lasio opened itself
                                   (with-exit, or guarded by the opened-flag) *)
| CloseArg (h:nat)              (* x.close() where x may hold an object supplied by the caller *)
| Rebind (h:nat)                (* x = <something that is not a file lasio opens> *)
| Seq (a b:stmt) | If (a b:stmt) | Loop (b:stmt)
| TryFinally (b f:stmt) | TryExcept (b h:stmt)
| Guarded (h:nat) (b:stmt)      (* if <x holds a file>: b   —  `if opened_file: x.close()`,
                                   `if hasattr(x, "close"): x.close()`: b is skipped only when
                                   x does not hold a file lasio opened *)
| Call (b:stmt).                (* inlined call of a translated helper: its `return` ends the helper only.
                                   The handle the helper returns is the caller's variable from here on (shared id):
                                   the translator only emits Call when nothing can raise between the helper's
                                   `return` and the store into that variable (unpacking target of the helper's
                                   exact arity, plain names before the handle's position) *)

(* with open(..) as x: body *)
Definition With (h:nat) (b:stmt) : stmt := Seq (Open h) (TryFinally b (Close h)).

(* a block of statements *)
Fixpoint seqs (l:list stmt) : stmt :=
  match l with [] => Skip | [a] => a | a :: t => Seq a (seqs t) end.

Inductive outcome := ONorm | ORaise | ORet | OBrk | OCnt.
Definition st := (list nat * list nat * nat)%type.
Definition owned (s:st) : list nat := fst (fst s).
Definition touched (s:st) : list nat := snd (fst s).
Definition lost (s:st) : nat := snd s.

Fixpoint rm1 (h:nat) (s:list nat) : list nat :=
  match s with [] => [] | x :: t => if x =? h then t else x :: rm1 h t end.

Definition mem (h:nat) (s:list nat) : bool := existsb (Nat.eqb h) s.
Definition b2n (b:bool) : nat := if b then 1 else 0.

Inductive exec : stmt -> st -> outcome -> st -> Prop :=
| XSkip s : exec Skip s ONorm s
| XMayN s : exec MayRaise s ONorm s
| XMayR s : exec MayRaise s ORaise s
| XRet s : exec Return s ORet s
| XBrk s : exec Break s OBrk s
| XCnt s : exec Continue s OCnt s
| XOpenN h ow tc n : exec (Open h) (ow, tc, n) ONorm (h :: rm1 h ow, tc, n + b2n (mem h ow))
| XOpenR h s : exec (Open h) s ORaise s
| XCloseN h ow tc n : exec (Close h) (ow, tc, n) ONorm (rm1 h ow, tc, n)
| XCloseR h ow tc n : exec (Close h) (ow, tc, n) ORaise (rm1 h ow, tc, n)
| XCloseArgN h ow tc n : exec (CloseArg h) (ow, tc, n) ONorm (rm1 h ow, h :: tc, n)
| XCloseArgR h ow tc n : exec (CloseArg h) (ow, tc, n) ORaise (rm1 h ow, h :: tc, n)
| XRebind h ow tc n : exec (Rebind h) (ow, tc, n) ONorm (rm1 h ow, tc, n + b2n (mem h ow))
| XSeqN a b s s1 o s2 : exec a s ONorm s1 -> exec b s1 o s2 -> exec (Seq a b) s o s2
| XSeqX a b s o s1 : exec a s o s1 -> o <> ONorm -> exec (Seq a b) s o s1
| XIfL a b s o s1 : exec a s o s1 -> exec (If a b) s o s1
| XIfR a b s o s1 : exec b s o s1 -> exec (If a b) s o s1
| XLoop0 b s : exec (Loop b) s ONorm s
| XLoopN b s s1 o s2 : exec b s ONorm s1 -> exec (Loop b) s1 o s2 -> exec (Loop b) s o s2
| XLoopC b s s1 o s2 : exec b s OCnt s1 -> exec (Loop b) s1 o s2 -> exec (Loop b) s o s2
| XLoopB b s s1 : exec b s OBrk s1 -> exec (Loop b) s ONorm s1
| XLoopX b s o s1 : exec b s o s1 -> o = ORaise \/ o = ORet -> exec (Loop b) s o s1
| XFinN b f s o s1 s2 : exec b s o s1 -> exec f s1 ONorm s2 -> exec (TryFinally b f) s o s2
| XFinX b f s o s1 o2 s2 : exec b s o s1 -> exec f s1 o2 s2 -> o2 <> ONorm -> exec (TryFinally b f) s o2 s2
| XExcP b h s o s1 : exec b s o s1 -> exec (TryExcept b h) s o s1      (* incl. a raise no handler matches *)
| XExcH b h s s1 o s2 : exec b s ORaise s1 -> exec h s1 o s2 -> exec (TryExcept b h) s o s2
| XGuardRun h b s o s1 : exec b s o s1 -> exec (Guarded h b) s o s1
| XGuardSkip h b ow tc n : mem h ow = false -> exec (Guarded h b) (ow, tc, n) ONorm (ow, tc, n)
| XCallN b s o s1 : exec b s o s1 -> o <> ORaise -> exec (Call b) s ONorm s1
| XCallR b s s1 : exec b s ORaise s1 -> exec (Call b) s ORaise s1.

(* ---- the leak analysis ---------------------------------------------------------------
   abstract result: the set of possibly-open owned handles per exit kind; None = that exit
   cannot happen.  `an s A = None` = the analysis gives up (rejected). *)
Record res := { rN : option (list nat); rR : option (list nat); rT : option (list nat);
                rB : option (list nat); rC : option (list nat) }.
Definition get (r:res) (o:outcome) :=
  match o with ONorm => rN r | ORaise => rR r | ORet => rT r | OBrk => rB r | OCnt => rC r end.
Definition rm (h:nat) (s:list nat) : list nat := filter (fun x => negb (x =? h)) s.
Definition union (x y:list nat) : list nat := x ++ filter (fun e => negb (mem e x)) y.
Definition oj (a b:option (list nat)) : option (list nat) :=
  match a, b with None, x => x | x, None => x | Some x, Some y => Some (union x y) end.
Definition rj (a b:res) : res :=
  {| rN := oj (rN a) (rN b); rR := oj (rR a) (rR b); rT := oj (rT a) (rT b);
     rB := oj (rB a) (rB b); rC := oj (rC a) (rC b) |}.
Definition none : res := {| rN := None; rR := None; rT := None; rB := None; rC := None |}.
Definition subl (a b:list nat) : bool := forallb (fun x => mem x b) a.
Definition osubl (a:option (list nat)) (b:list nat) : bool :=
  match a with None => true | Some x => subl x b end.

Definition afin (anf : list nat -> option res) (x : option (list nat)) : option res :=
  match x with None => Some none | Some A1 => anf A1 end.
Definition ab5 (k : res -> option (list nat)) (fN fR fT fB fC : res) : option (list nat) :=
  oj (oj (oj (k fN) (k fR)) (oj (k fT) (k fB))) (k fC).

Fixpoint an (s:stmt) (A:list nat) : option res :=
  match s with
  | Skip => Some {| rN := Some A; rR := None; rT := None; rB := None; rC := None |}
  | MayRaise => Some {| rN := Some A; rR := Some A; rT := None; rB := None; rC := None |}
  | Return => Some {| rN := None; rR := None; rT := Some A; rB := None; rC := None |}
  | Break => Some {| rN := None; rR := None; rT := None; rB := Some A; rC := None |}
  | Continue => Some {| rN := None; rR := None; rT := None; rB := None; rC := Some A |}
  | Open h =>
      (* re-opening into a variable that may still hold an open file is rejected *)
      if mem h A then None
      else Some {| rN := Some (h :: A); rR := Some A; rT := None; rB := None; rC := None |}
  | Rebind h =>
      (* overwriting a variable that may still hold an open file is rejected *)
      if mem h A then None
      else Some {| rN := Some A; rR := None; rT := None; rB := None; rC := None |}
  | Close h | CloseArg h =>
      Some {| rN := Some (rm h A); rR := Some (rm h A); rT := None; rB := None; rC := None |}
  | Seq a b =>
      match an a A with None => None | Some ra =>
        match rN ra with
        | None => Some ra
        | Some A1 => match an b A1 with None => None | Some rb =>
            Some {| rN := rN rb; rR := oj (rR ra) (rR rb); rT := oj (rT ra) (rT rb);
                    rB := oj (rB ra) (rB rb); rC := oj (rC ra) (rC rb) |} end
        end end
  | If a b => match an a A, an b A with Some ra, Some rb => Some (rj ra rb) | _, _ => None end
  | Loop b =>
      (* A itself must be a loop invariant: the body's normal and continue exits stay within A *)
      match an b A with None => None | Some rb =>
        if osubl (rN rb) A && osubl (rC rb) A
        then Some {| rN := oj (Some A) (rB rb); rR := rR rb; rT := rT rb; rB := None; rC := None |}
        else None end
  | TryFinally b f =>
      match an b A with None => None | Some rb =>
        match afin (an f) (rN rb), afin (an f) (rR rb), afin (an f) (rT rb),
              afin (an f) (rB rb), afin (an f) (rC rb) with
        | Some fN, Some fR, Some fT, Some fB, Some fC =>
            Some {| rN := rN fN;
                    rR := oj (rN fR) (ab5 rR fN fR fT fB fC);
                    rT := oj (rN fT) (ab5 rT fN fR fT fB fC);
                    rB := oj (rN fB) (ab5 rB fN fR fT fB fC);
                    rC := oj (rN fC) (ab5 rC fN fR fT fB fC) |}
        | _, _, _, _, _ => None end end
  | TryExcept b h =>
      match an b A with None => None | Some rb =>
        match rR rb with
        | None => Some rb
        | Some A1 => match an h A1 with None => None | Some rh => Some (rj rb rh) end
        end end
  | Guarded h b =>
      (* skipped only when h is not open: the state is then within A minus h *)
      match an b A with None => None | Some rb =>
        Some (rj rb {| rN := Some (rm h A); rR := None; rT := None; rB := None; rC := None |}) end
  | Call b =>
      match an b A with None => None | Some rb =>
        Some {| rN := oj (oj (rN rb) (rT rb)) (oj (rB rb) (rC rb)); rR := rR rb;
                rT := None; rB := None; rC := None |} end
  end.

(* `leak_free_from A rets s`: started with possibly-open set A, s leaves at most A open at
   every normal / raise exit and at most A ++ rets at a `return` (rets = the handles the
   function hands over to its caller: `return file_obj, encoding`).  break/continue cannot
   leave a function body; they are required to be absent at top level. *)
Definition leak_free_from (A rets:list nat) (s:stmt) : bool :=
  match an s A with
  | Some r => osubl (rN r) A && osubl (rR r) A && osubl (rT r) (A ++ rets)
              && match rB r, rC r with None, None => true | _, _ => false end
  | None => false end.
Definition leak_free_ret (rets:list nat) (s:stmt) : bool := leak_free_from [] rets s.
Definition leak_free (s:stmt) : bool := leak_free_from [] [] s.

(* second check: the skeleton never calls close() on an object the caller may have supplied *)
Fixpoint caller_handles_untouched (s:stmt) : bool :=
  match s with
  | CloseArg _ => false
  | Seq a b | If a b | TryFinally a b | TryExcept a b =>
      caller_handles_untouched a && caller_handles_untouched b
  | Loop b | Call b | Guarded _ b => caller_handles_untouched b
  | _ => true
  end.

(* what the analysis reports, for the harness (evaluated with vm_compute) *)
Definition show_exit (x:option (list nat)) : list nat :=
  match x with None => [] | Some l => l end.
