(* Model.CurvesSpec — what C14 claims about Model.Curves: the plain ordered-list model, written
   from the statement.  Definitions only.

   The abstract state is `list entry`, an entry = (original name, (unit, value, descr), array).
   It knows nothing about session mnemonics or the suffix rule.  Operations on it address
   POSITIONS; an API call that names a curve by mnemonic is first resolved to a position
   through the dictionary view keys() of the LASFile (`resolve`), exactly as the statement
   reads: "keys() ... and mnemonic indexing all agree with that model".  How keys() relates to
   the names of the list is C13's invariant (pairwise distinct; key i is the useful form of
   name i, optionally followed by ":<k>"). *)
From Coq Require Import List NArith ZArith Bool String.
Import ListNotations.
Require Import PyStr Items Curves.
Open Scope N_scope.

Definition meta := (list N * list N * list N)%type.          (* unit, value, descr *)
Definition entry := (list N * meta * list N)%type.           (* name, metadata, 1-D array *)

Definition abs_item (it : item) : entry := (orig it, (it_unit it, it_value it, it_descr it), it_data it).
Definition abs (s : section) : list entry := List.map abs_item (items s).

Definition e_name (e : entry) : list N := fst (fst e).
Definition e_meta (e : entry) : meta := snd (fst e).
Definition e_data (e : entry) : list N := snd e.

Definition entry_of (a : cargs) : entry := (c_mnem a, (c_unit a, c_value a, c_descr a), c_data a).
Definition blank_entry : entry := ([], ([], [], []), []).

(* update of the fields that are given *)
Definition upd_entry (u : upd) (e : entry) : entry :=
  match e with
  | (n, (un, va, de), d) =>
      (n, (or_keep (u_unit u) un, or_keep (u_value u) va, or_keep (u_descr u) de), or_keep (u_data u) d)
  end.

(* ---- operations of the list model (positions only) ------------------------------------------- *)
Inductive sop :=
  | SAppend (e : entry)
  | SInsert (i : Z) (e : entry)
  | SDelete (i : Z)
  | SUpdate (i : Z) (u : upd)
  | SReplace (i : Z) (e : entry)
  | SSetData (a : arr) (names : option (list (list N))) (truncate : bool)
  | SReject (e : ierr).       (* the call is refused before the list is touched: unknown
                                 mnemonic (ValueError), key/item mismatch (KeyError), not a
                                 CurveItem (AssertionError) *)

(* set_data on the list: the array's columns become the arrays of the entries, in order;
   truncate drops the columns beyond the list; surplus columns append unnamed entries; a
   non-empty names list renames (padded with "" when shorter, surplus names ignored); an
   array without elements changes nothing; fewer columns than entries is an IndexError *)
Fixpoint spec_bind (l : list entry) (names : list (list N)) (cols : list (list N)) : list entry :=
  match l, names, cols with
  | (_, m, _) :: r, n :: nr, c :: cr => (n, m, c) :: spec_bind r nr cr
  | _, _, _ => l
  end.
Definition spec_names (l : list entry) (names : option (list (list N))) : list (list N) :=
  match names with
  | None | Some [] => List.map e_name l
  | Some ns => ns ++ repeat [] (List.length l - List.length ns)
  end.
Definition spec_set_data (l : list entry) (a : arr) (names : option (list (list N))) (truncate : bool)
  : ires (list entry) :=
  match a with
  | Arr1 d => if truncate then IErr IndexError
              else match d with [] => IOk l | _ => IErr IndexError end
  | Arr2 cols0 =>
      let n := List.length l in
      let cols := if truncate then firstn n cols0 else cols0 in
      if size_pos cols then
        if Nat.ltb (List.length cols) n then IErr IndexError
        else let l1 := l ++ repeat blank_entry (List.length cols - n) in
             IOk (spec_bind l1 (spec_names l1 names) cols)
      else IOk l
  end.

Definition spec_step (l : list entry) (o : sop) : ires (list entry) :=
  match o with
  | SAppend e => IOk (l ++ [e])
  | SInsert i e => IOk (py_insert i e l)
  | SDelete i => match py_del i l with Some l' => IOk l' | None => IErr IndexError end
  | SUpdate i u =>
      match py_index (List.length l) i with
      | Some n => IOk (update_at n (upd_entry u) l)
      | None => IErr IndexError
      end
  | SReplace i e => match py_set i e l with Some l' => IOk l' | None => IErr IndexError end
  | SSetData a names t => spec_set_data l a names t
  | SReject e => IErr e
  end.
Definition spec_keep (l : list entry) (o : sop) : list entry :=
  match spec_step l o with IOk l' => l' | IErr _ => l end.
Fixpoint spec_outcomes (l : list entry) (ops : list sop) : list (option ierr) :=
  match ops with
  | [] => []
  | o :: r => outcome (spec_step l o) :: spec_outcomes (spec_keep l o) r
  end.

(* ---- resolving an API call against the dictionary view ------------------------------------- *)
(* ks = keys() of the LASFile at the moment of the call *)
Definition resolve_pos (ks : list (list N)) (mn : option (list N)) (ix : option Z) (f : Z -> sop) : sop :=
  match resolve_addr ks mn ix with IOk z => f z | IErr e => SReject e end.
Definition resolve (ks : list (list N)) (o : op) : sop :=
  match o with
  | OAppendCurve a => SAppend (entry_of a)
  | OInsertCurve ix a => SInsert ix (entry_of a)
  | OAppendItem (CItem a) => SAppend (entry_of a)
  | OInsertItem ix (CItem a) => SInsert ix (entry_of a)
  | OAppendItem NotCurveItem | OInsertItem _ NotCurveItem => SReject AssertionError
  | ODelete mn ix => resolve_pos ks mn ix SDelete
  | OUpdate mn ix u => resolve_pos ks mn ix (fun z => SUpdate z u)
  | OReplace ix a => SReplace ix (entry_of a)
  | OSetItem k (VItem a) =>
      (* the key must be the mnemonic the item shows (UNKNOWN for a blank name) *)
      if negb (str_eqb k (useful_of (c_mnem a))) then SReject KeyError
      else match key_index ks k with
           | Some n => SReplace (Z.of_nat n) (entry_of a)
           | None => SAppend (entry_of a)
           end
  | OSetItem k (VArr d) =>
      match key_index ks k with
      | Some n => SUpdate (Z.of_nat n) (mkUpd (Some d) None None None)
      | None => SAppend (k, ([], [], []), d)
      end
  | OSetData a names t => SSetData a names t
  end.

(* the resolved form of a whole history, each call resolved at the state it is made in *)
Fixpoint resolved (s : section) (ops : list op) : list sop :=
  match ops with
  | [] => []
  | o :: r => resolve (keys s) o :: resolved (step_keep s o) r
  end.

(* ---- observations of the list model --------------------------------------------------------- *)
Definition spec_values (l : list entry) : list (list N) := List.map e_data l.
Definition spec_int (l : list entry) (i : Z) : ires (list N) :=
  match py_get i l with Some e => IOk (e_data e) | None => IErr IndexError end.
(* column i of a row matrix *)
Definition column (i : nat) (rows : list (list N)) : list (option N) :=
  List.map (fun row => nth_error row i) rows.
