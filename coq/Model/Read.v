(* Model.Read — LASFile.read as a function text -> options -> result (las.py 199-552),
   composing Sections, SectionParse and DataRead.  LAS 3.0 section handling, URLs, encodings
   (see Channels), non-default read/null policies other than strict/none, dtypes other than
   "auto" and index-unit detection (see Export) are outside this model.  Definitions only. *)
From Coq Require Import List NArith ZArith Bool String.
Import ListNotations.
Require Import PyStr Regex Regexes NumLit Num HeaderLine Tables SectionParse Sections DataRead.
Open Scope string_scope.
Open Scope list_scope.
Open Scope N_scope.

Record ropts := mkropts {
  o_ignore_header_errors : bool;
  o_mcase : mcase;
  o_engine_numpy : bool;
  o_null_strict : bool;          (* null_policy 'strict' (true) or 'none' (false) *)
  o_ignore_data : bool }.

Record section := mksect { s_items : list hitem; s_transforms : bool }.

Inductive custom_sect := CItems (s : section) | CText (t : list N).

Record las := mklas {
  l_version : section; l_well : section; l_curves : section; l_params : section;
  l_other : list N;
  l_custom : list (list N * custom_sect);        (* insertion order; later writes replace *)
  l_data : list (list cell);                     (* one column per curve, after binding *)
  l_engine_numpy : bool }.                       (* which engine produced the data (trace) *)

Inductive rerr := ENoSections | EHeader (line : list N) | EReshape | EKey | EUnsupported.
Inductive rres := ROk (l : las) | RErr (e : rerr).

(* ---- defaults (from Gen/Tables.v) ----------------------------------------------------------- *)
Definition default_value (k : N * list N) : hval :=
  match k with
  | (0, s) => VStr s
  | (1, s) => num s
  | (_, _) => VFloat (s2l "nan")
  end.
Definition default_items (t : list (list N * list N * (N * list N) * list N)) : list hitem :=
  fold_left (fun acc e => match e with (m, u, v, d) => sect_append false acc (new_item m u (default_value v) d) end) t [].
Definition empty_las : las :=
  mklas (mksect (default_items default_version) false) (mksect (default_items default_well) false)
        (mksect (default_items default_curves) false) (mksect (default_items default_parameter) false)
        [] [] [] false.

(* ---- provisional values ------------------------------------------------------------------------ *)
(* exact decimal comparison of a literal with mant * 10^e10 (VERS spelled 2, 2.0, 2.00, 1.2 ...) *)
Definition lit_equals (x : list N) (mant e10 : Z) : bool :=
  match py_float_dec x with
  | None => false
  | Some d =>
      let m1 := (if d_neg d then - dec_mant d else dec_mant d)%Z in
      let e1 := dec_e10 d in
      if ((e1 <? -60) || (60 <? e1))%Z then false
      else
        let lo := Z.min e1 e10 in
        (m1 * 10 ^ (e1 - lo) =? mant * 10 ^ (e10 - lo))%Z
  end.
Definition version_of (v : hval) : option las_version :=
  match v with
  | VInt 1 => Some V10 | VInt 2 => Some V20 | VInt 3 => Some V30
  | VFloat x =>
      if lit_equals x 1 0 then Some V10 else if lit_equals x 12 (-1) then Some V12
      else if lit_equals x 2 0 then Some V20 else if lit_equals x 21 (-1) then Some V21
      else if lit_equals x 3 0 then Some V30 else None
  | _ => None
  end.
Definition hval_is_str (v : hval) (s : list N) : bool :=
  match v with VStr t => str_eqb t s | _ => false end.
Definition dlm_of (v : hval) : option dlm :=
  if hval_is_str v (s2l "SPACE") then Some DSpace
  else if hval_is_str v (s2l "COMMA") then Some DComma
  else if hval_is_str v (s2l "TAB") then Some DTab else None.

Record pstate := mkps {
  p_version : hval; p_wrapped : hval; p_null : option hval; p_dlm : hval;
  p_las : las; p_data : list spos; p_las3data : list spos }.

Definition second_upper (title : list N) : option N :=
  match title with _ :: c :: _ => Some (ascii_upper c) | _ => None end.

Definition las3_like (title : list N) : bool :=
  let u := upper (tl title) in
  contains (s2l "_DATA") u || contains (s2l "_PARAMETER") u || contains (s2l "_DEFINITION") u.

Definition set_custom (key : list N) (v : custom_sect) (l : list (list N * custom_sect)) :=
  if existsb (fun kv => str_eqb (fst kv) key) l
  then List.map (fun kv => if str_eqb (fst kv) key then (key, v) else kv) l
  else l ++ [(key, v)].

Definition update_steering (letter : N) (sec : section) (ps : pstate) : pstate :=
  let get k := sect_find (s_transforms sec) (s2l k) (s_items sec) in
  if letter =? 86 then
    mkps (match get "VERS" with Some it => i_value it | None => p_version ps end)
         (match get "WRAP" with Some it => i_value it | None => p_wrapped ps end)
         (p_null ps)
         (match get "DLM" with Some it => i_value it | None => p_dlm ps end)
         (p_las ps) (p_data ps) (p_las3data ps)
  else if letter =? 87 then
    mkps (p_version ps) (p_wrapped ps)
         (match get "NULL" with Some it => Some (i_value it) | None => p_null ps end)
         (p_dlm ps) (p_las ps) (p_data ps) (p_las3data ps)
  else ps.

(* version_is_3: provisional_version == 3.0 at this point (after the steering update).  Only a LAS 3.0
   file uses titles with an underscore for sections of its own (~Core_Definition ...): there a title with
   an underscore is not the ~C / ~P section. *)
Definition is_v30 (v : hval) : bool :=
  match version_of v with Some V30 => true | _ => false end.
Definition route (version_is_3 : bool) (title : list N) (letter : N) (sec : section) (l : las) : las :=
  let no_us := negb (version_is_3 && in_str ch_us title) in
  if ((letter =? 67) && no_us) || contains (s2l "~Log_Definition") title then
    mklas (l_version l) (l_well l) sec (l_params l) (l_other l) (l_custom l) (l_data l) (l_engine_numpy l)
  else if ((letter =? 80) && no_us) || contains (s2l "~Log_Parameter") title then
    mklas (l_version l) (l_well l) (l_curves l) sec (l_other l) (l_custom l) (l_data l) (l_engine_numpy l)
  else if letter =? 86 then
    mklas sec (l_well l) (l_curves l) (l_params l) (l_other l) (l_custom l) (l_data l) (l_engine_numpy l)
  else if letter =? 87 then
    mklas (l_version l) sec (l_curves l) (l_params l) (l_other l) (l_custom l) (l_data l) (l_engine_numpy l)
  else
    mklas (l_version l) (l_well l) (l_curves l) (l_params l) (l_other l)
          (set_custom (tl title) (CItems sec) (l_custom l)) (l_data l) (l_engine_numpy l).

Definition with_las (ps : pstate) (l : las) : pstate :=
  mkps (p_version ps) (p_wrapped ps) (p_null ps) (p_dlm ps) l (p_data ps) (p_las3data ps).

(* one section of the first pass *)
Definition step_section (o : ropts) (ls : list (list N)) (ps : pstate) (p : spos) : pstate + rerr :=
  let title := sp_title p in
  match section_type title with
  | THeader =>
      match version_of (p_version ps) with
      | None => inr EKey
      | Some v =>
          if las_version_eqb v V30 && las3_like title then inr EUnsupported else
          match parse_section v title (o_mcase o) (o_ignore_header_errors o) [ch_hash] (body_lines ls p) with
          | PErr line => inr (EHeader line)
          | POk items =>
              let sec := mksect items (match o_mcase o with CasePreserve => false | _ => true end) in
              match second_upper title with
              | None => inr EKey                       (* title is "~" alone: IndexError *)
              | Some letter =>
                  let ps' := update_steering letter sec ps in
                  inl (with_las ps' (route (is_v30 (p_version ps')) title letter sec (p_las ps')))
              end
          end
      end
  | TOther =>
      let txt := other_text ls p in
      let l := p_las ps in
      match second_upper title with
      | Some 79 => inl (with_las ps (mklas (l_version l) (l_well l) (l_curves l) (l_params l) txt (l_custom l) (l_data l) (l_engine_numpy l)))
      | _ => inl (with_las ps (mklas (l_version l) (l_well l) (l_curves l) (l_params l) (l_other l)
                                      (set_custom (tl title) (CText txt) (l_custom l)) (l_data l) (l_engine_numpy l)))
      end
  | TData => inl (mkps (p_version ps) (p_wrapped ps) (p_null ps) (p_dlm ps) (p_las ps) (p_data ps ++ [p]) (p_las3data ps))
  | TLas3Data => inl (mkps (p_version ps) (p_wrapped ps) (p_null ps) (p_dlm ps) (p_las ps) (p_data ps) (p_las3data ps ++ [p]))
  end.

Fixpoint first_pass (o : ropts) (ls : list (list N)) (ps : pstate) (sects : list spos) : pstate + rerr :=
  match sects with
  | [] => inl ps
  | p :: rest =>
      match step_section o ls ps p with
      | inl ps' => first_pass o ls ps' rest
      | inr e => inr e
      end
  end.

(* ---- data sections ------------------------------------------------------------------------------ *)
Section WithOracles.
Variable fhex : list N -> option (list N).
Variable fstr : list N -> list N.
(* numeq tok lit : float(tok) == float(lit)  (IEEE ==; oracle) *)
Variable numeq : list N -> list N -> bool.

Definition z_to_str (z : Z) : list N :=
  match z with
  | Z0 => [48]
  | Zpos p => N_to_str (Npos p)
  | Zneg p => 45 :: N_to_str (Npos p)
  end.
Definition nulleq (pn : option hval) (tok : list N) : bool :=
  match pn with
  | Some (VInt z) => numeq tok (z_to_str z)
  | Some (VFloat x) => numeq tok x
  | _ => false
  end.

Definition nan_column (n : nat) : list cell := List.repeat CNaN n.

(* bind the yielded columns to the curves: existing curves in order, surplus columns become new
   unnamed curves, curves without a column are NaN-filled with the common length *)
Fixpoint bind_columns (tr : bool) (curves : list hitem) (idx : nat) (cols : list (list cell))
  : list hitem :=
  match cols with
  | [] => curves
  | _ :: cols' =>
      if Nat.ltb idx (List.length curves) then bind_columns tr curves (S idx) cols'
      else bind_columns tr (sect_append tr curves (new_item [] [] (VStr []) [])) (S idx) cols'
  end.

Definition curve_length (cols : list (list cell)) : nat :=
  match cols with [] => 0%nat | c :: _ => List.length c end.

Definition data_for_curves (ncurves : nat) (cols : list (list cell)) : list (list cell) :=
  cols ++ List.repeat (nan_column (curve_length cols)) (ncurves - List.length cols).

Definition read_one_data (o : ropts) (ls : list (list N)) (ps : pstate) (d : dlm) (p : spos) (l : las)
  : las + rerr :=
  let body := body_lines ls p in
  let wrapped := hval_is_str (p_wrapped ps) (s2l "YES") in
  let use_numpy := o_engine_numpy o && negb wrapped && o_null_strict o in
  let subs0 := match d with DComma => comma_delim_subs | _ => default_subs end in
  let (sniffed, subs) := inspect_twice d body subs0 in
  let ncurves := List.length (s_items (l_curves l)) in
  let wrap_declared :=
    match sect_find (s_transforms (l_version l)) (s2l "WRAP") (s_items (l_version l)) with
    | Some it => hval_is_str (i_value it) (s2l "YES")
    | None => false
    end in
  let n_columns :=
    match sniffed with
    | None => ncurves
    | Some n => if wrap_declared && Nat.ltb n ncurves then ncurves else n
    end in
  let from_numpy := if use_numpy then numpy_engine fhex body else None in
  let res :=
    match from_numpy with
    | Some cols => DOk cols
    | None => normal_engine fhex fstr d subs n_columns body
    end in
  match res with
  | DErrReshape => inr EReshape
  | DOk cols =>
      let cols := null_columns (nulleq (p_null ps)) (o_null_strict o) 0%nat cols in
      let tr := s_transforms (l_curves l) in
      let curves' := bind_columns tr (s_items (l_curves l)) 0%nat cols in
      inl (mklas (l_version l) (l_well l) (mksect curves' tr) (l_params l) (l_other l) (l_custom l)
                 (data_for_curves (List.length curves') cols)
                 (match from_numpy with Some _ => true | None => false end))
  end.

Fixpoint read_data_sections (o : ropts) (ls : list (list N)) (ps : pstate) (d : dlm)
         (sects : list spos) (l : las) : las + rerr :=
  match sects with
  | [] => inl l
  | p :: rest =>
      match read_one_data o ls ps d p l with
      | inl l' => read_data_sections o ls ps d rest l'
      | inr e => inr e
      end
  end.

Definition read (o : ropts) (text : list N) : rres :=
  let ls := lines_keep text in
  let sects := find_sections ls in
  match sects with
  | [] => RErr ENoSections
  | _ =>
      let ps0 := mkps (VFloat (s2l "2.0")) (VStr (s2l "YES")) None (VStr (s2l "SPACE")) empty_las [] [] in
      match first_pass o ls ps0 sects with
      | inr e => RErr e
      | inl ps =>
          match dlm_of (p_dlm ps) with
          | None => RErr EKey
          | Some d =>
              if o_ignore_data o then ROk (p_las ps) else
              let dsects := match p_data ps with [] => p_las3data ps | x => x end in
              match read_data_sections o ls ps d dsects (p_las ps) with
              | inl l => ROk l
              | inr e => RErr e
              end
          end
      end
  end.

End WithOracles.
