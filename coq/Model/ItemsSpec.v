(* Model.ItemsSpec — what C13 claims about Model.Items, written from the statement.
   Definitions only. *)
From Coq Require Import List NArith ZArith Bool String.
Import ListNotations.
Require Import PyStr Items.
Open Scope N_scope.

(* I1: session mnemonics are pairwise distinct under the section's comparison *)
Definition I1 (s : section) : Prop :=
  forall i j a b, i <> j -> nth_error (items s) i = Some a -> nth_error (items s) j = Some b ->
                  mnemonic_compare (transforms s) (sess a) (sess b) = false.

(* I2: every item is found by its own session mnemonic and the lookup returns that very item
   (its position) -- by item access; attribute access agrees by C15_attr *)
Definition I2 (s : section) : Prop :=
  forall n it, nth_error (items s) n = Some it ->
               lookup_ix s (KStr (sess it)) = IOk n /\ getitem s (KStr (sess it)) = IOk it.

(* I3: a session mnemonic is the useful mnemonic (the original, or UNKNOWN when that is blank),
   possibly followed by ":<number>" -- in particular blank originals show as UNKNOWN[:k] *)
Definition wf_item (it : item) : Prop :=
  sess it = useful it \/ exists k, sess it = useful it ++ suffix k.
Definition I3 (s : section) : Prop := forall it, In it (items s) -> wf_item it.

Definition Inv (s : section) : Prop := I1 s /\ I2 s /\ I3 s.

(* The class of the known finding "suffix-clash": among the mnemonics in play one is literally
   the useful form of another followed by a generated suffix ":<k>" (A together with A:1).
   The theorems exclude exactly this. *)
Definition no_suffix_clash (tr : bool) (names : list (list N)) : Prop :=
  forall a b k, In a names -> In b names ->
                mnemonic_compare tr (useful_of a ++ suffix k) (useful_of b) = false.

(* position of an item inside its group: how many items with a matching useful mnemonic
   come strictly before position n *)
Definition rank (tr : bool) (t : list N) (l : list item) (n : nat) : nat :=
  group_count tr t (firstn n l).

(* the session name the suffix rule gives position n of the list l for the group of t *)
Definition numbered (tr : bool) (t : list N) (l : list item) (n : nat) (it : item) : list N :=
  if in_group tr t it && Nat.ltb 1 (group_count tr t l)
  then useful it ++ suffix (S (rank tr t l n))
  else sess it.

(* closed form of the session names after reading the mnemonics `names` in order *)
Definition names_count (tr : bool) (u : list N) (names : list (list N)) : nat :=
  List.length (filter (fun m => mnemonic_compare tr (useful_of m) u) names).
Definition spec_sess (tr : bool) (names : list (list N)) (n : nat) (m : list N) : list N :=
  let u := useful_of m in
  if Nat.ltb 1 (names_count tr u names)
  then u ++ suffix (S (names_count tr u (firstn n names)))
  else u.
Fixpoint spec_keys_aux (tr : bool) (names : list (list N)) (n : nat) (rest : list (list N)) : list (list N) :=
  match rest with
  | [] => []
  | m :: r => spec_sess tr names n m :: spec_keys_aux tr names (S n) r
  end.
Definition spec_keys (tr : bool) (names : list (list N)) : list (list N) :=
  spec_keys_aux tr names 0 names.
