(* Model.Curves — the curve collection of a LASFile (lasio/las.py: __getitem__, __setitem__,
   keys/values/items, data, set_data, index, append_curve_item, insert_curve_item,
   replace_curve_item, append_curve, insert_curve, delete_curve, update_curve, get_curve) as a
   state machine over the section model of Model.Items (lasio/las_items.py).
   Definitions only (total, executable under vm_compute); the lemmas are in
   Proofs/CurvesProofs.v, the statements in Props/C14.v, the list-model specification in
   Model/CurvesSpec.v.

   State.  `LASFile.curves` is a SectionItems of CurveItems: a `section` of Model.Items whose
   items carry in `it_data` the curve's 1-D array as a list of ABSTRACT SAMPLE IDS (a `list N`;
   never a float: which double an id stands for is the harness's business).  Objects have
   value semantics (an array is an immutable value: numpy views/copies are outside the model).

   The model follows the tree AFTER the fixes c85add7 (set_data truncate slices), 290a2b1
   (replace_curve_item normalises a negative index) and 168ab51 (set_data checks the width
   before it changes anything); the pre-fix variants that the refutation examples of
   Props/C14.v need are kept under the names *_prefix. *)
From Coq Require Import List NArith ZArith Bool String.
Import ListNotations.
Require Import PyStr Items.
Open Scope N_scope.

(* ---- arguments ------------------------------------------------------------------------ *)
(* CurveItem(mnemonic, unit, value, descr, data) / append_curve(mnemonic, data, unit, descr, value) *)
Record cargs := mkCargs {
  c_mnem : str; c_unit : str; c_value : str; c_descr : str; c_data : list N }.

(* a freshly constructed CurveItem: session mnemonic = useful mnemonic (UNKNOWN for a blank) *)
Definition new_curve (a : cargs) : item :=
  mkItem (c_mnem a) (useful_of (c_mnem a)) (c_unit a) (c_value a) (c_descr a) (c_data a) true.
(* CurveItem("") : what set_data appends for a surplus column *)
Definition blank_curve : item := new_curve (mkCargs [] [] [] [] []).

(* the object handed to append_curve_item / insert_curve_item: a CurveItem, or something that
   is not one (HeaderItem, str, ...: `assert isinstance(curve_item, CurveItem)` fails) *)
Inductive cobj := CItem (a : cargs) | NotCurveItem.

(* update_curve(data=False, unit=False, descr=False, value=False): None = "no update desired" *)
Record upd := mkUpd {
  u_data : option (list N); u_unit : option str; u_descr : option str; u_value : option str }.
Definition or_keep {A} (o : option A) (old : A) : A := match o with Some x => x | None => old end.
Definition apply_upd (u : upd) (it : item) : item :=
  mkItem (orig it) (sess it) (or_keep (u_unit u) (it_unit it)) (or_keep (u_value u) (it_value it))
         (or_keep (u_descr u) (it_descr it)) (or_keep (u_data u) (it_data it)) (is_curve it).

(* the array handed to set_data: 1-D, or 2-D given by its columns (all of one length: the row
   count is the length of the first column; [] is an array without columns) *)
Inductive arr := Arr1 (d : list N) | Arr2 (cols : list (list N)).
(* data.size > 0 for a 2-D array *)
Definition size_pos (cols : list (list N)) : bool :=
  match cols with [] => false | c :: _ => match c with [] => false | _ => true end end.

(* what `las[key] = value` is given *)
Inductive sval := VArr (d : list N) | VItem (a : cargs).

(* ---- the dictionary view ------------------------------------------------------------------ *)
(* self.curves.keys().index(k) / `k in self.curves.keys()`: plain list search with ==, i.e. EXACT
   comparison of session mnemonics whatever mnemonic_transforms says *)
Definition key_index (ks : list str) (k : str) : option nat := find_ix (str_eqb k) ks.

(* how delete_curve / update_curve address a curve: mnemonic=..., ix=...; "the index takes
   precedence over the mnemonic"; with neither, list.index(None) raises ValueError *)
Definition resolve_addr (ks : list str) (mn : option str) (ix : option Z) : ires Z :=
  match ix with
  | Some z => IOk z
  | None =>
      match mn with
      | Some k => match key_index ks k with Some n => IOk (Z.of_nat n) | None => IErr ValueError end
      | None => IErr ValueError
      end
  end.

(* ---- operations ------------------------------------------------------------------------------ *)
(* insert_curve_item(ix, item): assert isinstance; self.curves.insert(ix, item) *)
Definition insert_curve_item (s : section) (ix : Z) (o : cobj) : ires section :=
  match o with
  | CItem a => IOk (insert s ix (new_curve a))
  | NotCurveItem => IErr AssertionError
  end.
(* append_curve_item(item) = insert_curve_item(len(self.curves), item) *)
Definition len_z (s : section) : Z := Z.of_nat (List.length (items s)).
Definition append_curve_item (s : section) (o : cobj) : ires section := insert_curve_item s (len_z s) o.
(* insert_curve(ix, mnemonic, data, unit, descr, value) / append_curve(...) *)
Definition insert_curve (s : section) (ix : Z) (a : cargs) : ires section := insert_curve_item s ix (CItem a).
Definition append_curve (s : section) (a : cargs) : ires section := insert_curve s (len_z s) a.

(* delete_curve(mnemonic, ix): self.curves.pop(ix) -- plain list.pop: no re-numbering *)
Definition pop_curve (s : section) (ix : Z) : ires section :=
  match py_del ix (items s) with
  | Some l => IOk (with_items s l)
  | None => IErr IndexError
  end.
Definition delete_curve (s : section) (mn : option str) (ix : option Z) : ires section :=
  match resolve_addr (keys s) mn ix with
  | IOk z => pop_curve s z
  | IErr e => IErr e
  end.

(* update_curve(mnemonic, data, ix=, unit=, descr=, value=): curve = self.curves[ix] is
   SectionItems.__getitem__ with an int key (Items.lookup_ix); then plain attribute stores *)
Definition update_at_ix (s : section) (ix : Z) (u : upd) : ires section :=
  match lookup_ix s (KInt ix) with
  | IOk n => IOk (with_items s (update_at n (apply_upd u) (items s)))
  | IErr e => IErr e
  end.
Definition update_curve (s : section) (mn : option str) (ix : option Z) (u : upd) : ires section :=
  match resolve_addr (keys s) mn ix with
  | IOk z => update_at_ix s z u
  | IErr e => IErr e
  end.

(* replace_curve_item(ix, item): n = len; delete_curve(ix=ix); if ix < 0: ix += n;
   insert_curve_item(ix, item) *)
Definition replace_curve_item (s : section) (ix : Z) (a : cargs) : ires section :=
  match pop_curve s ix with
  | IOk s1 => insert_curve_item s1 (if (ix <? 0)%Z then (ix + len_z s)%Z else ix) (CItem a)
  | IErr e => IErr e
  end.
(* the tree before 290a2b1: the index is used as it is for the insertion *)
Definition replace_curve_item_prefix (s : section) (ix : Z) (a : cargs) : ires section :=
  match pop_curve s ix with
  | IOk s1 => insert_curve_item s1 ix (CItem a)
  | IErr e => IErr e
  end.

(* las[key] = value: the four branches of LASFile.__setitem__ *)
Definition setitem (s : section) (k : str) (v : sval) : ires section :=
  match v with
  | VItem a =>
      if negb (str_eqb k (sess (new_curve a))) then IErr KeyError      (* key != value.mnemonic *)
      else match key_index (keys s) k with
           | Some n => replace_curve_item s (Z.of_nat n) a
           | None => append_curve_item s (CItem a)
           end
  | VArr d =>
      match key_index (keys s) k with
      | Some _ => update_curve s (Some k) None (mkUpd (Some d) None None None)
      | None => append_curve s (mkCargs k [] [] [] d)
      end
  end.

(* ---- set_data --------------------------------------------------------------------------------- *)
(* while data.shape[1] > len(self.curves): self.curves.append(CurveItem("")) *)
Fixpoint extend (s : section) (k : nat) : section :=
  match k with O => s | S k' => extend (append s blank_curve) k' end.
(* while len(self.curves) > len(names): names.append("") *)
Definition pad_names (names : list str) (n : nat) : list str :=
  names ++ repeat [] (n - List.length names).
(* names = [c.original_mnemonic ...] when `not names` (None or an empty list) *)
Definition names_for (s : section) (names : option (list str)) : list str :=
  match names with
  | None | Some [] => origs s
  | Some l => pad_names l (List.length (items s))
  end.
Definition set_col (c : list N) (it : item) : item :=
  mkItem (orig it) (sess it) (it_unit it) (it_value it) (it_descr it) c (is_curve it).
(* for i, curve in enumerate(self.curves): curve.mnemonic = names[i]; curve.data = data[:, i].
   set_data calls this with at least as many names and columns as curves (padding, width
   check: CurvesProofs.set_data_lengths), so the second clause is never reached there *)
Fixpoint bind_cols (its : list item) (names : list str) (cols : list (list N)) : list item :=
  match its, names, cols with
  | it :: r, m :: nr, c :: cr => set_col c (set_mnemonic it m) :: bind_cols r nr cr
  | _, _, _ => its
  end.

Definition set_data (s : section) (a : arr) (names : option (list str)) (truncate : bool) : ires section :=
  match a with
  | Arr1 d =>
      (* data[:, :n] and data.shape[1] both raise IndexError on a 1-D array *)
      if truncate then IErr IndexError
      else match d with
           | [] => IOk (assign_all s)          (* data.size == 0: nothing but the suffix rule *)
           | _ => IErr IndexError
           end
  | Arr2 cols0 =>
      let n := List.length (items s) in
      let cols := if truncate then firstn n cols0 else cols0 in
      if size_pos cols then
        if Nat.ltb (List.length cols) n then IErr IndexError
        else
          let s1 := extend s (List.length cols - n) in
          IOk (assign_all (with_items s1 (bind_cols (items s1) (names_for s1 names) cols)))
      else IOk (assign_all s)
  end.
(* the tree before c85add7: `data[:, len(self.curves)]` selects ONE column (IndexError when the
   array is not wider than the curve list); the resulting 1-D array then fails at
   data.shape[1] unless it is empty *)
Definition set_data_truncate_prefix (s : section) (cols0 : list (list N)) : ires section :=
  match nth_error cols0 (List.length (items s)) with
  | None => IErr IndexError
  | Some [] => IOk (assign_all s)
  | Some _ => IErr IndexError
  end.

(* ---- observations ------------------------------------------------------------------------------ *)
(* keys() = [c.mnemonic ...] is Items.keys; the originals are Items.origs *)
Definition values (s : section) : list (list N) := List.map it_data (items s).
Definition las_items (s : section) : list (str * list N) := List.map (fun it => (sess it, it_data it)) (items s).
Definition metas (s : section) : list (str * str * str) :=
  List.map (fun it => (it_unit it, it_value it, it_descr it)) (items s).

(* las[i] (int) : self.curves[i].data ;  las[k] (str): `k in [c.mnemonic ...]` (exact) or
   KeyError, then self.curves[k].data -- SectionItems.__getitem__, which compares with
   mnemonic_compare *)
Definition las_getitem (s : section) (k : key) : ires (list N) :=
  match k with
  | KInt _ => ires_map it_data (getitem s k)
  | KStr m => if existsb (str_eqb m) (keys s) then ires_map it_data (getitem s k) else IErr KeyError
  end.
(* index = self.curves[0].data *)
Definition las_index (s : section) : ires (list N) := las_getitem s (KInt 0).
(* get_curve(mnemonic): the first curve whose session mnemonic equals it, else None *)
Definition get_curve (s : section) (m : str) : option item := List.find (fun it => str_eqb (sess it) m) (items s).

(* data = np.vstack([c.data ...]).T : defined when all curves have one length r (np.vstack
   raises ValueError otherwise); r rows, row j = [curve_0[j], curve_1[j], ...]; a file
   without curves has the empty (0, 0) array *)
Definition common_len (cols : list (list N)) : option nat :=
  match cols with
  | [] => Some O
  | c :: r => if forallb (fun d => Nat.eqb (List.length d) (List.length c)) r then Some (List.length c) else None
  end.
Definition transpose (r : nat) (cols : list (list N)) : list (list N) :=
  List.map (fun j => List.map (fun c => nth j c 0) cols) (seq 0 r).
Definition las_data (s : section) : ires (list (list N)) :=
  match common_len (values s) with
  | Some r => IOk (transpose r (values s))
  | None => IErr ValueError
  end.
(* data.shape *)
Definition las_data_shape (s : section) : ires (nat * nat) :=
  match common_len (values s) with
  | Some r => IOk (r, List.length (items s))
  | None => IErr ValueError
  end.

(* ---- the state machine ------------------------------------------------------------------------- *)
Inductive op :=
  | OAppendCurve (a : cargs)                                  (* append_curve(...) *)
  | OInsertCurve (ix : Z) (a : cargs)                         (* insert_curve(ix, ...) *)
  | OAppendItem (o : cobj)                                    (* append_curve_item(obj) *)
  | OInsertItem (ix : Z) (o : cobj)                           (* insert_curve_item(ix, obj) *)
  | ODelete (mn : option str) (ix : option Z)                 (* delete_curve(mnemonic=, ix=) *)
  | OUpdate (mn : option str) (ix : option Z) (u : upd)       (* update_curve(mnemonic=, ix=, ...) *)
  | OReplace (ix : Z) (a : cargs)                             (* replace_curve_item(ix, CurveItem(...)) *)
  | OSetItem (k : str) (v : sval)                             (* las[k] = array | CurveItem(...) *)
  | OSetData (a : arr) (names : option (list str)) (truncate : bool).

Definition step (s : section) (o : op) : ires section :=
  match o with
  | OAppendCurve a => append_curve s a
  | OInsertCurve ix a => insert_curve s ix a
  | OAppendItem x => append_curve_item s x
  | OInsertItem ix x => insert_curve_item s ix x
  | ODelete mn ix => delete_curve s mn ix
  | OUpdate mn ix u => update_curve s mn ix u
  | OReplace ix a => replace_curve_item s ix a
  | OSetItem k v => setitem s k v
  | OSetData a names t => set_data s a names t
  end.
(* an operation that raises leaves the curves as they were *)
Definition step_keep (s : section) (o : op) : section :=
  match step s o with IOk s' => s' | IErr _ => s end.
Definition run (s : section) (ops : list op) : section := fold_left step_keep ops s.
(* ok / the exception class of every step *)
Definition outcome {A} (r : ires A) : option ierr := match r with IOk _ => None | IErr e => Some e end.
Fixpoint outcomes (s : section) (ops : list op) : list (option ierr) :=
  match ops with
  | [] => []
  | o :: r => outcome (step s o) :: outcomes (step_keep s o) r
  end.

(* the mnemonics an operation brings into the section (for the C13 hypothesis) *)
Definition op_names (o : op) : list str :=
  match o with
  | OAppendCurve a | OInsertCurve _ a | OReplace _ a => [c_mnem a]
  | OAppendItem (CItem a) | OInsertItem _ (CItem a) => [c_mnem a]
  | OAppendItem NotCurveItem | OInsertItem _ NotCurveItem => []
  | ODelete _ _ | OUpdate _ _ _ => []
  | OSetItem k (VArr _) => [k]
  | OSetItem _ (VItem a) => [c_mnem a]
  | OSetData _ names _ => [] :: match names with Some l => l | None => [] end
  end.

(* ... as it is executed: `las[k] = array` on a key that exists updates that curve and brings
   no new mnemonic (so las["A:1"] = array is harmless while A:1 is a key) *)
Definition brought (s : section) (o : op) : list str :=
  match o with
  | OSetItem k (VArr _) => match key_index (keys s) k with Some _ => [] | None => [k] end
  | _ => op_names o
  end.
Fixpoint brought_all (s : section) (ops : list op) : list str :=
  match ops with
  | [] => []
  | o :: r => brought s o ++ brought_all (step_keep s o) r
  end.

(* a fresh LASFile() has an empty ~Curves section (mnemonic_transforms False); reading a file
   appends the parsed curve items in file order and then binds the data columns *)
Definition fresh_las : section := empty_section false.
Definition read_curves (tr : bool) (l : list cargs) : section :=
  fold_left (fun s a => append s (new_curve a)) l (empty_section tr).

(* ---- several LASFiles ----------------------------------------------------------------------- *)
(* a world is a list of LASFiles (their curve sections); an operation names its target *)
Definition world := list section.
Definition wstep (w : world) (t : nat) (o : op) : world :=
  match nth_error w t with
  | Some s => replace_at t (step_keep s o) w
  | None => w
  end.
Definition wrun (w : world) (ops : list (nat * op)) : world :=
  fold_left (fun w p => wstep w (fst p) (snd p)) ops w.
(* the operations of a history that address file t *)
Definition ops_of (t : nat) (ops : list (nat * op)) : list op :=
  List.map snd (filter (fun p => Nat.eqb (fst p) t) ops).
