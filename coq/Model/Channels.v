(* Model.Channels — how lasio turns the first argument of lasio.read / LASFile.read into a
   text: reader.check_for_path_obj, open_file, open_with_codecs, adhoc_test_encoding,
   get_encoding (reader.py:66-263) and the head of LASFile.read (las.py: open_file call,
   "LASF" test, seek(0)).  Definitions only.

   What is an oracle here (Section variables; every theorem is universally quantified over
   them, nothing is an axiom):
     fs                 the file system: path string -> bytes of a regular file (None: any OSError)
     absolute           str(pathlib.Path(p).absolute())
     is_url             URL_REGEXP.match(first_line) is not None     (URLs are OUT OF SCOPE: the
                        model only says that the URL branch is taken; it delivers no text)
     decode             bytes.decode as done by io.open(..., encoding=enc, errors=e): None = the
                        read raises (UnicodeDecodeError / LookupError)
     chardet_installed  whether `import chardet` succeeds
     chardet_detect     chardet.detect(raw)["encoding"]
     readline_ok        io.open(filename, encoding=enc).readline() does not raise
                        UnicodeDecodeError (CPython decodes a whole buffered chunk, not just the
                        first line, so this is an oracle rather than "decode of the first line")
     locale_encoding    what io.open uses when encoding=None
     unl                universal-newline translation of text mode (newline=None)

   Encoding names and the `errors` argument are Python strings (code-point lists): the name
   that ends up in `las.encoding` is exactly the string chosen here ("utf-8-sig", the
   caller's spelling of encoding=, chardet's spelling, or one of the ad-hoc names).

   Not modelled: the position of a passed-in file object (read(4)/seek(0) rewinds it to 0: the
   object is represented by the text it yields from position 0), negative or non-integer
   autodetect_encoding_chars, autodetect_encoding values that are neither bool nor str,
   encoding_kwargs other than the four named ones (TypeError in Python). *)
From Coq Require Import List NArith Bool String.
Import ListNotations.
Require Import PyStr.
Open Scope string_scope. Open Scope N_scope.

Inductive cerr :=
  | EIndexError          (* lines[0] of an empty string *)
  | EOSError             (* os.path.getsize / open failed *)
  | EDecodeError         (* UnicodeDecodeError / LookupError while reading *)
  | EUnboundLocalError   (* get_encoding with a str that is not "chardet" *)
  | EAttributeError      (* get_encoding(False, ..): unreachable from open_with_codecs *)
  | EImportError         (* autodetect_encoding="chardet" without chardet *)
  | ELidar               (* text starts with "LASF" *)
  | EUrlOutOfScope.      (* the URL branch: not modelled *)

Inductive cres (A : Type) := COk (a : A) | CErr (e : cerr).
Arguments COk {A} a.
Arguments CErr {A} e.

(* first argument of lasio.read *)
Inductive file_ref :=
  | RStr (s : str)     (* a Python str: LAS content, a file name, or a URL *)
  | RPath (p : str)    (* a pathlib.Path; p = str(path) *)
  | RObj (t : str).    (* anything else (open text file, io.StringIO): used as is; t is the
                          text obj.read() yields from position 0 *)

(* autodetect_encoding: True | False | a str *)
Inductive autoval := AutoTrue | AutoFalse | AutoStr (s : str).

Record kwargs := {
  kw_encoding : option str;     (* encoding=None *)
  kw_errors : str;              (* encoding_errors="replace" *)
  kw_auto : autoval;            (* autodetect_encoding=True *)
  kw_nchars : option N          (* autodetect_encoding_chars=4000 *)
}.
Definition default_kwargs : kwargs :=
  {| kw_encoding := None; kw_errors := s2l "replace"; kw_auto := AutoTrue; kw_nchars := Some 4000 |}.

Definition enc_utf8 : str := s2l "utf-8".
Definition enc_utf8sig : str := s2l "utf-8-sig".
Definition BOM_UTF8 : list N := [239; 187; 191].
Definition adhoc_list : list str := [s2l "ascii"; s2l "windows-1252"; s2l "latin-1"].

(* which branch of open_file is taken *)
Inductive channel :=
  | ChUrl (u : str)
  | ChContent (t : str)        (* StringIO(file_ref): the string itself, no newline translation *)
  | ChFilename (p : str)       (* open_with_codecs(first_line, ..) *)
  | ChPassthrough (t : str)    (* not a str: returned unchanged *)
  | ChIndexError.

Definition auto_truthy (a : autoval) : bool :=
  match a with AutoTrue => true | AutoFalse => false | AutoStr [] => false | AutoStr (_ :: _) => true end.
Definition enc_truthy (e : option str) : bool :=
  match e with Some (_ :: _) => true | _ => false end.

(* raw.startswith(codecs.BOM_UTF8) on raw = the first min(32, size) bytes *)
Definition has_bom (b : list N) : bool := startswith BOM_UTF8 (firstn 32 b).

(* `if autodetect_encoding_chars: nbytes = int(..) else: nbytes = None`; read(None) = whole file *)
Definition nbytes_of (k : option N) : option N :=
  match k with Some 0 => None | x => x end.
Definition read_n (n : option N) (b : list N) : list N :=
  match n with None => b | Some k => firstn (N.to_nat k) b end.

(* the two local variables open_with_codecs updates *)
Record ostate := { o_enc : option str; o_auto : autoval }.

Section World.
  Variable fs : str -> option (list N).
  Variable absolute : str -> str.
  Variable is_url : str -> bool.
  Variable decode : str -> str -> list N -> option str.
  Variable chardet_installed : bool.
  Variable chardet_detect : list N -> option str.
  Variable readline_ok : str -> list N -> bool.
  Variable locale_encoding : str.
  Variable unl : str -> str.

  (* ---- open_file: which kind of thing is the argument ---------------------------------- *)
  Definition dispatch_str (s : str) : channel :=
    match splitlines s with
    | [] => ChIndexError                              (* lines[0] *)
    | first :: rest =>
        if is_url first then ChUrl first
        else match rest with
             | _ :: _ => ChContent s                  (* len(lines) > 1 *)
             | [] => ChFilename first                 (* open_with_codecs(first_line) *)
             end
    end.

  Definition dispatch (r : file_ref) : channel :=
    match r with
    | RStr s => dispatch_str s
    | RPath p => dispatch_str (absolute p)            (* check_for_path_obj *)
    | RObj t => ChPassthrough t
    end.

  (* ---- get_encoding(auto, raw) ---------------------------------------------------------- *)
  (* auto.lower() == "chardet": ASCII lower-casing is exact here, no non-ASCII character
     lower-cases to one of the letters c h a r d e t *)
  Definition get_encoding (a : autoval) (raw : list N) : cres (option str) :=
    match a with
    | AutoTrue => if chardet_installed then COk (chardet_detect raw) else COk None
    | AutoStr s =>
        if str_eqb (List.map ascii_lower s) (s2l "chardet") then
          if chardet_installed then COk (chardet_detect raw) else CErr EImportError
        else CErr EUnboundLocalError
    | AutoFalse => CErr EAttributeError
    end.

  (* ---- adhoc_test_encoding --------------------------------------------------------------- *)
  Fixpoint adhoc_from (l : list str) (b : list N) : option str :=
    match l with
    | [] => None
    | e :: l' => if readline_ok e b then Some e else adhoc_from l' b
    end.
  Definition adhoc_test_encoding (b : list N) : option str := adhoc_from adhoc_list b.

  (* ---- open_with_codecs: the three `if` blocks, in source order -------------------------- *)
  Definition step_bom (b : list N) (s : ostate) : ostate :=
    if has_bom b then {| o_enc := Some enc_utf8sig; o_auto := AutoFalse |} else s.

  Definition step_detect (nb : option N) (b : list N) (s : ostate) : cres ostate :=
    if auto_truthy (o_auto s) && negb (enc_truthy (o_enc s)) then
      match get_encoding (o_auto s) (read_n nb b) with
      | COk e => COk {| o_enc := e; o_auto := AutoFalse |}
      | CErr x => CErr x
      end
    else COk s.

  Definition step_adhoc (b : list N) (s : ostate) : ostate :=
    if negb (auto_truthy (o_auto s)) && negb (enc_truthy (o_enc s)) then
      {| o_enc := adhoc_test_encoding b; o_auto := o_auto s |}
    else s.

  (* the encoding handed to io.open and recorded as las.encoding *)
  Definition choose_encoding (k : kwargs) (b : list N) : cres (option str) :=
    match step_detect (nbytes_of (kw_nchars k)) b
                      (step_bom b {| o_enc := kw_encoding k; o_auto := kw_auto k |}) with
    | CErr x => CErr x
    | COk s => COk (o_enc (step_adhoc b s))
    end.

  (* io.open(filename, "r", encoding=enc, errors=e).read(): decode, then newline translation *)
  Definition io_open_text (b : list N) (enc : option str) (errors : str) : cres str :=
    match decode (match enc with Some e => e | None => locale_encoding end) errors b with
    | Some t => COk (unl t)
    | None => CErr EDecodeError
    end.

  Definition open_with_codecs (p : str) (k : kwargs) : cres (str * option str) :=
    match fs p with
    | None => CErr EOSError
    | Some b =>
        match choose_encoding k b with
        | CErr x => CErr x
        | COk e =>
            match io_open_text b e (kw_errors k) with
            | CErr x => CErr x
            | COk t => COk (t, e)
            end
        end
    end.

  (* ---- open_file: (text the file object delivers, encoding recorded as las.encoding) ----- *)
  Definition open_file (r : file_ref) (k : kwargs) : cres (str * option str) :=
    match dispatch r with
    | ChIndexError => CErr EIndexError
    | ChUrl _ => CErr EUrlOutOfScope
    | ChContent t => COk (t, None)
    | ChPassthrough t => COk (t, None)
    | ChFilename p => open_with_codecs p k
    end.

  (* head of LASFile.read: read(4) == "LASF" -> IOError, else seek(0) *)
  Definition read_source (r : file_ref) (k : kwargs) : cres (str * option str) :=
    match open_file r k with
    | CErr x => CErr x
    | COk (t, e) => if str_eqb (firstn 4 t) (s2l "LASF") then CErr ELidar else COk (t, e)
    end.

  (* the caller's own  open(p, encoding=enc)  (text mode, newline=None, errors="strict"): the
     "open text file" channel hands lasio an object that yields this text *)
  Definition py_open (p : str) (enc : str) : cres str :=
    match fs p with
    | None => CErr EOSError
    | Some b => io_open_text b (Some enc) (s2l "strict")
    end.
End World.

Definition text_of (r : cres (str * option str)) : option str :=
  match r with COk (t, _) => Some t | CErr _ => None end.
Definition encoding_of (r : cres (str * option str)) : option (option str) :=
  match r with COk (_, e) => Some e | CErr _ => None end.

(* ---- newline styles of files on disk, and the concrete universal-newline translation ------ *)
Inductive nl_style := LF | CRLF | CR.
Definition nl_seq (n : nl_style) : str :=
  match n with LF => [10] | CRLF => [13; 10] | CR => [13] end.
(* t (LF-terminated lines) written with line terminator n *)
Definition with_nl (n : nl_style) (t : str) : str :=
  flat_map (fun c => if c =? 10 then nl_seq n else [c]) t.
Definition no_cr (t : str) : bool := forallb (fun c => negb (c =? 13)) t.

(* "\r\n" -> "\n", lone "\r" -> "\n" *)
Fixpoint unl_impl (s : str) : str :=
  match s with
  | [] => []
  | c :: s' =>
      if c =? 13 then
        10 :: match s' with
              | d :: s'' => if d =? 10 then unl_impl s'' else unl_impl s'
              | [] => []
              end
      else c :: unl_impl s'
  end.
