(* Model.DataRead — inspect_data_section, the normal engine, the numpy engine (a model of
   the genfromtxt subset used), reshape, dtype inference, NULL -> NaN, binding of columns
   to curves (reader.py 328-579; las.py 343-511).  Definitions only.

   Floating point is never modelled: a numeric cell is identified by its token text, and
   two CPython facts per token are oracles handed in by the caller:
     fhex tok  = Some (float.hex(float(tok)))   when float(tok) succeeds, else None
     fstr tok  = str(np.float64(tok))           (only used for numbers in text columns)   *)
From Coq Require Import List NArith Bool String.
Import ListNotations.
Require Import PyStr Regex Regexes NumLit.
Open Scope string_scope.
Open Scope list_scope.
Open Scope N_scope.

Inductive cell := CNum (tok : list N) | CNaN | CStr (s : list N).

Inductive dlm := DSpace | DComma | DTab.

Section WithOracles.
Variable fhex : list N -> option (list N).
Variable fstr : list N -> list N.

Definition is_float_tok (t : list N) : bool :=
  match fhex t with Some _ => true | None => false end.

(* a numeric cell; a token that float() reads as NaN ("nan", "NaN", ...) is a NaN sample *)
Definition mk_num (t : list N) : cell :=
  match fhex t with
  | Some h => if str_eqb h (s2l "nan") then CNaN else CNum t
  | None => CNum t
  end.

(* ---- substitutions --------------------------------------------------------------------- *)
Inductive rsub := SubComma | SubRunonMinus | SubRunonDot.
Definition apply_sub (s : rsub) (line : list N) : list N :=
  match s with
  | SubComma => re_sub rx_sub_comma tpl_sub_comma line
  | SubRunonMinus => re_sub rx_sub_runon_minus tpl_sub_runon_minus line
  | SubRunonDot => re_sub rx_sub_runon_dot tpl_sub_runon_dot line
  end.
Definition apply_subs (ss : list rsub) (line : list N) : list N :=
  fold_left (fun l s => apply_sub s l) ss line.
Definition default_subs : list rsub := [SubComma; SubRunonMinus; SubRunonDot].
Definition comma_delim_subs : list rsub := [SubRunonMinus; SubRunonDot].
Definition rsub_eqb (a b : rsub) : bool :=
  match a, b with SubComma, SubComma | SubRunonMinus, SubRunonMinus | SubRunonDot, SubRunonDot => true | _, _ => false end.
Definition drop_hyphen_subs (ss : list rsub) : list rsub :=
  List.filter (fun s => negb (rsub_eqb s SubRunonMinus)) ss.

(* ---- splitters ---------------------------------------------------------------------------- *)
Definition split_line (d : dlm) (line : list N) : list (list N) :=
  match d with
  | DSpace => re_findall_joined rx_split_sow line
  | DTab => re_findall_joined rx_split_sot line
  | DComma => split_char ch_comma line
  end.

(* ---- inspect_data_section: the sniffed column count (None = "-1") and recommended subs ----- *)
Fixpoint inspect_loop (d : dlm) (body : list (list N)) (i : nat) (subs : list rsub)
         (hyph : nat) (counts : list nat) : nat * list nat :=
  match body with
  | [] => (hyph, rev counts)
  | raw :: rest =>
      let line := strip raw in
      match line with
      | [] => inspect_loop d rest (S i) subs hyph counts
      | _ =>
          if startswith [ch_hash] line then inspect_loop d rest (S i) subs hyph counts
          else
            let hyph' := if in_str ch_minus line then S hyph else hyph in
            let n := List.length (split_line d (apply_subs subs line)) in
            let counts' := n :: counts in
            match rest with
            | [] => (hyph', rev counts')              (* line_no == last line of the section *)
            | _ => if Nat.ltb 20 (List.length counts') then (hyph', rev counts')
                   else inspect_loop d rest (S i) subs hyph' counts'
            end
      end
  end.

Definition all_equal (l : list nat) : option nat :=
  match l with
  | [] => None
  | x :: l' => if forallb (Nat.eqb x) l' then Some x else None
  end.

Definition inspect (d : dlm) (body : list (list N)) (subs : list rsub) : option nat * list rsub :=
  let (hyph, counts) := inspect_loop d body 0%nat subs 0%nat [] in
  let subs' := if Nat.eqb hyph (List.length counts) then drop_hyphen_subs subs else subs in
  (all_equal counts, subs').

Fixpoint list_rsub_eqb (a b : list rsub) : bool :=
  match a, b with
  | [], [] => true
  | x :: a', y :: b' => rsub_eqb x y && list_rsub_eqb a' b'
  | _, _ => false
  end.

(* las.py: inspect, accept the recommendation, inspect again *)
Definition inspect_twice (d : dlm) (body : list (list N)) (subs : list rsub) : option nat * list rsub :=
  let (n, rec) := inspect d body subs in
  if negb (list_rsub_eqb rec subs) then
    let (n2, _) := inspect d body rec in (n2, rec)
  else (n, subs).

(* ---- normal engine -------------------------------------------------------------------------- *)
Definition tok_cell (t : list N) : cell := if is_float_tok t then mk_num t else CStr t.

Fixpoint normal_items (d : dlm) (subs : list rsub) (body : list (list N)) : list (list N) :=
  match body with
  | [] => []
  | raw :: rest =>
      let line := strip raw in
      if startswith [ch_hash] line then normal_items d subs rest
      else
        let line := remove_char 26 (apply_subs subs line) in
        match line with
        | [] => normal_items d subs rest
        | _ => split_line d line ++ normal_items d subs rest
        end
  end.

(* np.reshape(array, (-1, n)) of a flat list: rows of n; None when the size is no multiple *)
Fixpoint chunks_fuel (fuel n : nat) (l : list (list N)) : option (list (list (list N))) :=
  match l with
  | [] => Some []
  | _ =>
      match fuel with
      | O => None
      | S f =>
          if Nat.ltb (List.length l) n then None
          else match chunks_fuel f n (skipn n l) with
               | Some r => Some (firstn n l :: r)
               | None => None
               end
      end
  end.
Definition reshape (n : nat) (l : list (list N)) : option (list (list (list N))) :=
  chunks_fuel (S (List.length l)) n l.

Fixpoint transpose_n (n : nat) (rows : list (list (list N))) : list (list (list N)) :=
  match n with
  | O => []
  | S n' => List.map (fun r => hd [] r) rows :: transpose_n n' (List.map (@tl _) rows)
  end.

(* one column of the (possibly mixed) array -> its cells.  mixed = the flat array contained
   a non-numeric token, so numpy built a string array and numbers were str()-ed. *)
Definition column_cells (mixed : bool) (col : list (list N)) : list cell :=
  if negb mixed then List.map mk_num col
  else
    (* numbers were str()-ed into the string array; float(str(x)) = x, so a column that
       converts back to float carries the values of the original tokens *)
    let as_text := List.map (fun t => if is_float_tok t then fstr t else t) col in
    match col with
    | [] => []
    | first :: _ =>
        if is_float_tok first && forallb is_float_tok col then List.map mk_num col
        else List.map (fun t => CStr t) as_text      (* text column, or astype(float) failed *)
    end.

Inductive dres := DOk (cols : list (list cell)) | DErrReshape.

Definition normal_engine (d : dlm) (subs : list rsub) (n_columns : nat) (body : list (list N)) : dres :=
  let items := normal_items d subs body in
  let n := match items with [] => 0%nat | _ => n_columns end in
  match n with
  | O => DOk []                                  (* empty data section / zero columns: no column yielded *)
  | _ =>
      match reshape n items with
      | None => DErrReshape
      | Some rows =>
          let mixed := negb (forallb is_float_tok items) in
          DOk (List.map (column_cells mixed) (transpose_n n rows))
      end
  end.

(* ---- numpy engine: genfromtxt(lines, names=None, unpack=True, loose=False, ndmin=2) --------
   assumed behaviour (trusted base): text after '#' is dropped, lines blank after that are
   skipped, the rest is split on white space, every token must be float()-able, every row
   must have as many tokens as the first one; any violation raises (=> lasio falls back). *)
Fixpoint cut_comment (l : list N) : list N :=
  match l with
  | [] => []
  | c :: l' => if c =? ch_hash then [] else c :: cut_comment l'
  end.
Definition genfromtxt_rows (body : list (list N)) : list (list (list N)) :=
  List.filter (fun r => match r with [] => false | _ => true end)
              (List.map (fun raw => split_ws (cut_comment raw)) body).

Definition numpy_engine (body : list (list N)) : option (list (list cell)) :=
  let rows := genfromtxt_rows body in
  match rows with
  | [] => None                                    (* empty: ValueError -> fallback *)
  | r0 :: _ =>
      let n := List.length r0 in
      if forallb (fun r => Nat.eqb (List.length r) n) rows && forallb (forallb is_float_tok) rows
      then Some (List.map (List.map mk_num) (transpose_n n rows))
      else None
  end.

(* ---- NULL -> NaN and binding to curves ------------------------------------------------------- *)
(* nulleq tok: float(tok) == NULL value (oracle; numeric equality is IEEE ==) *)
Variable nulleq : list N -> bool.

Definition is_float_col (col : list cell) : bool :=
  forallb (fun c => match c with CStr _ => false | _ => true end) col.

Definition null_column (strict : bool) (idx : nat) (col : list cell) : list cell :=
  if strict && is_float_col col && negb (Nat.eqb idx 0) then
    List.map (fun c => match c with CNum t => if nulleq t then CNaN else c | _ => c end) col
  else col.

Fixpoint null_columns (strict : bool) (idx : nat) (cols : list (list cell)) : list (list cell) :=
  match cols with
  | [] => []
  | c :: cs => null_column strict idx c :: null_columns strict (S idx) cs
  end.

End WithOracles.
