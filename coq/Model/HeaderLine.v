(* Model.HeaderLine — configure_metadata_patterns and read_header_line (reader.py).
   The pattern fragments are the generated ASTs of Gen/Regexes.v; the branch logic that
   selects them is modelled by hand (tied by correspondence).  Definitions only. *)
From Coq Require Import List NArith Bool.
Import ListNotations.
Require Import PyStr Regex Regexes.
Open Scope N_scope.

Record hline := mkhl { h_name : list N; h_unit : list N; h_value : list N; h_descr : list N }.

Definition lt_opt (a b : option nat) : bool :=      (* Python: a < b with None = -1 *)
  match a, b with
  | None, Some _ => true
  | Some x, Some y => Nat.ltb x y
  | _, None => false
  end.

(* the list of patterns tried in order, for a line of a section named Curves / Parameter / other *)
Definition configure_patterns (line : list N) (is_curves is_param : bool) : list re :=
  let has_colon := in_str ch_colon line in
  let before_colon := match find_char ch_colon line with Some i => firstn i line | None => line end in
  let missing_period := has_colon && negb (in_str ch_dot before_colon) in
  let name0 := if missing_period then rx_name_missing_period_re else rx_name_re in
  let value0 := if missing_period then rx_value_missing_period_re else rx_value_re in
  let desc0 := if missing_period then rx_no_desc_re else rx_desc_re in
  let unit0 := if missing_period then rx_no_unit_re else rx_unit_re in
  let tvalue0 := if missing_period then rx_value_missing_period_re else rx_value_with_time_colon_re in
  let value1 := if has_colon then value0 else rx_value_without_colon_delimiter_re in
  let desc1 := if has_colon then desc0 else rx_no_desc_re in
  let name1 :=
    if has_colon then
      if re_search rx_double_dot_search line && is_curves then
        if lt_opt (find [ch_dot; ch_dot] line) (rfind_char ch_colon line) then rx_name_with_dots_re else name0
      else name0
    else
      if contains [ch_dot; ch_dot] line && is_curves then rx_name_with_dots_re else name0 in
  let time_pat := Seq name1 (Seq unit0 (Seq tvalue0 desc1)) in
  let main_pat := Seq name1 (Seq unit0 (Seq value1 desc1)) in
  if is_param then [time_pat; main_pat] else [main_pat].

Fixpoint first_match (ps : list re) (line : list N) : option st :=
  match ps with
  | [] => None
  | p :: ps' => match re_match p line with Some y => Some y | None => first_match ps' line end
  end.

Definition fix_unit (u : list N) : list N :=
  let u' := strip u in
  if endswith [ch_dot] u' then strip_chars [ch_dot] u' else u'.

(* None models the AttributeError on `m.groupdict()` when no pattern matches *)
Definition read_header_line (line : list N) (is_curves is_param : bool) : option hline :=
  match first_match (configure_patterns line is_curves is_param) line with
  | None => None
  | Some y =>
      let g n := match group_opt n (caps y) with Some v => v | None => [] end in
      Some (mkhl (strip (g 0%nat)) (fix_unit (g 1%nat)) (strip (g 2%nat)) (strip (g 3%nat)))
  end.
