(* Model.ItemsObs — the interpreter the correspondence runs use for Model.Items: decodes an
   operation sequence (as written by harness/props/items_common.py), applies the model and
   renders the same canonical observation text the harness renders from the real lasio
   objects.  Definitions only; trusted harness glue (nothing is proved about it).

   Case input = records separated by "~"; fields inside a record by "|" (ASCII separators keep
   the case files small: the cost of a case is dominated by parsing its string literals; the
   generated mnemonics never contain these two characters).  Record 0 = transforms|kind|mode;
   record 1 = string probe keys (empty: the default list); record 2 = int probe keys (empty:
   default); records 3.. = operations, each  code|arg|...
   For bulk runs the observation text is compared through a 61-bit digest (run_digest); the
   full text is compared on a sample (run_case). *)
From Coq Require Import List NArith ZArith Bool String.
Import ListNotations.
Require Import PyStr CaseLib Items.
Open Scope N_scope.

Definition fields (s : str) : list str := split_char 124 s.
Definition records (s : str) : list str := split_char 126 s.

Fixpoint digs (s : str) (acc : Z) : Z :=
  match s with [] => acc | c :: t => digs t (10 * acc + Z.of_N (c - 48))%Z end.
Definition p_int (s : str) : Z :=
  match s with 45 :: t => (- digs t 0)%Z | _ => digs s 0%Z end.
Definition p_oint (s : str) : option Z :=
  match s with [78] => None | _ => Some (p_int s) end.          (* "N" = None *)
Definition p_bool (s : str) : bool := match s with [84] => true | _ => false end.   (* "T" *)
Definition arg (n : nat) (f : list str) : str := nth n f [].

Definition sh_err (e : ierr) : str :=
  match e with
  | KeyError => s2l "KeyError" | IndexError => s2l "IndexError"
  | AttributeError => s2l "AttributeError" | AssertionError => s2l "AssertionError"
  | ValueError => s2l "ValueError" | TypeError => s2l "TypeError"
  end.
Definition sh_nat (n : nat) : str := nat_to_str n.
Definition sh_ix (r : ires nat) : str := match r with IOk n => sh_nat n | IErr e => sh_err e end.
Definition sl (s : string) : str := s2l s.
Definition sh_item (it : item) : str :=
  orig it ++ sl "/" ++ sess it ++ sl "/" ++ it_unit it ++ sl "/" ++ it_value it ++ sl "/"
  ++ it_descr it ++ sl "/" ++ it_data it ++ sl "/" ++ (if is_curve it then sl "C" else sl "H").
Definition sh_state (s : section) : str :=
  join (sl ",") (List.map sh_item (items s)) ++ sl ";" ++ bool_to_str (transforms s).
Definition sh_sec (r : ires section) : str :=
  match r with IOk s => sh_state s | IErr e => sh_err e end.
Definition sh_keys (r : ires section) : str :=
  match r with
  | IOk s => join (sl ",") (keys s) ++ sl ";" ++ bool_to_str (transforms s)
  | IErr e => sh_err e
  end.

(* identity rows: for every position i, where s[keys[i]] and getattr(s, keys[i]) resolve *)
Definition sh_ident (s : section) : str :=
  sl "I=" ++ join (sl ",") (List.map (fun it => sh_ix (lookup_ix s (KStr (sess it)))) (items s))
  ++ sl ";A=" ++ join (sl ",") (List.map (fun it =>
        match getattr s (sess it) with
        | IOk _ => sh_ix (lookup_ix s (KStr (sess it)))
        | IErr e => sh_err e
        end) (items s)).

(* probes of one string key: k in s, s[k], getattr(s,k), s.get(k), del s[k] (on a clone) *)
Definition sh_probe_str (s : section) (k : str) : str :=
  bool_to_str (contains s k) ++ sl " "
  ++ sh_ix (lookup_ix s (KStr k)) ++ sl " "
  ++ (match getattr s k with IOk _ => sh_ix (lookup_ix s (KStr k)) | IErr e => sh_err e end) ++ sl " "
  ++ (match get s k (inl (sl "dv")) false with
      | IOk (s', it) =>
          (if contains s k then sl "i" ++ sh_ix (lookup_ix s (KStr k)) else sl "n(" ++ sh_item it ++ sl ")")
          ++ (if str_eqb (sh_state s') (sh_state s) then sl "=" else sl "!")
      | IErr e => sh_err e
      end) ++ sl " "
  ++ sh_keys (delitem s (KStr k)).
Definition sh_probe_int (s : section) (z : Z) : str :=
  bool_to_str (contains_key s (KInt z)) ++ sl " " ++ sh_ix (lookup_ix s (KInt z)) ++ sl " "
  ++ sh_keys (delitem s (KInt z)).
Definition slices : list (option Z * option Z * nat) :=
  [(None, None, 1%nat); (Some 1%Z, None, 1%nat); (None, Some (-1)%Z, 1%nat);
   (Some (-2)%Z, Some 5%Z, 1%nat); (Some 0%Z, None, 2%nat); (Some 3%Z, Some 1%Z, 1%nat);
   (Some (-9)%Z, Some 2%Z, 1%nat); (Some 1%Z, Some 9%Z, 3%nat)].
Definition default_pk : list str :=
  [sl "A"; sl "a"; sl "B"; []; sl "A:1"; sl "a:2"; sl "UNKNOWN"; sl "unknown:1"; sl "Z"].
Definition default_pi : list str :=
  [sl "0"; sl "1"; sl "3"; sl "-1"; sl "-2"; sl "-4"; sl "7"; sl "-8"].
Definition sh_probes (s : section) (pk : list str) (pi : list str) : str :=
  join (sl "|") (List.map (sh_probe_str s) pk) ++ sl "#"
  ++ join (sl "|") (List.map (fun z => sh_probe_int s (p_int z)) pi) ++ sl "#"
  ++ join (sl "|") (List.map (fun t => match t with (a, b, st) => sh_keys (getslice s a b st) end) slices)
  ++ sl "#" ++ sh_keys (delslice s None None).

(* every item the harness builds carries distinguishable unit and descr tags derived from its value tag
   (items_common.Sim.mk: unit = "u" ++ val, descr = "d" ++ val), so that a unit/descr mix-up in get(), set_item,
   __reduce__ ... shows in the observation *)
Definition mk (curve : bool) (name val dat : str) : item := new_item curve name (117 :: val) val (100 :: val) dat.
Definition sh_res (r : ires section) : str := match r with IOk _ => sl "ok" | IErr e => sh_err e end.
Definition keep (s : section) (r : ires section) : section := match r with IOk s' => s' | IErr _ => s end.

(* one operation: new state, rendered result *)
Definition apply_op (curve : bool) (s : section) (f : list str) : section * str :=
  match arg 0 f with
  | [97] =>  (* a name val data : append *)
      (append s (mk curve (arg 1 f) (arg 2 f) (arg 3 f)), sl "ok")
  | [105] => (* i pos name val data : insert *)
      (insert s (p_int (arg 1 f)) (mk curve (arg 2 f) (arg 3 f) (arg 4 f)), sl "ok")
  | [100] => (* d key : del s[key] *)
      let r := delitem s (KStr (arg 1 f)) in (keep s r, sh_res r)
  | [101] => (* e int : del s[int] *)
      let r := delitem s (KInt (p_int (arg 1 f))) in (keep s r, sh_res r)
  | [114] => (* r key name val data : s[key] = item *)
      let r := setitem s (KStr (arg 1 f)) (inr (mk curve (arg 2 f) (arg 3 f) (arg 4 f))) in (keep s r, sh_res r)
  | [115] => (* s int name val data : s[int] = item *)
      let r := setitem s (KInt (p_int (arg 1 f))) (inr (mk curve (arg 2 f) (arg 3 f) (arg 4 f))) in (keep s r, sh_res r)
  | [118] => (* v key val : s[key] = plain value *)
      let r := setitem s (KStr (arg 1 f)) (inl (arg 2 f)) in (keep s r, sh_res r)
  | [119] => (* w int val *)
      let r := setitem s (KInt (p_int (arg 1 f))) (inl (arg 2 f)) in (keep s r, sh_res r)
  | [103] => (* g key default : s.get(key, default, add=True) -> position of the returned item *)
      match get s (arg 1 f) (inl (arg 2 f)) true with
      | IOk (s', it) =>
          (s', sl "ok" ++ (if contains s (arg 1 f) then sh_ix (lookup_ix s (KStr (arg 1 f)))
                           else sh_nat (List.length (items s))))
      | IErr e => (s, sh_err e)
      end
  | [104] => (* h key srcpos : s.get(key, s[srcpos], add=True), default an item of the section *)
      match getitem s (KInt (p_int (arg 2 f))) with
      | IOk di =>
          match get s (arg 1 f) (inr di) true with
          | IOk (s', it) =>
              (s', sl "ok" ++ (if contains s (arg 1 f) then sh_ix (lookup_ix s (KStr (arg 1 f)))
                               else sh_nat (List.length (items s))))
          | IErr e => (s, sh_err e)
          end
      | IErr e => (s, sl "skip")
      end
  | [120] => (* x key name val data : setattr(s, key, item) *)
      let r := setattr s (arg 1 f) (inr (mk curve (arg 2 f) (arg 3 f) (arg 4 f))) in (keep s r, sh_res r)
  | [121] => (* y key val : setattr(s, key, plain) *)
      let r := setattr s (arg 1 f) (inl (arg 2 f)) in (keep s r, sh_res r)
  | [109] => (* m : assign_duplicate_suffixes() *)
      (assign_all s, sl "ok")
  | [116] => (* t name : assign_duplicate_suffixes(name) *)
      (assign_suffixes (arg 1 f) s, sl "ok")
  | [110] => (* n int name : s[int].mnemonic = name *)
      match lookup_ix s (KInt (p_int (arg 1 f))) with
      | IOk n => (with_items s (update_at n (fun it => set_mnemonic it (arg 2 f)) (items s)), sl "ok")
      | IErr e => (s, sh_err e)
      end
  | _ => (s, sl "?")
  end.

Fixpoint run_ops (curve ident : bool) (s : section) (ops : list str) : section * list str :=
  match ops with
  | [] => (s, [])
  | o :: t =>
      let (s1, r) := apply_op curve s (fields o) in
      let line := r ++ sl "|" ++ sh_state s1 ++ (if ident then sl "|" ++ sh_ident s1 else []) in
      let (s2, ls) := run_ops curve ident s1 t in
      (s2, line :: ls)
  end.

Definition run_case (i : str) : str :=
  match records i with
  | hd :: pk :: pi :: ops =>
      let tr := p_bool (arg 0 (fields hd)) in
      let curve := p_bool (arg 1 (fields hd)) in
      let mode := arg 2 (fields hd) in
      let ident := match mode with [105] => true | _ => false end in       (* "i" *)
      let heavy := match mode with [104] => true | _ => false end in       (* "h" *)
      let (s, ls) := run_ops curve ident (empty_section tr) ops in
      join [10] ls ++ (if heavy then [10; 35] ++ sh_probes s
                         (match pk with [] => default_pk | _ => fields pk end)
                         (match pi with [] => default_pi | _ => fields pi end) else [])
  | _ => sl "bad case"
  end.

(* C17 item/section copies: case = transforms FS kind, then the operations; the observation is
   the state followed by the states of its pickle and deepcopy models *)
Definition run_copy (i : str) : str :=
  match records i with
  | hd :: ops =>
      let tr := p_bool (arg 0 (fields hd)) in
      let curve := p_bool (arg 1 (fields hd)) in
      let (s, _) := run_ops curve false (empty_section tr) ops in
      sh_state s ++ [10] ++ sh_state (pickle_section s) ++ [10] ++ sh_state (deepcopy_section s)
      ++ [10] ++ join (sl ",") (List.map (fun it => sh_item (copy_item it)) (items s))
  | _ => sl "bad case"
  end.

(* digest of an observation text: three nested running sums (sum, sum of prefix sums, sum of
   those) over the code points -- additions only, cheap under vm_compute *)
Fixpoint digest_aux (s : str) (a b d : N) : N * N * N :=
  match s with
  | [] => (a, b, d)
  | c :: t => let a1 := a + c + 1 in let b1 := b + a1 in digest_aux t a1 b1 (d + b1)
  end.
Definition digest (s : str) : str :=
  match digest_aux s 0 0 0 with
  | (a, b, d) => N_to_str a ++ [46] ++ N_to_str b ++ [46] ++ N_to_str d
  end.
Definition run_digest (i : str) : str := digest (run_case i).
Definition run_copy_digest (i : str) : str := digest (run_copy i).
