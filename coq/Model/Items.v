(* Model.Items — lasio/las_items.py: HeaderItem, CurveItem, SectionItems as a state machine.
   Definitions only (total, executable under vm_compute); the lemmas are in
   Proofs/ItemsProofs.v, the statements in Props/C13.v, C15.v, C17.v.

   Objects have value semantics: an item is the record of its observable fields, a section
   is the list of its items plus the mnemonic_transforms flag.  Object identity is
   observed as the POSITION an accessor resolves to (lookup_ix).  Payload fields (unit,
   value, descr, data) are strings: the harness decides what they stand for.

   The model follows the tree AFTER the fixes ba403c6 (set_item re-suffixes), cfdcbb9
   (set_item with an int key replaces by position), 9cf6789 (HeaderItem.__reduce__) and
   8f04ac3 (SectionItems.__reduce__); the pre-fix variants that the refutation examples
   need are kept under the names *_prefix. *)
From Coq Require Import List NArith ZArith Bool String.
Import ListNotations.
Require Import PyStr.
Local Open Scope string_scope. Open Scope N_scope.

(* ---- errors ------------------------------------------------------------------------- *)
Inductive ierr := KeyError | IndexError | AttributeError | AssertionError | ValueError | TypeError.
Inductive ires (A : Type) : Type := IOk (a : A) | IErr (e : ierr).
Arguments IOk {A} a.
Arguments IErr {A} e.
Definition ires_map {A B} (f : A -> B) (r : ires A) : ires B :=
  match r with IOk a => IOk (f a) | IErr e => IErr e end.

(* ---- Python list positions (exact for negative / out-of-range indices) ----------------- *)
(* l[i], del l[i], l[i] = x : valid for -len <= i < len *)
Definition py_index (len : nat) (i : Z) : option nat :=
  let n := Z.of_nat len in
  if ((0 <=? i) && (i <? n))%Z then Some (Z.to_nat i)
  else if ((i <? 0) && (- n <=? i))%Z then Some (Z.to_nat (n + i))
  else None.

(* list.insert(i, x) and slice bounds: negative counts from the end, then clamp to [0, len] *)
Definition py_clamp (len : nat) (i : Z) : nat :=
  let n := Z.of_nat len in
  if (i <? 0)%Z then Z.to_nat (Z.max 0 (n + i)) else Z.to_nat (Z.min i n).

Fixpoint insert_at {A} (n : nat) (x : A) (l : list A) : list A :=
  match n, l with
  | O, _ => x :: l
  | S k, a :: r => a :: insert_at k x r
  | S _, [] => [x]
  end.
Fixpoint remove_at {A} (n : nat) (l : list A) {struct l} : list A :=
  match l with
  | [] => []
  | a :: r => match n with O => r | S k => a :: remove_at k r end
  end.
Fixpoint replace_at {A} (n : nat) (x : A) (l : list A) {struct l} : list A :=
  match l with
  | [] => []
  | a :: r => match n with O => x :: r | S k => a :: replace_at k x r end
  end.
Fixpoint update_at {A} (n : nat) (f : A -> A) (l : list A) {struct l} : list A :=
  match l with
  | [] => []
  | a :: r => match n with O => f a :: r | S k => a :: update_at k f r end
  end.

Definition py_insert {A} (i : Z) (x : A) (l : list A) : list A :=
  insert_at (py_clamp (List.length l) i) x l.
Definition py_del {A} (i : Z) (l : list A) : option (list A) :=
  match py_index (List.length l) i with Some n => Some (remove_at n l) | None => None end.
Definition py_get {A} (i : Z) (l : list A) : option A :=
  match py_index (List.length l) i with Some n => nth_error l n | None => None end.
Definition py_set {A} (i : Z) (x : A) (l : list A) : option (list A) :=
  match py_index (List.length l) i with Some n => Some (replace_at n x l) | None => None end.

(* l[a:b:step] for step >= 1; a, b = None | int *)
Definition slice_lo (len : nat) (a : option Z) : nat :=
  match a with None => O | Some i => py_clamp len i end.
Definition slice_hi (len : nat) (b : option Z) : nat :=
  match b with None => len | Some i => py_clamp len i end.
(* elements at offsets skip, skip+step, skip+2 step, ... (step >= 1) *)
Fixpoint stride_aux {A} (step skip : nat) (l : list A) : list A :=
  match l with
  | [] => []
  | x :: t => match skip with
              | O => x :: stride_aux step (Nat.pred step) t
              | S k => stride_aux step k t
              end
  end.
Definition py_slice {A} (a b : option Z) (step : nat) (l : list A) : list A :=
  let n := List.length l in
  let lo := slice_lo n a in
  let hi := slice_hi n b in
  stride_aux step O (firstn (hi - lo) (skipn lo l)).

(* index of the first element satisfying p *)
Fixpoint find_ix {A} (p : A -> bool) (l : list A) : option nat :=
  match l with
  | [] => None
  | x :: t => if p x then Some O else match find_ix p t with Some n => Some (S n) | None => None end
  end.

(* ---- decimal rendering of ":%d" % n --------------------------------------------------- *)
(* little-endian digit increment: "9" -> "01", "199" (=991) -> "002" *)
Fixpoint dec_incr (l : str) : str :=
  match l with
  | [] => [49]
  | d :: t => if d =? 57 then 48 :: dec_incr t else (d + 1) :: t
  end.
Fixpoint dec_le (n : nat) : str :=
  match n with O => [48] | S k => dec_incr (dec_le k) end.
Definition nat_dec (n : nat) : str := rev (dec_le n).
Definition suffix (n : nat) : str := ch_colon :: nat_dec n.

(* ---- items ---------------------------------------------------------------------------- *)
Record item := mkItem {
  orig : str;          (* original_mnemonic: what write() emits *)
  sess : str;          (* mnemonic: the session name used by every lookup *)
  it_unit : str;
  it_value : str;
  it_descr : str;
  it_data : str;
  is_curve : bool      (* CurveItem (true) or HeaderItem (false) *)
}.

Definition s_UNKNOWN : str := Eval compute in s2l "UNKNOWN".
Definition is_blank (s : str) : bool := match strip s with [] => true | _ => false end.
(* HeaderItem.useful_mnemonic *)
Definition useful_of (o : str) : str := if is_blank o then s_UNKNOWN else o.
Definition useful (it : item) : str := useful_of (orig it).

(* set_session_mnemonic_only *)
Definition set_sess (it : item) (s : str) : item :=
  mkItem (orig it) s (it_unit it) (it_value it) (it_descr it) (it_data it) (is_curve it).
Definition set_value (v : str) (it : item) : item :=
  mkItem (orig it) (sess it) (it_unit it) v (it_descr it) (it_data it) (is_curve it).
(* item.mnemonic = m : renames (original) and resets the session name *)
Definition set_mnemonic (it : item) (m : str) : item :=
  mkItem m (useful_of m) (it_unit it) (it_value it) (it_descr it) (it_data it) (is_curve it).

(* canonical payload strings shared with the harness: data=None is "-", an empty array is
   "D0:", an array of n NaNs is "D<n>:nan", any other array "D<n>:<values>" *)
Definition none_data : str := Eval compute in s2l "-".
Definition empty_array : str := Eval compute in s2l "D0:".
Fixpoint upto_colon (s : str) : str :=
  match s with [] => [] | c :: t => if c =? ch_colon then [] else c :: upto_colon t end.
(* np.asarray(first.data) * np.nan *)
Definition nan_like (d : str) : str :=
  let h := upto_colon d in
  if str_eqb h (s2l "D0") then d else h ++ s2l ":nan".

(* HeaderItem.__init__ / CurveItem.__init__ (mnemonic, unit, value, descr, data) *)
Definition new_item (curve : bool) (m u v d dat : str) : item :=
  mkItem m (useful_of m) u v d
         (if curve then (if str_eqb dat none_data then empty_array else dat) else dat)
         curve.

(* everything but the session name *)
Definition payload (it : item) : str * str * str * str * str * bool :=
  (orig it, it_unit it, it_value it, it_descr it, it_data it, is_curve it).

(* ---- sections ------------------------------------------------------------------------- *)
Record section := mkSection { items : list item; transforms : bool }.
Definition with_items (s : section) (l : list item) : section := mkSection l (transforms s).
Definition empty_section (tr : bool) : section := mkSection [] tr.

(* str.upper() restricted to ASCII (assumption: generated mnemonics are ASCII) *)
Definition upper (s : str) : str := List.map ascii_upper s.

(* SectionItems.mnemonic_compare on two strings *)
Definition mnemonic_compare (tr : bool) (one two : str) : bool :=
  if tr then str_eqb (upper one) (upper two) else str_eqb one two.

Inductive key := KStr (m : str) | KInt (z : Z).

Definition keys (s : section) : list str := List.map sess (items s).
Definition origs (s : section) : list str := List.map orig (items s).

(* __contains__ for a string: any item with mnemonic_compare(testitem, item.mnemonic) *)
Definition contains (s : section) (m : str) : bool :=
  existsb (fun it => mnemonic_compare (transforms s) m (sess it)) (items s).
(* __contains__ for an int: "1 == 'A'" is False, and in transforms mode (1).upper() raises
   AttributeError which mnemonic_compare swallows; ints have no .mnemonic and are no item *)
Definition contains_key (s : section) (k : key) : bool :=
  match k with KStr m => contains s m | KInt _ => false end.

(* The position __getitem__/__delitem__ resolve a key to.  For an int key the loop over
   mnemonic_compare(item.mnemonic, key) runs first and never matches (str == int is False;
   with transforms key.upper() raises AttributeError, swallowed), then list indexing. *)
Definition lookup_ix (s : section) (k : key) : ires nat :=
  match k with
  | KStr m =>
      match find_ix (fun it => mnemonic_compare (transforms s) (sess it) m) (items s) with
      | Some n => IOk n
      | None => IErr KeyError
      end
  | KInt z =>
      match py_index (List.length (items s)) z with
      | Some n => IOk n
      | None => IErr IndexError
      end
  end.

Definition getitem (s : section) (k : key) : ires item :=
  match lookup_ix s k with
  | IOk n => match nth_error (items s) n with Some it => IOk it | None => IErr IndexError end
  | IErr e => IErr e
  end.

(* s[a:b:step] -> a NEW SectionItems (mnemonic_transforms is reset to False by __init__) *)
Definition getslice (s : section) (a b : option Z) (step : nat) : ires section :=
  match step with
  | O => IErr ValueError
  | _ => IOk (mkSection (py_slice a b step (items s)) false)
  end.

(* del s[key] (a slice key falls through both tests and raises KeyError) *)
Definition delitem (s : section) (k : key) : ires section :=
  match lookup_ix s k with
  | IOk n => IOk (with_items s (remove_at n (items s)))
  | IErr e => IErr e
  end.
Definition delslice (s : section) (a b : option Z) : ires section := IErr KeyError.

(* assign_duplicate_suffixes(test_mnemonic) *)
Fixpoint renumber (tr : bool) (t : str) (c : nat) (l : list item) : list item :=
  match l with
  | [] => []
  | it :: r =>
      if mnemonic_compare tr (useful it) t
      then set_sess it (useful it ++ suffix c) :: renumber tr t (S c) r
      else it :: renumber tr t c r
  end.
Definition in_group (tr : bool) (t : str) (it : item) : bool := mnemonic_compare tr (useful it) t.
Definition group_count (tr : bool) (t : str) (l : list item) : nat :=
  List.length (filter (in_group tr t) l).
Definition assign_suffixes (t : str) (s : section) : section :=
  if Nat.ltb 1 (group_count (transforms s) t (items s))
  then with_items s (renumber (transforms s) t 1 (items s))
  else s.
(* assign_duplicate_suffixes(None): once per useful mnemonic present (a set in Python; the
   result does not depend on the order, here: list order with repetitions) *)
Definition assign_all (s : section) : section :=
  fold_left (fun acc t => assign_suffixes t acc) (List.map useful (items s)) s.

Definition append (s : section) (it : item) : section :=
  assign_suffixes (useful it) (with_items s (items s ++ [it])).
Definition insert (s : section) (i : Z) (it : item) : section :=
  assign_suffixes (useful it) (with_items s (py_insert i it (items s))).

(* set_item(key, newitem): first item with mnemonic_compare(key, item.mnemonic) is replaced
   and the new item's name re-suffixed; int key: by position; absent str key: append *)
Definition set_item (s : section) (k : key) (it : item) : ires section :=
  match k with
  | KStr m =>
      match find_ix (fun x => mnemonic_compare (transforms s) m (sess x)) (items s) with
      | Some n => IOk (assign_suffixes (useful it) (with_items s (replace_at n it (items s))))
      | None => IOk (append s it)
      end
  | KInt z =>
      match py_index (List.length (items s)) z with
      | Some n => IOk (assign_suffixes (useful it) (with_items s (replace_at n it (items s))))
      | None => IErr IndexError
      end
  end.
(* the pinned tree: no re-suffixing on replacement, int keys append *)
Definition set_item_prefix (s : section) (k : key) (it : item) : ires section :=
  match k with
  | KStr m =>
      match find_ix (fun x => mnemonic_compare (transforms s) m (sess x)) (items s) with
      | Some n => IOk (with_items s (replace_at n it (items s)))
      | None => IOk (append s it)
      end
  | KInt _ => IOk (append s it)
  end.

(* set_item_value(key, value): self[key].value = value *)
Definition set_item_value (s : section) (k : key) (v : str) : ires section :=
  match lookup_ix s k with
  | IOk n => IOk (with_items s (update_at n (set_value v) (items s)))
  | IErr e => IErr e
  end.

(* s[key] = x : x a HeaderItem/CurveItem (inr) or a plain value (inl) *)
Definition setitem (s : section) (k : key) (x : str + item) : ires section :=
  match x with
  | inr it => set_item s k it
  | inl v => set_item_value s k v
  end.

(* __getattr__(key): consulted by Python only when normal attribute lookup failed *)
Definition s_mnemonic_transforms : str := Eval compute in s2l "mnemonic_transforms".
Definition getattr (s : section) (m : str) : ires item :=
  if negb (str_eqb m s_mnemonic_transforms) && contains s m then getitem s (KStr m)
  else IErr AttributeError.
(* getattr(s, name) as Python evaluates it: names found on the instance/class never reach
   __getattr__ (language-level; class_attrs is dir(s)) *)
Inductive attr_result := AttrItem (it : item) | AttrOfClass.
Definition py_getattr (class_attrs : list str) (s : section) (m : str) : ires attr_result :=
  if existsb (str_eqb m) class_attrs then IOk AttrOfClass
  else ires_map AttrItem (getattr s m).

(* __setattr__(key, value) for keys other than the instance attribute mnemonic_transforms *)
Definition setattr (s : section) (m : str) (x : str + item) : ires section :=
  if contains s m then setitem s (KStr m) x
  else match x with
       | inr it => if str_eqb (sess it) m then IOk (append s it) else IErr AssertionError
       | inl _ => IOk s     (* an ordinary Python attribute is set; the section is unchanged *)
       end.

(* get(mnemonic, default, add) -> (section afterwards, returned item) *)
Definition get_default_item (s : section) (m : str) (dflt : str + item) : item :=
  match dflt with
  | inl d =>
      match items s with
      | first :: _ =>
          if is_curve first then new_item true m [] [] d (nan_like (it_data first))
          else new_item false m [] d [] none_data
      | [] => new_item false m [] d [] none_data
      end
  | inr di =>
      new_item (is_curve di) m (it_unit di) (it_value di) (it_descr di)
               (if is_curve di then it_data di else none_data)
  end.
Definition get (s : section) (m : str) (dflt : str + item) (add : bool) : ires (section * item) :=
  if contains s m then ires_map (fun it => (s, it)) (getitem s (KStr m))
  else let it := get_default_item s m dflt in
       IOk (if add then append s it else s, it).

(* ---- __reduce__ and reconstruction ------------------------------------------------------ *)
Record reduced := mkReduced {
  r_curve : bool;                      (* self.__class__ *)
  r_args : str * str * str * str * str;   (* original_mnemonic, unit, value, descr, data *)
  r_state : str                        (* {"mnemonic": session mnemonic} *)
}.
Definition reduce (it : item) : reduced :=
  mkReduced (is_curve it) (orig it, it_unit it, it_value it, it_descr it, it_data it) (sess it).
(* the constructor call followed by obj.__dict__.update(state) *)
Definition rebuild (r : reduced) : item :=
  match r_args r with
  | (m, u, v, d, dat) => set_sess (new_item (r_curve r) m u v d dat) (r_state r)
  end.
(* the pinned tree: the SESSION mnemonic is passed as the constructor's mnemonic, no state *)
Definition reduce_prefix (it : item) : reduced :=
  mkReduced (is_curve it) (sess it, it_unit it, it_value it, it_descr it, it_data it) [].
Definition rebuild_prefix (r : reduced) : item :=
  match r_args r with (m, u, v, d, dat) => new_item (r_curve r) m u v d dat end.

(* SectionItems.__reduce__ = (cls, (list(self),), __dict__): pickle and deepcopy both copy
   the items one by one (their own __reduce__), call SectionItems(list) -- list.__init__,
   mnemonic_transforms := False -- and then restore __dict__ *)
Definition section_init (l : list item) : section := mkSection l false.
Definition section_setstate (tr : bool) (s : section) : section := mkSection (items s) tr.
Definition copy_item (it : item) : item := rebuild (reduce it).
Definition pickle_section (s : section) : section :=
  section_setstate (transforms s) (section_init (List.map copy_item (items s))).
Definition deepcopy_section (s : section) : section :=
  section_setstate (transforms s) (section_init (List.map copy_item (items s))).
(* what CPython does for a list subclass WITHOUT its own __reduce__ (tree before 8f04ac3):
   pickle re-adds the items by list.extend, copy.deepcopy restores the state and then calls
   SectionItems.append for every item, which re-runs the suffix rule *)
Definition default_pickle_section (s : section) : section :=
  mkSection (List.map copy_item (items s)) (transforms s).
Definition default_deepcopy_section (s : section) : section :=
  fold_left append (List.map copy_item (items s)) (empty_section (transforms s)).

(* a LASFile as far as C17 needs it: its named header sections (LASFile has no __reduce__: its
   __dict__, i.e. the dict of sections, is copied entry by entry) *)
Definition lasfile := list (str * section).
Definition copy_las (copy_sec : section -> section) (las : lasfile) : lasfile :=
  List.map (fun p => (fst p, copy_sec (snd p))) las.

(* a CurveItem's data is an array (CurveItem.__init__ turns None into an empty array) *)
Definition item_ok (it : item) : bool :=
  if is_curve it then negb (str_eqb (it_data it) none_data) else true.

(* ---- operations of the C13 state machine ------------------------------------------------ *)
Record item_args := mkArgs {
  a_curve : bool; a_mnem : str; a_unit : str; a_value : str; a_descr : str; a_data : str }.
Definition make (a : item_args) : item :=
  new_item (a_curve a) (a_mnem a) (a_unit a) (a_value a) (a_descr a) (a_data a).

Inductive op :=
  | OpAppend (a : item_args)
  | OpInsert (i : Z) (a : item_args)
  | OpDelete (k : key)
  | OpReplace (k : key) (a : item_args)      (* s[k] = HeaderItem(...) *)
  | OpSetValue (k : key) (v : str)           (* s[k] = plain value *)
  | OpGetAdd (m : str) (d : str).            (* s.get(m, d, add=True) *)

Definition exec (s : section) (o : op) : ires section :=
  match o with
  | OpAppend a => IOk (append s (make a))
  | OpInsert i a => IOk (insert s i (make a))
  | OpDelete k => delitem s k
  | OpReplace k a => set_item s k (make a)
  | OpSetValue k v => set_item_value s k v
  | OpGetAdd m d => ires_map fst (get s m (inl d) true)
  end.
(* an operation that raises leaves the section as it was *)
Definition step (s : section) (o : op) : section :=
  match exec s o with IOk s' => s' | IErr _ => s end.
(* the mnemonics an operation brings into the section *)
Definition op_names (o : op) : list str :=
  match o with
  | OpAppend a | OpInsert _ a | OpReplace _ a => [a_mnem a]
  | OpGetAdd m _ => [m]
  | OpDelete _ | OpSetValue _ _ => []
  end.

(* reading a header section = appending the parsed items in file order *)
Definition read_section (tr : bool) (l : list item_args) : section :=
  fold_left (fun s a => append s (make a)) l (empty_section tr).
