(* Model.SectionParse — SectionParser (num is in Num.v), HeaderItem construction, the
   duplicate-suffix rule of SectionItems.append as the reader uses it, and
   parse_header_items_section over a list of body lines (reader.py 661-920).
   Definitions only. *)
From Coq Require Import List NArith ZArith Bool String.
Import ListNotations.
Require Import PyStr Regex Regexes NumLit Num HeaderLine Tables.
Open Scope string_scope.
Open Scope list_scope.
Open Scope N_scope.

(* ---- case mapping (str.upper / str.lower): ASCII exact; other code points unchanged ---- *)
Definition upper (s : list N) : list N := List.map ascii_upper s.
Definition lower (s : list N) : list N := List.map ascii_lower s.
Inductive mcase := CasePreserve | CaseUpper | CaseLower.
Definition apply_case (c : mcase) (s : list N) : list N :=
  match c with CasePreserve => s | CaseUpper => upper s | CaseLower => lower s end.

(* ---- header items as the reader builds them -------------------------------------------- *)
Record hitem := mkitem {
  i_orig : list N;      (* original mnemonic *)
  i_sess : list N;      (* session mnemonic  *)
  i_unit : list N;
  i_value : hval;
  i_descr : list N }.

Definition UNKNOWN : list N := Eval compute in s2l "UNKNOWN".
Definition useful (orig : list N) : list N :=
  match strip orig with [] => UNKNOWN | _ => orig end.
Definition new_item (name unit : list N) (v : hval) (descr : list N) : hitem :=
  mkitem name (useful name) unit v descr.

Definition mn_compare (transforms : bool) (a b : list N) : bool :=
  if transforms then str_eqb (upper a) (upper b) else str_eqb a b.

(* assign_duplicate_suffixes(test): number the items whose useful mnemonic matches test *)
Fixpoint renumber (transforms : bool) (test : list N) (k : nat) (l : list hitem) : list hitem :=
  match l with
  | [] => []
  | it :: l' =>
      if mn_compare transforms (useful (i_orig it)) test
      then mkitem (i_orig it) (useful (i_orig it) ++ ch_colon :: nat_to_str k) (i_unit it) (i_value it) (i_descr it)
             :: renumber transforms test (S k) l'
      else it :: renumber transforms test k l'
  end.
Definition count_matching (transforms : bool) (test : list N) (l : list hitem) : nat :=
  List.length (List.filter (fun it => mn_compare transforms (useful (i_orig it)) test) l).
Definition assign_suffixes (transforms : bool) (test : list N) (l : list hitem) : list hitem :=
  if Nat.ltb 1 (count_matching transforms test l) then renumber transforms test 1 l else l.
Definition sect_append (transforms : bool) (l : list hitem) (it : hitem) : list hitem :=
  assign_suffixes transforms (useful (i_orig it)) (l ++ [it]).

Fixpoint sect_find (transforms : bool) (key : list N) (l : list hitem) : option hitem :=
  match l with
  | [] => None
  | it :: l' => if mn_compare transforms (i_sess it) key then Some it else sect_find transforms key l'
  end.

(* ---- SectionParser ------------------------------------------------------------------------ *)
Inductive skind := KVersion | KWell | KCurves | KParameter | KCustom.

(* title.upper().startswith("~C") ... ; LAS 3.0 _Data/_Parameter/_Definition titles are outside
   the modelled fragment *)
Definition kind_of_title (title : list N) : skind :=
  match upper title with
  | 126 :: 67 :: _ => KCurves
  | 126 :: 80 :: _ => KParameter
  | 126 :: 87 :: _ => KWell
  | 126 :: 86 :: _ => KVersion
  | _ => KCustom
  end.

Definition sect_table_name (k : skind) : list N :=
  match k with
  | KVersion => s2l "Version" | KWell => s2l "Well" | KCurves => s2l "Curves"
  | KParameter => s2l "Parameter" | KCustom => [] end.

Definition las_version_eqb (a b : las_version) : bool :=
  match a, b with
  | V10, V10 | V12, V12 | V20, V20 | V21, V21 | V30, V30 => true
  | _, _ => false
  end.
Definition item_order_eqb (a b : item_order) : bool :=
  match a, b with ValueDescr, ValueDescr | DescrValue, DescrValue => true | _, _ => false end.

Fixpoint lookup_order_entry (v : las_version) (sect : list N)
         (t : list ((las_version * list N) * order_entry)) : option order_entry :=
  match t with
  | [] => None
  | ((v', s'), e) :: t' =>
      if las_version_eqb v v' && str_eqb sect s' then Some e else lookup_order_entry v sect t'
  end.

(* orders.get(mnemonic, default_order): later list entries override earlier ones (dict update) *)
Fixpoint order_from_exceptions (m : list N) (ex : list (item_order * list (list N))) (acc : option item_order)
  : option item_order :=
  match ex with
  | [] => acc
  | (o, ms) :: ex' =>
      order_from_exceptions m ex' (if existsb (str_eqb m) ms then Some o else acc)
  end.
Definition order_for (v : las_version) (k : skind) (m : list N) : item_order :=
  match k with
  | KCustom => ValueDescr
  | _ =>
      match lookup_order_entry v (sect_table_name k) order_definitions with
      | Some (dflt, ex) =>
          (* orders.get(name, orders.get(name.upper(), default_order)) *)
          match order_from_exceptions m ex None with
          | Some o => o
          | None => match order_from_exceptions (upper m) ex None with Some o => o | None => dflt end
          end
      | None => ValueDescr
      end
  end.

(* SectionParser.strip_brackets: x = x.strip(); a bracketed text of two or more characters loses its outer pair and is
   stripped again (the recursive call; lasio fix b7a2e2d).  The length drops by at least two per call, so the fuel
   S (length x) is never used up (Proofs/StripBracketsFacts.v: sbf_more, strip_brackets_unfold). *)
Fixpoint strip_brackets_fuel (n : nat) (x : list N) : list N :=
  match n with
  | O => x
  | S n =>
      let y := strip x in
      match y with
      | a :: _ :: _ =>
          let z := last y 0 in
          if ((a =? 91) && (z =? 93)) || ((a =? 40) && (z =? 41)) then strip_brackets_fuel n (removelast (tl y)) else y
      | _ => y
      end
  end.
Definition strip_brackets (x : list N) : list N := strip_brackets_fuel (S (List.length x)) x.

Definition is_number_string (name : list N) : bool :=
  let u := upper name in str_eqb u (s2l "API") || str_eqb u (s2l "UWI").

(* the parser call: name is already case-mapped *)
Definition build_item (v : las_version) (k : skind) (h : hline) : hitem :=
  match k with
  | KCurves => new_item (h_name h) (strip_brackets (h_unit h)) (VStr (h_value h)) (h_descr h)
  | KParameter => new_item (h_name h) (strip_brackets (h_unit h)) (num (h_value h)) (h_descr h)
  | _ =>
      let (value, descr) :=
        match order_for v k (h_name h) with
        | ValueDescr => (h_value h, h_descr h)
        | DescrValue => (h_descr h, h_value h)
        end in
      new_item (h_name h) (strip_brackets (h_unit h))
               (if is_number_string (h_name h) then VStr value else num value) descr
  end.

(* ---- parse_header_items_section over the body lines of one section --------------------------
   result: Err (offending stripped line) models LASHeaderError; junk lines are skipped when
   ignore_header_errors.  comment_chars: first characters that mark a comment line. *)
Inductive presult := POk (items : list hitem) | PErr (line : list N).

Definition parse_line (v : las_version) (k : skind) (c : mcase) (line : list N) : option hitem :=
  match read_header_line line (match k with KCurves => true | _ => false end)
                              (match k with KParameter => true | _ => false end) with
  | None => None
  | Some h => Some (build_item v k (mkhl (apply_case c (h_name h)) (h_unit h) (h_value h) (h_descr h)))
  end.

Fixpoint parse_body (v : las_version) (k : skind) (c : mcase) (ignore_errors : bool)
         (comment_chars : list N) (transforms : bool) (lines : list (list N)) (acc : list hitem) : presult :=
  match lines with
  | [] => POk acc
  | raw :: rest =>
      let line := strip raw in
      match line with
      | [] => parse_body v k c ignore_errors comment_chars transforms rest acc
      | ch :: _ =>
          if in_str ch comment_chars then parse_body v k c ignore_errors comment_chars transforms rest acc
          else if ch =? ch_tilde then POk acc
          else
            match parse_line v k c line with
            | Some it => parse_body v k c ignore_errors comment_chars transforms rest (sect_append transforms acc it)
            | None => if ignore_errors then parse_body v k c ignore_errors comment_chars transforms rest acc
                      else PErr line
            end
      end
  end.

Definition parse_section (v : las_version) (title : list N) (c : mcase) (ignore_errors : bool)
           (comment_chars : list N) (body : list (list N)) : presult :=
  let transforms := match c with CasePreserve => false | _ => true end in
  parse_body v (kind_of_title (strip title)) c ignore_errors comment_chars transforms body [].
