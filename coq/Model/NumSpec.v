(* Model.NumSpec — the independent reading of "plain decimal literal" used by C08,
   written from the property statement, not from the code. *)
From Coq Require Import List NArith ZArith Bool.
Import ListNotations.
Require Import PyStr NumLit.
Open Scope N_scope.

Definition sign_opt (sg : str) : Prop := sg = [] \/ sg = [43] \/ sg = [45].
Definition is_neg (sg : str) : bool := match sg with [45] => true | _ => false end.

(* mantissa with '.' as the mark:  digits | digits "." digits? | "." digits *)
Definition mantissa (mn : str) : Prop :=
  digits1 mn = true
  \/ (exists ip fp, mn = ip ++ 46 :: fp /\ digits1 ip = true /\ all_digits fp = true)
  \/ (exists fp, mn = 46 :: fp /\ digits1 fp = true).

Definition exponent_opt (ex : str) : Prop :=
  ex = [] \/ exists e sg ds, ex = e :: sg ++ ds /\ (e = 101 \/ e = 69) /\ sign_opt sg /\ digits1 ds = true.

Definition plain_decimal (x : str) : Prop :=
  exists sg mn ex, x = sg ++ mn ++ ex /\ sign_opt sg /\ mantissa mn /\ exponent_opt ex.

(* integer literal: sign and digits only *)
Definition plain_integer (x : str) (z : Z) : Prop :=
  exists sg ds, x = sg ++ ds /\ sign_opt sg /\ digits1 ds = true /\
                z = (if is_neg sg then - digits_val ds 0 else digits_val ds 0)%Z.

(* The decimal comma: a ',' standing between two digits is read as the mark.  One
   left-to-right pass, a digit consumed as the right neighbour of one comma is not
   reused as the left neighbour of the next (so 1,2,3 keeps its second comma and is
   therefore not a literal). *)
Fixpoint comma_to_dot (s : str) : str :=
  match s with
  | a :: ((b :: c :: s'') as s') =>
      if is_digit a && (b =? 44) && is_digit c then a :: 46 :: c :: comma_to_dot s''
      else a :: comma_to_dot s'
  | _ => s
  end.
