(* Model.Writer — writer.write (writer.py) together with LASFile.update_start_stop_step and
   update_units_from_index_curve (las.py 554-606), as  las -> options -> text * las'.
   STRT/STOP/STEP keyword arguments are left at None ("left to lasio").  Definitions only.

   The index is las.index = las.curves[0].data (`index_of`): with no curve `las.index` raises
   IndexError.  writer.write evaluates it unguarded when index_initial is set (-> the call
   raises: WErr) and inside update_start_stop_step's `try ... except IndexError`
   otherwise (-> STRT/STOP/STEP are left at None, exactly as for an empty index).
   Modelled fragment: the cells of the index column are numbers or NaN.  A text index
   (CStr cells) makes lasio raise TypeError (`fmt % text`) whenever the refresh is needed, and
   skip the refresh when STOP holds the very text of the last cell; neither is modelled
   (fmt_index_cell returns the text, the STOP comparison says "different").
   The index format prints a float literal (float(fmt % x) succeeds; when it does not, lasio
   compares STOP with the unprinted last cell instead: not modelled).
   `fmt % nan` is taken to be "nan": true of the float conversions (%f %e %g, any precision)
   without width, sign or space flag; an integer conversion (%d) makes lasio raise ValueError
   on a NaN index cell, which is not modelled either.

   Oracles (CPython facts, supplied per case by the harness, never modelled):
     fmtv f tok      = f % float(tok)          (numeric formatting of a sample)
     fmt_diff f a b  = f % (float(a) - float(b))
     fmt_pi f        = f % numpy.pi
     fstr tok        = str(np.float64(tok))
     fzero tok       = (float(tok) == 0)
     numeq a b       = (float(a) == float(b))                                              *)
From Coq Require Import List NArith ZArith Bool Arith String.
Import ListNotations.
Require Import PyStr Regex NumLit Num Tables SectionParse DataRead Read TextWrap.
Open Scope string_scope.
Open Scope list_scope.
Open Scope N_scope.

Inductive wver := W12 | W20.
Inductive lnf := LAuto | LNone1 | LFixed (n : nat).      (* None | -1 | n *)

Record wopts := mkwopts {
  wo_version : option wver;
  wo_wrap : option bool;
  wo_fmt : list N;
  wo_column_fmt : list (nat * list N);
  wo_len_numeric_field : lnf;
  wo_lhs_spacer : list N;
  wo_spacer : list N;
  wo_data_width : nat;
  wo_header_width : nat;
  wo_data_section_header : list N;
  wo_mnemonics_header : bool }.

(* an in-memory LASFile: what Read produces plus index_initial *)
Record mlas := mkmlas { m_las : las; m_index_initial : option (list cell) }.

(* a raising call.  The exception class is nominal: `write` reports every failure as
   WErr WKeyError and the correspondence renders a raising write as "ERR" whatever the class
   (harness/writemodel.py run_impl); the comments say which exception lasio raises. *)
Inductive werr := WKeyError | WIndexError | WAssert | WOther.
Inductive wres := WOk (text : list N) (m : mlas) | WErr (e : werr).

Section WithOracles.
Variable fmtv : list N -> list N -> list N.
Variable fmt_diff : list N -> list N -> list N -> list N.
Variable fmt_pi : list N -> list N.
Variable fstr : list N -> list N.
Variable fzero : list N -> bool.
Variable numeq : list N -> list N -> bool.

Definition vstr (v : hval) : list N :=
  match v with
  | VInt z => z_to_str z
  | VFloat l => fstr l
  | VStr s => s
  | VNone => s2l "None"
  end.

(* Python truthiness / == 0 of a header value *)
Definition v_falsy (v : hval) : bool :=
  match v with
  | VInt z => (z =? 0)%Z
  | VFloat l => fzero l
  | VStr s => match s with [] => true | _ => false end
  | VNone => true
  end.
Definition v_is_zero (v : hval) : bool :=
  match v with VInt z => (z =? 0)%Z | VFloat l => fzero l | _ => false end.

(* standardize_value *)
Definition standardize (v : hval) (unit : list N) : hval :=
  let v1 := match unit with
            | [] => v
            | _ => if v_falsy v && negb (v_is_zero v) then VInt 0 else v
            end in
  match v1 with VNone => VStr [] | _ => v1 end.

Definition set_value (it : hitem) (v : hval) : hitem :=
  mkitem (i_orig it) (i_sess it) (i_unit it) v (i_descr it).
Definition set_unit (it : hitem) (u : list N) : hitem :=
  mkitem (i_orig it) (i_sess it) u (i_value it) (i_descr it).

(* s[key].field = x  on the first item whose session mnemonic matches; None = KeyError *)
Fixpoint update_first (tr : bool) (key : list N) (f : hitem -> hitem) (l : list hitem) : option (list hitem) :=
  match l with
  | [] => None
  | it :: l' =>
      if mn_compare tr (i_sess it) key then Some (f it :: l')
      else match update_first tr key f l' with Some r => Some (it :: r) | None => None end
  end.

(* SectionItems.set_item(key, newitem): replace the first match (then re-suffix), else append *)
Fixpoint replace_first (tr : bool) (key : list N) (new : hitem) (l : list hitem) : option (list hitem) :=
  match l with
  | [] => None
  | it :: l' =>
      if mn_compare tr key (i_sess it) then Some (new :: l')
      else match replace_first tr key new l' with Some r => Some (it :: r) | None => None end
  end.
Definition set_item (tr : bool) (key : list N) (new : hitem) (l : list hitem) : list hitem :=
  match replace_first tr key new l with
  | Some r => assign_suffixes tr (useful (i_orig new)) r
  | None => sect_append tr l new
  end.

(* ---- header line formatting ------------------------------------------------------------- *)
Definition wver_las (v : las_version) := v.
Definition order_of (v : las_version) (sect : list N) (m : list N) : option item_order :=
  match lookup_order_entry v sect order_definitions with
  | Some (dflt, ex) =>
      Some (match order_from_exceptions m ex None with
            | Some o => o
            | None => match order_from_exceptions (upper m) ex None with Some o => o | None => dflt end
            end)
  | None => None
  end.

Definition rhs_text (o : item_order) (it : hitem) : list N :=
  match o with ValueDescr => vstr (i_value it) | DescrValue => i_descr it end.
Definition tail_text (o : item_order) (it : hitem) : list N :=
  match o with ValueDescr => i_descr it | DescrValue => vstr (i_value it) end.

Definition max_list (l : list nat) : nat := fold_left Nat.max l 0%nat.

Definition left_col (left_width : nat) (it : hitem) : list N :=
  (* a mnemonic that ends with a period is not padded (the reader recognises the abbreviation
     period only when it touches the delimiter) *)
  let l := if endswith [ch_dot] (i_orig it) then i_orig it else ljust left_width 32 (i_orig it) in
  match i_unit it with
  | 46 :: _ => if endswith [32] l then l else l ++ [32]
  | _ => l
  end.

Definition format_item (o : item_order) (left_width middle_width : nat) (it : hitem) : list N :=
  let rhs := rhs_text o it in
  left_col left_width it ++ [ch_dot] ++ i_unit it
  ++ repeat_ch 32 (middle_width - List.length (i_unit it) - List.length rhs) ++ rhs
  ++ s2l " : " ++ tail_text o it.

Definition section_lines (v : las_version) (sect : list N) (items : list hitem) : option (list (list N)) :=
  match lookup_order_entry v sect order_definitions with
  | None => None
  | Some _ =>
      let ord it := match order_of v sect (i_orig it) with Some o => o | None => ValueDescr end in
      let lw := max_list (List.map (fun it => List.length (i_orig it)) items) in
      let mw := max_list (List.map (fun it => (List.length (i_unit it) + 1 + List.length (rhs_text (ord it) it))%nat) items) in
      Some (List.map (fun it => format_item (ord it) lw mw it) items)
  end.

Definition title_line (hw : nat) (t : list N) : list N := ljust hw ch_minus t.

(* ---- data section ---------------------------------------------------------------------------- *)
Definition cell_text (f : list N) (null_text : option (list N)) (c : cell) : option (list N) :=
  match c with
  | CNum t => Some (fmtv f t)
  | CNaN => null_text                     (* KeyError when there is no NULL item *)
  | CStr s => Some s
  end.

Definition col_fmt (o : wopts) (j : nat) : list N :=
  match List.find (fun kv => Nat.eqb (fst kv) j) (wo_column_fmt o) with
  | Some kv => snd kv
  | None => wo_fmt o
  end.

Fixpoint auto_lnf (fuel : nat) (plen n : nat) : nat :=
  match fuel with
  | O => n
  | S f => if Nat.ltb (n - 1) plen then auto_lnf f plen (S n) else n
  end.
Definition field_width (o : wopts) : option nat :=
  match wo_len_numeric_field o with
  | LAuto => let plen := List.length (fmt_pi (wo_fmt o)) in Some (auto_lnf (S plen) plen 10)
  | LNone1 => None
  | LFixed n => Some n
  end.

Definition field_text (o : wopts) (j : nat) (null_text : option (list N)) (c : cell) : option (list N) :=
  match cell_text (col_fmt o j) null_text c with
  | None => None
  | Some v =>
      let v := match field_width o with Some l => rjust l 32 v | None => v end in
      Some ((if Nat.eqb j 0 then wo_lhs_spacer o else wo_spacer o) ++ v)
  end.

Fixpoint row_text (o : wopts) (null_text : option (list N)) (j : nat) (row : list cell) : option (list N) :=
  match row with
  | [] => Some []
  | c :: row' =>
      match field_text o j null_text c, row_text o null_text (S j) row' with
      | Some a, Some b => Some (a ++ b)
      | _, _ => None
      end
  end.

Fixpoint opt_all {A} (l : list (option A)) : option (list A) :=
  match l with
  | [] => Some []
  | Some x :: l' => match opt_all l' with Some r => Some (x :: r) | None => None end
  | None :: _ => None
  end.

(* rows of the data: only when every curve has the same length (else np.vstack raises and the
   data section is written empty) *)
Definition data_rows (cols : list (list cell)) : list (list cell) :=
  match cols with
  | [] => []
  | c0 :: _ =>
      let r := List.length c0 in
      if forallb (fun c => Nat.eqb (List.length c) r) cols
      then List.map (fun i => List.map (fun c => nth i c CNaN) cols) (seq 0 r)
      else []
  end.

(* ---- the mnemonics header line ------------------------------------------------------------------ *)
Fixpoint strip_leading_n (n : nat) (hv : list N) : list N :=     (* the loop over data_section_header *)
  match n with
  | O => hv
  | S n' => match hv with 32 :: hv' => strip_leading_n n' hv' | _ => strip_leading_n n' hv end
  end.

(* ---- STRT/STOP/STEP refresh ------------------------------------------------------------------ *)
Definition cell_tok (c : cell) : option (list N) := match c with CNum t => Some t | _ => None end.

Definition cells_equal (a b : list cell) : bool :=
  Nat.eqb (List.length a) (List.length b) &&
  forallb (fun p => match p with
                    | (CNum x, CNum y) => numeq x y
                    | (CStr x, CStr y) => str_eqb x y
                    | _ => false                        (* NaN != NaN *)
                    end) (combine a b).

(* STRT/STOP/STEP are printed with the format of the index column: column_fmt[0] or fmt *)
Definition fmt_index_cell (f : list N) (c : cell) : hval :=
  match c with
  | CNum t => VStr (fmtv f t)
  | CNaN => VStr (s2l "nan")
  | CStr s => VStr s           (* fmt % text raises TypeError: outside the modelled fragment *)
  end.

(* the loop `for k in range(len(data_section_header)): if k < len(hv): if hv[0] == " ": hv = hv[1:]` *)
Fixpoint strip_header_value (k n : nat) (hv : list N) : list N :=
  match n with
  | O => hv
  | S n' =>
      let hv' := if Nat.ltb k (List.length hv) then match hv with 32 :: t => t | _ => hv end else hv in
      strip_header_value (S k) n' hv'
  end.

Definition item_value_by (tr : bool) (key : list N) (l : list hitem) : option hval :=
  match sect_find tr key l with Some it => Some (i_value it) | None => None end.

Definition with_version (l : las) (s : section) : las :=
  mklas s (l_well l) (l_curves l) (l_params l) (l_other l) (l_custom l) (l_data l) (l_engine_numpy l).
Definition with_well (l : las) (s : section) : las :=
  mklas (l_version l) s (l_curves l) (l_params l) (l_other l) (l_custom l) (l_data l) (l_engine_numpy l).
Definition with_curves (l : las) (s : section) : las :=
  mklas (l_version l) (l_well l) s (l_params l) (l_other l) (l_custom l) (l_data l) (l_engine_numpy l).
Definition with_params (l : las) (s : section) : las :=
  mklas (l_version l) (l_well l) (l_curves l) s (l_other l) (l_custom l) (l_data l) (l_engine_numpy l).

Definition map_section (f : hitem -> hitem) (s : section) : section := mksect (List.map f (s_items s)) (s_transforms s).

Definition bind {A B} (o : option A) (f : A -> option B) : option B := match o with Some x => f x | None => None end.

(* las.index = las.curves[0].data.  With no curve the property raises IndexError: [] here, which
   is how update_start_stop_step sees it (its `except IndexError` treats the missing curve like
   an empty index); the unguarded use in writer.write is the None of `need` below. *)
Definition index_of (l : las) : list cell :=
  match s_items (l_curves l) with [] => [] | _ :: _ => nth 0%nat (l_data l) [] end.

(* STEP = fmt % (index[1] - index[0]): the oracle text for two numbers, "nan" as soon as one
   operand is NaN (like fmt_index_cell on NaN) *)
Definition step_text (f : list N) (c0 c1 : cell) : hval :=
  match c0, c1 with
  | CNum a, CNum b => VStr (fmt_diff f b a)
  | CStr _, _ | _, CStr _ => VNone      (* text - x raises TypeError: outside the modelled fragment *)
  | _, _ => VStr (s2l "nan")
  end.

(* steps 4-5: refresh STRT/STOP/STEP values and align the units; None = the call raises
   (KeyError / AttributeError for a missing STRT, STOP or STEP item, IndexError for a missing
   curve or an empty index_initial) *)
Definition refresh_sss (f : list N) (m : mlas) : option las :=
  let l := m_las m in
  let index := index_of l in
  let well := l_well l in
  let trw := s_transforms well in
  let need :=
    match m_index_initial m with
    | None => Some true
    | Some ii =>
        match s_items (l_curves l) with
        | [] => None                                        (* las.index with no curve: IndexError *)
        | _ :: _ =>
        match rev ii with
        | [] => None                                        (* index_initial[-1]: IndexError *)
        | lastc :: _ =>
            match item_value_by trw (s2l "STOP") (s_items well) with
            | None => None                                  (* las.well.STOP: AttributeError *)
            | Some sv =>
                (* float(index_fmt % index_initial[-1]) != STOP.value: STOP is compared with
                   the value the index column PRINTS for its last cell (f = its format), so
                   that a format that loses digits triggers the refresh on the first write *)
                let stop_diff :=
                  match lastc, sv with
                  | CNum t, VInt z => negb (numeq (fmtv f t) (z_to_str z))
                  | CNum t, VFloat x => negb (numeq (fmtv f t) x)
                  | _, _ => true
                  end in
                Some (negb (cells_equal ii index) || stop_diff)
            end
        end
        end
    end in
  bind need (fun need =>
  let set_values (w : list hitem) : option (list hitem) :=
    if need then
      let strt := match index with c :: _ => fmt_index_cell f c | [] => VNone end in
      let stop := match rev index with c :: _ => fmt_index_cell f c | [] => VNone end in
      let step :=
        match index with
        | c0 :: c1 :: _ =>
            (* `if STOP != STRT` on the two texts; a single sample never gets here *)
            if match strt, stop with VStr x, VStr y => str_eqb x y | _, _ => true end then VNone
            else step_text f c0 c1
        | _ => VNone
        end in
      bind (update_first trw (s2l "STRT") (fun it => set_value it strt) w) (fun w1 =>
      bind (update_first trw (s2l "STOP") (fun it => set_value it stop) w1) (fun w2 =>
      update_first trw (s2l "STEP") (fun it => set_value it step) w2))
    else Some w in
  bind (set_values (s_items well)) (fun w =>
  (* update_units_from_index_curve *)
  let c0unit := match s_items (l_curves l) with c0 :: _ => i_unit c0 | [] => [] end in
  bind (sect_find trw (s2l "STRT") w) (fun strt_item =>
  let unit := match c0unit with [] => i_unit strt_item | _ => c0unit end in
  bind (update_first trw (s2l "STRT") (fun it => set_unit it unit) w) (fun w1 =>
  bind (update_first trw (s2l "STOP") (fun it => set_unit it unit) w1) (fun w2 =>
  bind (update_first trw (s2l "STEP") (fun it => set_unit it unit) w2) (fun w3 =>
  let curves' := match s_items (l_curves l) with c0 :: rest => set_unit c0 unit :: rest | [] => [] end in
  Some (with_curves (with_well l (mksect w3 trw)) (mksect curves' (s_transforms (l_curves l)))))))))).

Definition write (o : wopts) (m : mlas) : wres :=
  let l0 := m_las m in
  let trv := s_transforms (l_version l0) in
  (* 1. wrap *)
  let wrap_step : option (bool * las) :=
    match wo_wrap o with
    | None => match sect_find trv (s2l "WRAP") (s_items (l_version l0)) with
              | Some _ => Some (false, l0) | None => None end
    | Some true => Some (true, with_version l0 (mksect (set_item trv (s2l "WRAP")
                     (new_item (s2l "WRAP") [] (VStr (s2l "YES")) (s2l "Multiple lines per depth step")) (s_items (l_version l0))) trv))
    | Some false => Some (false, with_version l0 (mksect (set_item trv (s2l "WRAP")
                     (new_item (s2l "WRAP") [] (VStr (s2l "NO")) (s2l "One line per depth step")) (s_items (l_version l0))) trv))
    end in
  match wrap_step with
  | None => WErr WKeyError
  | Some (wrap, l1) =>
  (* 2-3. version to write *)
  let vers : option las_version :=
    match wo_version o with
    | Some W12 => Some V12
    | Some W20 => Some V20
    | None => bind (item_value_by trv (s2l "VERS") (s_items (l_version l1))) version_of
    end in
  match vers with
  | None => WErr WKeyError
  | Some v =>
  (* the written copy of ~Version declares DLM SPACE (the data is written white-space separated) *)
  let vcopy :=
    match update_first trv (s2l "DLM") (fun it => set_value it (VStr (s2l "SPACE"))) (s_items (l_version l1)) with
    | Some r => r
    | None => s_items (l_version l1)
    end in
  let vsw :=
    if las_version_eqb v V12 then
      set_item trv (s2l "VERS") (new_item (s2l "VERS") [] (VFloat (s2l "1.2")) (s2l "CWLS LOG ASCII STANDARD - VERSION 1.2")) vcopy
    else if las_version_eqb v V20 then
      set_item trv (s2l "VERS") (new_item (s2l "VERS") [] (VFloat (s2l "2.0")) (s2l "CWLS log ASCII Standard -VERSION 2.0")) vcopy
    else vcopy in
  (* 4-5 *)
  match refresh_sss (col_fmt o 0%nat) (mkmlas l1 (m_index_initial m)) with
  | None => WErr WKeyError               (* KeyError / AttributeError / IndexError, see refresh_sss *)
  | Some l2 =>
  (* 7, 9: normalise ~Well and ~Parameter values *)
  let l3 := with_params (with_well l2 (map_section (fun it => set_value it (standardize (i_value it) (i_unit it))) (l_well l2)))
                        (map_section (fun it => set_value it (standardize (i_value it) (i_unit it))) (l_params l2)) in
  let hw := wo_header_width o in
  match section_lines v (s2l "Version") vsw, section_lines v (s2l "Well") (s_items (l_well l3)),
        section_lines v (s2l "Curves") (s_items (l_curves l3)), section_lines v (s2l "Parameter") (s_items (l_params l3)) with
  | Some lv, Some lw, Some lc, Some lp =>
      let header :=
        [title_line hw (s2l "~Version ")] ++ lv ++ [title_line hw (s2l "~Well ")] ++ lw
        ++ [title_line hw (s2l "~Curve Information ")] ++ lc ++ [title_line hw (s2l "~Params ")] ++ lp
        ++ [title_line hw (s2l "~Other ")] ++ splitlines (l_other l3) in
      let ncurves := List.length (s_items (l_curves l3)) in
      let cols := List.map (fun j => nth j (l_data l3) []) (seq 0 ncurves) in
      let rows := data_rows cols in
      let null_text := match item_value_by (s_transforms (l_well l3)) (s2l "NULL") (s_items (l_well l3)) with
                       | Some nv => Some (vstr nv) | None => None end in
      let dsh_line : option (list N) :=
        if wo_mnemonics_header o then
          match rows with
          | [] => match s_items (l_curves l3) with
                  | [] => Some (wo_data_section_header o ++ [32])
                  | _ => None                                    (* data_arr[0, j]: IndexError / NameError *)
                  end
          | row0 :: _ =>
              bind (opt_all (List.map (fun jc => field_text o (fst jc) null_text (snd jc)) (combine (seq 0 (List.length row0)) row0)))
                (fun firsts =>
                   let hvs := List.map (fun cw =>
                                  let mn := i_sess (fst cw) in
                                  let colw := List.length (snd cw) in
                                  let width := if Nat.ltb (colw - 1) (List.length mn) then S (List.length mn) else colw in
                                  rjust width 32 mn)
                                (combine (s_items (l_curves l3)) firsts) in
                   let dsh := wo_data_section_header o ++ [32] in
                   let hvs := match hvs with
                              | hv :: rest => strip_header_value 0 (List.length dsh) hv :: rest
                              | [] => []
                              end in
                   Some (dsh ++ List.concat hvs))
          end
        else Some (title_line hw (wo_data_section_header o ++ [32])) in
      match dsh_line, opt_all (List.map (row_text o null_text 0%nat) rows) with
      | Some dl, Some rts =>
          let data_lines := if wrap then flat_map (TextWrap.wrap (wo_data_width o)) rts else rts in
          let text := join [ch_nl] header ++ [ch_nl] ++ dl ++ [ch_nl] ++ flat_map (fun ln => ln ++ [ch_nl]) data_lines in
          WOk text (mkmlas l3 (m_index_initial m))
      | _, _ => WErr WKeyError
      end
  | _, _, _, _ => WErr WKeyError
  end
  end end end.

End WithOracles.
