(* Model.Sections — find_sections_in_file, determine_section_type, the slices of lines each
   consumer loop reads (reader.py 266-325; las.py 227-343).  Definitions only. *)
From Coq Require Import List NArith Bool String.
Import ListNotations.
Require Import PyStr Regex.
Open Scope string_scope.
Open Scope list_scope.
Open Scope N_scope.

(* one entry per title line: (first_line_no, last_line_no, stripped title) *)
Record spos := mkspos { sp_first : nat; sp_last : nat; sp_title : list N }.

Fixpoint find_starts (ls : list (list N)) (i : nat) : list (nat * list N) :=
  match ls with
  | [] => []
  | l :: ls' =>
      let s := strip l in
      if startswith [ch_tilde] s then (i, s) :: find_starts ls' (S i) else find_starts ls' (S i)
  end.

(* ends: the line before the next title for inner sections, the line count for the last *)
Fixpoint with_ends (starts : list (nat * list N)) (nlines : nat) : list spos :=
  match starts with
  | [] => []
  | [(i, t)] => [mkspos i nlines t]
  | (i, t) :: (((j, _) :: _) as rest) => mkspos i (j - 1) t :: with_ends rest nlines
  end.

Definition find_sections (ls : list (list N)) : list spos :=
  with_ends (find_starts ls 0%nat) (List.length ls).

Inductive stype := TData | TOther | TLas3Data | THeader.

Definition first2_upper (t : list N) : list N := List.map ascii_upper (firstn 2 t).
Definition section_type (title : list N) : stype :=
  let t := strip title in
  if str_eqb (first2_upper t) [126; 65] || contains (s2l "~Log_Data") t then TData
  else if str_eqb (first2_upper t) [126; 79] then TOther
  else if contains (s2l "_Data") t then TLas3Data
  else THeader.

(* lines first+1 .. last (inclusive), i.e. what the header-items and data loops consume *)
Definition body_lines (ls : list (list N)) (p : spos) : list (list N) :=
  firstn (sp_last p - sp_first p) (skipn (S (sp_first p)) ls).

(* the ~Other loop (las.py): starts AT the title line, skips (stripped) lines that begin with '~'
   without counting them, stops when line_no reaches last_line *)
Fixpoint other_loop (ls : list (list N)) (line_no last : nat) (acc : list (list N)) : list (list N) :=
  match ls with
  | [] => rev acc
  | l :: ls' =>
      if startswith [ch_tilde] (strip l) then
        if Nat.eqb line_no last then rev acc else other_loop ls' line_no last acc
      else
        let line_no' := S line_no in
        let acc' := strip l :: acc in
        if Nat.eqb line_no' last then rev acc' else other_loop ls' line_no' last acc'
  end.
Definition other_text (ls : list (list N)) (p : spos) : list N :=
  join [ch_nl] (other_loop (skipn (sp_first p) ls) (sp_first p) (sp_last p) []).
