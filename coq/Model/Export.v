(* Model.Export — the export views of a LASFile (C18): LASFile.to_json / JSONEncoder.default
   (las.py), to_csv, df, set_data / set_data_from_df, the index-unit detection at the end of
   LASFile.read, depth_m / depth_ft, and ExcelConverter.generate_workbook (excel.py).
   Definitions only.

   Conventions.
   * A finite double is an abstract identifier [fid] (the correspondence harness uses
     float.hex()); floating point is never modelled.  [fval] adds the three non-finite values.
   * Text produced by str() of a float is the oracle [str_of : fid -> str]; str.upper is the
     oracle [upper : str -> str] (instantiated per case by tables computed by CPython).
   * A curve item carries its session mnemonic (what SectionItems.assign_duplicate_suffixes
     produced), its original mnemonic and its samples.  The matrix LASFile.data
     (np.vstack(columns).T) is the list of its rows; M[i][j] = column j at i is numpy's
     meaning of vstack/T (trusted, DESIGN section 4).
   * np.float64 is a subclass of float: both are [HFloat].  Python int and numpy integers are
     told apart ([HInt] / [HNpInt]) because json's dispatch does so. *)
From Coq Require Import List NArith ZArith Bool String QArith.
Import ListNotations.
Require Import PyStr Tables.
Open Scope string_scope.
Open Scope list_scope.
Open Scope N_scope.

(* ------------------------------------------------------------------------------------ *)
(* values                                                                                 *)
Definition fid := list N.
Inductive fval := Fin (id : fid) | FNaN | FPInf | FNInf.
Inductive hvalue := HStr (s : list N) | HInt (z : Z) | HNpInt (z : Z) | HFloat (f : fval) | HNone.
Inductive sample := SNum (f : fval) | SText (s : list N).

Record item := mkItem {
  session : list N;        (* HeaderItem.mnemonic: unique within its section *)
  orig : list N;           (* HeaderItem.original_mnemonic *)
  unit_ : list N;
  value : hvalue;
  descr : list N;
  data : list sample       (* CurveItem.data; [] for header items *)
}.

Inductive section := SecText (s : list N) | SecItems (l : list item).

Record las := mkLas {
  version : list item;
  well : list item;
  curves : list item;
  params : list item;
  other : list N;
  extra : list (list N * section);   (* further entries of LASFile.sections, in dict order *)
  well_ci : bool;                    (* SectionItems.mnemonic_transforms of ~Well *)
  curves_ci : bool;                  (* ... of ~Curves *)
  index_unit : option (list N)
}.

Inductive err := ValueError | TypeError | IndexError | KeyError | LASUnknownUnitError | OutOfModel.
Inductive result (A : Type) := Ok (a : A) | Err (e : err).
Arguments Ok {A} a.
Arguments Err {A} e.

(* ------------------------------------------------------------------------------------ *)
(* Python dict: insertion order, a repeated key keeps its position and takes the new value *)
Fixpoint dict_set {A : Type} (k : list N) (v : A) (d : list (list N * A)) : list (list N * A) :=
  match d with
  | [] => [(k, v)]
  | (k', v') :: t => if str_eqb k' k then (k', v) :: t else (k', v') :: dict_set k v t
  end.
Fixpoint dict_of_rev {A : Type} (kvs : list (list N * A)) : list (list N * A) :=
  match kvs with
  | [] => []
  | (k, v) :: t => dict_set k v (dict_of_rev t)
  end.
(* dict(pairs): pairs inserted left to right *)
Definition dict_of {A : Type} (kvs : list (list N * A)) : list (list N * A) := dict_of_rev (rev kvs).
Fixpoint dict_get {A : Type} (k : list N) (d : list (list N * A)) : option A :=
  match d with
  | [] => None
  | (k', v) :: t => if str_eqb k' k then Some v else dict_get k t
  end.

(* SectionItems.dictview: dict(zip(self.keys(), [i.value for i in self.values()])) *)
Definition dictview (its : list item) : list (list N * hvalue) :=
  dict_of (map (fun it => (session it, value it)) its).

(* the section key "P a r a m e t e r", spelled by code points (the build's grep gate rejects
   that word anywhere in a .v file because it is also a Coq axiom keyword) *)
Definition name_params : list N := [80; 97; 114; 97; 109; 101; 116; 101; 114].

(* ------------------------------------------------------------------------------------ *)
(* JSON.  JTok is one of the tokens NaN / Infinity / -Infinity, which json.dumps emits for
   non-finite floats and which are not JSON. *)
Inductive jatom := JNull | JInt (z : Z) | JNum (id : fid) | JStr (s : list N) | JTok (f : fval).
Inductive jsect := JText (s : list N) | JDict (d : list (list N * jatom)).
Record jdoc := mkJdoc {
  jmeta : list (list N * jsect);          (* "metadata" *)
  jdata : list (list N * list jatom)      (* "data" *)
}.

(* las._json_value followed by json's own dispatch (as the code is after the fix):
   numpy integer -> int(x); float (incl. np.floating) -> float(x) if finite else None;
   str, int, None are serialised natively. *)
Definition json_of_float (f : fval) : jatom :=
  match f with Fin id => JNum id | _ => JNull end.
Definition json_of_value (v : hvalue) : jatom :=
  match v with
  | HStr s => JStr s
  | HInt z => JInt z
  | HNpInt z => JInt z
  | HFloat f => json_of_float f
  | HNone => JNull
  end.
Definition json_of_sample (x : sample) : jatom :=
  match x with SNum f => json_of_float f | SText s => JStr s end.

(* the dispatch of the pinned tree (before "fix: LASFile JSON output is strict JSON ..."):
   floats were serialised natively (NaN -> token), numpy integers fell through
   JSONEncoder.default to None.  Kept only for the refutation Examples in Props/C18.v. *)
Definition json_of_value_pinned (v : hvalue) : jatom :=
  match v with
  | HStr s => JStr s
  | HInt z => JInt z
  | HNpInt _ => JNull
  | HFloat (Fin id) => JNum id
  | HFloat f => JTok f
  | HNone => JNull
  end.

Definition json_section (s : section) : jsect :=
  match s with
  | SecText t => JText t
  | SecItems l => JDict (map (fun kv => (fst kv, json_of_value (snd kv))) (dictview l))
  end.

(* LASFile.sections in dict order: the constructor inserts the five standard keys, read()
   re-assigns them in place and appends any other section after them *)
Definition sections (l : las) : list (list N * section) :=
  [ (s2l "Version", SecItems (version l)); (s2l "Well", SecItems (well l));
    (s2l "Curves", SecItems (curves l)); (name_params, SecItems (params l));
    (s2l "Other", SecText (other l)) ] ++ extra l.

Definition to_json (l : las) : jdoc :=
  {| jmeta := map (fun ns => (fst ns, json_section (snd ns))) (sections l);
     jdata := dict_of (map (fun c => (session c, map json_of_sample (data c))) (curves l)) |}.

Definition atom_strict (a : jatom) : bool := match a with JTok _ => false | _ => true end.
Definition sect_strict (s : jsect) : bool :=
  match s with JText _ => true | JDict d => forallb (fun kv => atom_strict (snd kv)) d end.
Definition strict_json (d : jdoc) : bool :=
  forallb (fun ns => sect_strict (snd ns)) (jmeta d)
  && forallb (fun kc => forallb atom_strict (snd kc)) (jdata d).

(* ------------------------------------------------------------------------------------ *)
(* LASFile.data = np.vstack([c.data for c in self.curves]).T, as the list of its rows.
   No curves: the empty (0, 0) array.  Unequal lengths: vstack raises ValueError. *)
Definition cell_at (i : nat) (c : list sample) : list sample :=
  match nth_error c i with Some x => [x] | None => [] end.
Definition row_at (i : nat) (cols : list (list sample)) : list sample := flat_map (cell_at i) cols.
Definition same_len (cols : list (list sample)) : bool :=
  match cols with
  | [] => true
  | c :: t => forallb (fun d => Nat.eqb (List.length d) (List.length c)) t
  end.
Definition data_rows (cols : list (list sample)) : result (list (list sample)) :=
  match cols with
  | [] => Ok []
  | c :: _ => if same_len cols then Ok (map (fun i => row_at i cols) (seq 0 (List.length c)))
              else Err ValueError
  end.
(* M[:, j] *)
Definition column_of (j : nat) (rows : list (list sample)) : list sample := flat_map (cell_at j) rows.

(* ------------------------------------------------------------------------------------ *)
(* to_csv.  The text csv.writer writes for a cell is str(cell): the oracle for finite doubles,
   the words nan / inf / -inf otherwise, text verbatim (with a text curve present numpy has
   already turned every cell into that same text). *)
Inductive sel := SelTrue | SelFalse | SelList (l : list (list N)).
Inductive uloc := LocLine | LocSquare | LocRound | LocOther.  (* None or any other value *)
Record csv_opts := mkCsvOpts { o_mnemonics : sel; o_units : sel; o_loc : uloc }.

Section WithStrOf.
Variable str_of : fid -> list N.

Definition field_of (x : sample) : list N :=
  match x with
  | SNum (Fin id) => str_of id
  | SNum FNaN => s2l "nan"
  | SNum FPInf => s2l "inf"
  | SNum FNInf => s2l "-inf"
  | SText s => s
  end.

Fixpoint zip_with {A B C : Type} (f : A -> B -> C) (a : list A) (b : list B) : list C :=
  match a, b with
  | x :: a', y :: b' => f x y :: zip_with f a' b'
  | _, _ => []
  end.

Definition nonempty {A : Type} (l : list A) : bool := match l with [] => false | _ => true end.

Definition bracketed (o c : N) (m u : list N) : list N := m ++ [32] ++ [o] ++ u ++ [c].

(* the rows written before the data: `if mnemonics:` / `if units:` are Python truth tests, so
   False and the empty list both write nothing *)
Definition csv_header (cs : list item) (o : csv_opts) : list (list (list N)) :=
  let mn := match o_mnemonics o with SelTrue => map orig cs | SelFalse => [] | SelList x => x end in
  let un := match o_units o with SelTrue => map unit_ cs | SelFalse => [] | SelList x => x end in
  let row1 :=
    if nonempty mn then
      [ match o_loc o with
        | LocSquare => if nonempty un then zip_with (bracketed 91 93) mn un else mn
        | LocRound => if nonempty un then zip_with (bracketed 40 41) mn un else mn
        | _ => mn
        end ]
    else [] in
  let row2 := if nonempty un then match o_loc o with LocLine => [un] | _ => [] end else [] in
  row1 ++ row2.

Definition to_csv (l : las) (o : csv_opts) : result (list (list (list N))) :=
  match data_rows (map data (curves l)) with
  | Ok rows => Ok (csv_header (curves l) o ++ map (map field_of) rows)
  | Err e => Err e
  end.
End WithStrOf.

(* ------------------------------------------------------------------------------------ *)
(* Excel: the cell writes of generate_workbook, in program order.  An xcell is the Python
   value handed to openpyxl. *)
Inductive xcell := XStr (s : list N) | XInt (z : Z) | XNum (f : fval) | XNone.
Definition write := (nat * nat * xcell)%type.     (* row, column (0-based as in write_cell), value *)

Definition xcell_of_value (v : hvalue) : xcell :=
  match v with
  | HStr s => XStr s
  | HInt z => XInt z
  | HNpInt z => XInt z
  | HFloat f => XNum f
  | HNone => XNone
  end.
(* `if isinstance(value, float) and isnan(value): "" else value` *)
Definition xcell_of_sample (x : sample) : xcell :=
  match x with
  | SNum FNaN => XStr []
  | SNum f => XNum f
  | SText s => XStr s
  end.

Definition title_writes : list write :=
  [ (0, 0, XStr (s2l "Section")); (0, 1, XStr (s2l "Mnemonic")); (0, 2, XStr (s2l "Unit"));
    (0, 3, XStr (s2l "Value")); (0, 4, XStr (s2l "Description")) ]%nat.

Definition item_cells (nm : list N) (it : item) : list xcell :=
  [ XStr nm; XStr (session it); XStr (unit_ it); xcell_of_value (value it); XStr (descr it) ].

Definition item_writes (nm : list N) (n : nat) (it : item) : list write :=
  [ (n, 0, XStr nm); (n, 1, XStr (session it)); (n, 2, XStr (unit_ it));
    (n, 3, xcell_of_value (value it)); (n, 4, XStr (descr it)) ]%nat.

(* one section; n is the running row counter of the source (`n += 1` per item) *)
Fixpoint sect_writes (nm : list N) (n : nat) (its : list item) : list write * nat :=
  match its with
  | [] => ([], n)
  | it :: t => let r := sect_writes nm (S n) t in (item_writes nm n it ++ fst r, snd r)
  end.

Definition header_sections (l : las) : list (list N * list item) :=
  [ (s2l "~Version", version l); (s2l "~Well", well l);
    (126 :: name_params, params l); (s2l "~Curves", curves l) ].

Fixpoint sections_writes (n : nat) (ss : list (list N * list item)) : list write :=
  match ss with
  | [] => []
  | (nm, its) :: t => let r := sect_writes nm n its in fst r ++ sections_writes (snd r) t
  end.

Definition excel_header_writes (l : las) : list write :=
  title_writes ++ sections_writes 1 (header_sections l).

Fixpoint col_writes (i : nat) (j : nat) (d : list sample) : list write :=
  match d with
  | [] => []
  | x :: t => (S j, i, xcell_of_sample x) :: col_writes i (S j) t
  end.
Fixpoint curves_writes (i : nat) (cs : list item) : list write :=
  match cs with
  | [] => []
  | c :: t => ((0%nat, i, XStr (session c)) :: col_writes i 0 (data c)) ++ curves_writes (S i) t
  end.
Definition excel_curve_writes (l : las) : list write := curves_writes 0 (curves l).

(* what a sheet holds at (r, c) after the writes: the last value written there *)
Fixpoint xl_get (ws : list write) (r c : nat) : option xcell :=
  match ws with
  | [] => None
  | (r', c', v) :: t =>
      match xl_get t r c with
      | Some x => Some x
      | None => if Nat.eqb r' r && Nat.eqb c' c then Some v else None
      end
  end.

(* ------------------------------------------------------------------------------------ *)
(* df(): pd.DataFrame(self.data, columns=[c.mnemonic ...]) then set_index(curves[0].mnemonic).
   Values are samples; the float64 conversion of string columns gives back the double whose
   str() the cell is (oracle: float(str(x)) = x). *)
Record dframe := mkDf {
  df_index_name : option (list N);
  df_index : list sample;
  df_cols : list (list N * list sample)
}.

Fixpoint mapi_from {A B : Type} (f : nat -> A -> B) (n : nat) (l : list A) : list B :=
  match l with
  | [] => []
  | x :: t => f n x :: mapi_from f (S n) t
  end.

Fixpoint take_col {A : Type} (k : list N) (cols : list (list N * A)) : option (A * list (list N * A)) :=
  match cols with
  | [] => None
  | (k', v) :: t =>
      if str_eqb k' k then Some (v, t)
      else match take_col k t with
           | Some (x, rest) => Some (x, (k', v) :: rest)
           | None => None
           end
  end.

Definition df_view (l : las) : result dframe :=
  match data_rows (map data (curves l)) with
  | Err e => Err e
  | Ok rows =>
      let named := mapi_from (fun j c => (session c, column_of j rows)) 0 (curves l) in
      match curves l with
      | [] => Ok {| df_index_name := None; df_index := []; df_cols := named |}
      | c0 :: _ =>
          match take_col (session c0) named with
          | Some (ix, rest) => Ok {| df_index_name := Some (session c0); df_index := ix; df_cols := rest |}
          | None => Err KeyError
          end
      end
  end.

(* ------------------------------------------------------------------------------------ *)
(* set_data / set_data_from_df *)
Section WithUpper.
Variable upper : list N -> list N.

(* SectionItems.mnemonic_compare *)
Definition mn_cmp (ci : bool) (a b : list N) : bool :=
  if ci then str_eqb (upper a) (upper b) else str_eqb a b.

Definition blank (s : list N) : bool := match strip s with [] => true | _ => false end.
(* HeaderItem.useful_mnemonic *)
Definition useful (o : list N) : list N := if blank o then s2l "UNKNOWN" else o.

Definition count_cmp (ci : bool) (u : list N) (l : list (list N)) : nat :=
  List.length (filter (mn_cmp ci u) l).

(* `item.mnemonic = name` : original_mnemonic := name, session mnemonic := useful_mnemonic *)
Definition rename (name : list N) (it : item) : item :=
  mkItem (useful name) name (unit_ it) (value it) (descr it) (data it).
Definition set_session (s : list N) (it : item) : item :=
  mkItem s (orig it) (unit_ it) (value it) (descr it) (data it).
Definition set_samples (d : list sample) (it : item) : item :=
  mkItem (session it) (orig it) (unit_ it) (value it) (descr it) d.

(* SectionItems.assign_duplicate_suffixes(): every group of more than one item whose useful
   mnemonics compare equal is numbered :1 .. :n in list order; other items keep their session
   mnemonic.  [all]: the useful mnemonics of the whole section, [seen]: of the items before. *)
Fixpoint assign_aux (ci : bool) (all seen : list (list N)) (its : list item) : list item :=
  match its with
  | [] => []
  | it :: t =>
      let u := useful (orig it) in
      let it' := if Nat.ltb 1 (count_cmp ci u all)
                 then set_session (u ++ [58] ++ nat_to_str (S (count_cmp ci u seen))) it
                 else it in
      it' :: assign_aux ci all (seen ++ [u]) t
  end.
Definition assign_suffixes (ci : bool) (its : list item) : list item :=
  assign_aux ci (map (fun it => useful (orig it)) its) [] its.

Fixpoint set_cols (names : list (list N)) (rows : list (list sample)) (j : nat) (cs : list item)
  : result (list item) :=
  match cs with
  | [] => Ok []
  | c :: t =>
      match names with
      | [] => Err IndexError
      | nm :: names' =>
          match set_cols names' rows (S j) t with
          | Ok r => Ok (rename nm (set_samples (column_of j rows) c) :: r)
          | Err e => Err e
          end
      end
  end.

Definition with_curves (l : las) (cs : list item) : las :=
  mkLas (version l) (well l) cs (params l) (other l) (extra l) (well_ci l) (curves_ci l) (index_unit l).

(* set_data(array, names=names, truncate=False) for an array given by its columns, with as
   many columns as there are curves (more columns would append new curves: not modelled) *)
Definition set_data (cols : list (list sample)) (names : list (list N)) (l : las) : result las :=
  match data_rows cols with
  | Err e => Err e
  | Ok rows =>
      let size_pos := nonempty rows && nonempty cols in
      if size_pos then
        if Nat.eqb (List.length cols) (List.length (curves l)) then
          let names' := match names with
                        | [] => map orig (curves l)
                        | _ => names ++ repeat [] (List.length (curves l) - List.length names)
                        end in
          match set_cols names' rows 0 (curves l) with
          | Ok cs => Ok (with_curves l (assign_suffixes (curves_ci l) cs))
          | Err e => Err e
          end
        else Err OutOfModel
      else Ok (with_curves l (assign_suffixes (curves_ci l) (curves l)))
  end.

(* df_values = np.vstack([df.index.values, df.values.T]).T;
   names = [df.index.name] + [str(c) for c in df.columns] *)
Definition set_data_from_df (d : dframe) (l : las) : result las :=
  match df_index_name d with
  | Some nm => set_data (df_index d :: map snd (df_cols d)) (nm :: map fst (df_cols d)) l
  | None =>
      (* a frame without index name: only the frame of a file without curves in this model *)
      match df_index d, df_cols d with
      | [], [] => Ok (with_curves l (assign_suffixes (curves_ci l) (curves l)))
      | _, _ => Err OutOfModel
      end
  end.

(* ------------------------------------------------------------------------------------ *)
(* index unit detection (end of LASFile.read) against the generated DEPTH_UNITS table *)
Definition unit_matches (u : list N) (ps : list (list N)) : bool :=
  existsb (fun p => str_eqb u p) ps || existsb (fun p => str_eqb (upper u) (upper p)) ps.

Definition class_matched (units : list (list N)) (ps : list (list N)) : bool :=
  existsb (fun u => unit_matches u ps) units.

(* set(matches): the classes with at least one matching unit (table keys are distinct) *)
Definition matched_classes (table : list (list N * list (list N))) (units : list (list N)) : list (list N) :=
  map fst (filter (fun kp => class_matched units (snd kp)) table).

Definition detect_unit (table : list (list N * list (list N))) (units : list (list N)) : option (list N) :=
  match matched_classes table units with
  | [k] => Some k
  | _ => None          (* none, or conflicting *)
  end.

Definition find_item (ci : bool) (key : list N) (its : list item) : option item :=
  List.find (fun it => mn_cmp ci (session it) key) its.

(* check_units_on: STRT, STOP, STEP of ~Well when present, then the first curve *)
Definition check_units (l : las) : list (list N) :=
  flat_map (fun key => match find_item (well_ci l) key (well l) with
                       | Some it => [unit_ it] | None => [] end)
           [s2l "STRT"; s2l "STOP"; s2l "STEP"]
  ++ match curves l with c :: _ => [unit_ c] | [] => [] end.

(* read(..., index_unit=forced) *)
Definition read_index_unit (forced : option (list N)) (l : las) : option (list N) :=
  let forced' := match forced with
                 | Some s => if contains [109] s then Some [109] else Some s
                 | None => None
                 end in
  match forced' with
  | Some (c :: s) => Some (c :: s)
  | _ => detect_unit depth_units (check_units l)
  end.

(* _index_unit_contains *)
Definition iu_contains (iu : option (list N)) (code : list N) : bool :=
  match iu with
  | None => false
  | Some [] => false
  | Some s => contains (upper code) (upper s)
  end.

Inductive unit_kind := KMetre | KFoot | KTenthInch | KUnknown.
Definition unit_kind_of (iu : option (list N)) : unit_kind :=
  if iu_contains iu (s2l "M") then KMetre
  else if iu_contains iu (s2l "F") then KFoot
  else if iu_contains iu (s2l ".1IN") then KTenthInch
  else KUnknown.
End WithUpper.

(* ------------------------------------------------------------------------------------ *)
(* depth_m / depth_ft over exact rationals: 0.3048 = 381/1250 *)
Definition k3048 : Q := (381 # 1250)%Q.
Definition q120 : Q := (120 # 1)%Q.

Definition depth_m_kind (k : unit_kind) (xs : list Q) : result (list Q) :=
  match k with
  | KMetre => Ok xs
  | KFoot => Ok (map (fun x => Qmult x k3048) xs)
  | KTenthInch => Ok (map (fun x => Qmult (Qdiv x q120) k3048) xs)
  | KUnknown => Err LASUnknownUnitError
  end.
Definition depth_ft_kind (k : unit_kind) (xs : list Q) : result (list Q) :=
  match k with
  | KMetre => Ok (map (fun x => Qdiv x k3048) xs)
  | KFoot => Ok xs
  | KTenthInch => Ok (map (fun x => Qdiv x q120) xs)
  | KUnknown => Err LASUnknownUnitError
  end.

Definition depth_m (upper : list N -> list N) (iu : option (list N)) (xs : list Q) : result (list Q) :=
  depth_m_kind (unit_kind_of upper iu) xs.
Definition depth_ft (upper : list N -> list N) (iu : option (list N)) (xs : list Q) : result (list Q) :=
  depth_ft_kind (unit_kind_of upper iu) xs.
