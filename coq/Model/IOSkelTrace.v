(* Model.IOSkelTrace — the open/close EVENTS of a run of a skeleton, and an executable
   acceptor for observed event sequences (property C20: the tie between the skeletons of
   Gen/Skel.v and what the implementation is seen to do under fault injection).
   Definitions only; proofs in Proofs/IOSkelTraceProofs.v.

   The harness records, for every call it makes, the sequence of
       EOpen h      an open(..) at the source line of handle h succeeded
       EOpenFail h  that open(..) raised
       EClose h     close() was called on the file held by variable h
   and whether the call returned or raised.  `accepts s tr raised` decides whether the
   skeleton s, started owning nothing, has a run with exactly these events and that
   outcome.  `xexec` is the relation `exec` of IOSkel.v with the events made explicit. *)
From Coq Require Import List Arith Bool.
Import ListNotations.
Require Import IOSkel.

Inductive ev := EOpen (h:nat) | EOpenFail (h:nat) | EClose (h:nat).

Inductive xexec : stmt -> st -> list ev -> outcome -> st -> Prop :=
| TSkip s : xexec Skip s [] ONorm s
| TMayN s : xexec MayRaise s [] ONorm s
| TMayR s : xexec MayRaise s [] ORaise s
| TRet s : xexec Return s [] ORet s
| TBrk s : xexec Break s [] OBrk s
| TCnt s : xexec Continue s [] OCnt s
| TOpenN h ow tc n : xexec (Open h) (ow, tc, n) [EOpen h] ONorm (h :: rm1 h ow, tc, n + b2n (mem h ow))
| TOpenR h s : xexec (Open h) s [EOpenFail h] ORaise s
| TCloseN h ow tc n : xexec (Close h) (ow, tc, n) [EClose h] ONorm (rm1 h ow, tc, n)
| TCloseR h ow tc n : xexec (Close h) (ow, tc, n) [EClose h] ORaise (rm1 h ow, tc, n)
| TCloseArgN h ow tc n : xexec (CloseArg h) (ow, tc, n) [EClose h] ONorm (rm1 h ow, h :: tc, n)
| TCloseArgR h ow tc n : xexec (CloseArg h) (ow, tc, n) [EClose h] ORaise (rm1 h ow, h :: tc, n)
| TRebind h ow tc n : xexec (Rebind h) (ow, tc, n) [] ONorm (rm1 h ow, tc, n + b2n (mem h ow))
| TSeqN a b s t1 s1 t2 o s2 : xexec a s t1 ONorm s1 -> xexec b s1 t2 o s2 -> xexec (Seq a b) s (t1 ++ t2) o s2
| TSeqX a b s t o s1 : xexec a s t o s1 -> o <> ONorm -> xexec (Seq a b) s t o s1
| TIfL a b s t o s1 : xexec a s t o s1 -> xexec (If a b) s t o s1
| TIfR a b s t o s1 : xexec b s t o s1 -> xexec (If a b) s t o s1
| TLoop0 b s : xexec (Loop b) s [] ONorm s
| TLoopN b s t1 s1 t2 o s2 : xexec b s t1 ONorm s1 -> xexec (Loop b) s1 t2 o s2 -> xexec (Loop b) s (t1 ++ t2) o s2
| TLoopC b s t1 s1 t2 o s2 : xexec b s t1 OCnt s1 -> xexec (Loop b) s1 t2 o s2 -> xexec (Loop b) s (t1 ++ t2) o s2
| TLoopB b s t s1 : xexec b s t OBrk s1 -> xexec (Loop b) s t ONorm s1
| TLoopX b s t o s1 : xexec b s t o s1 -> o = ORaise \/ o = ORet -> xexec (Loop b) s t o s1
| TFinN b f s t1 o s1 t2 s2 : xexec b s t1 o s1 -> xexec f s1 t2 ONorm s2 -> xexec (TryFinally b f) s (t1 ++ t2) o s2
| TFinX b f s t1 o s1 t2 o2 s2 : xexec b s t1 o s1 -> xexec f s1 t2 o2 s2 -> o2 <> ONorm ->
    xexec (TryFinally b f) s (t1 ++ t2) o2 s2
| TExcP b h s t o s1 : xexec b s t o s1 -> xexec (TryExcept b h) s t o s1
| TExcH b h s t1 s1 t2 o s2 : xexec b s t1 ORaise s1 -> xexec h s1 t2 o s2 -> xexec (TryExcept b h) s (t1 ++ t2) o s2
| TGuardRun h b s t o s1 : xexec b s t o s1 -> xexec (Guarded h b) s t o s1
| TGuardSkip h b ow tc n : mem h ow = false -> xexec (Guarded h b) (ow, tc, n) [] ONorm (ow, tc, n)
| TCallN b s t o s1 : xexec b s t o s1 -> o <> ORaise -> xexec (Call b) s t ONorm s1
| TCallR b s t s1 : xexec b s t ORaise s1 -> xexec (Call b) s t ORaise s1.

(* ---- the acceptor ---------------------------------------------------------------------- *)
(* outcome, events not yet consumed, state reached *)
Definition item := (outcome * list ev * st)%type.
Definition i_out (x:item) : outcome := fst (fst x).
Definition i_rest (x:item) : list ev := snd (fst x).
Definition i_st (x:item) : st := snd x.

Definition outcome_eqb (a b:outcome) : bool :=
  match a, b with
  | ONorm, ONorm | ORaise, ORaise | ORet, ORet | OBrk, OBrk | OCnt, OCnt => true
  | _, _ => false
  end.
Fixpoint list_eqb (a b:list nat) : bool :=
  match a, b with
  | [], [] => true
  | x :: a', y :: b' => (x =? y) && list_eqb a' b'
  | _, _ => false
  end.
Definition st_eqb (a b:st) : bool :=
  list_eqb (owned a) (owned b) && list_eqb (touched a) (touched b) && (lost a =? lost b).
(* the unconsumed part is always a suffix of one trace: its length identifies it *)
Definition item_eqb (a b:item) : bool :=
  outcome_eqb (i_out a) (i_out b) && (List.length (i_rest a) =? List.length (i_rest b))
  && st_eqb (i_st a) (i_st b).
Fixpoint dd (l:list item) : list item :=
  match l with
  | [] => []
  | x :: t => if existsb (item_eqb x) t then dd t else x :: dd t
  end.

Definition accf := st -> list ev -> list item.

Definition step_seq (accb : accf) (x:item) : list item :=
  match i_out x with ONorm => accb (i_st x) (i_rest x) | _ => [x] end.
Definition step_fin2 (o:outcome) (y:item) : item :=
  match i_out y with ONorm => (o, i_rest y, i_st y) | _ => y end.
Definition step_fin (accfin : accf) (x:item) : list item :=
  map (step_fin2 (i_out x)) (accfin (i_st x) (i_rest x)).
Definition step_exc (acch : accf) (x:item) : list item :=
  match i_out x with ORaise => acch (i_st x) (i_rest x) | _ => [] end.
Definition step_call (x:item) : item :=
  match i_out x with ORaise => x | _ => (ONorm, i_rest x, i_st x) end.

Definition step_loop (rec : accf) (t:list ev) (x:item) : list item :=
  match i_out x with
  | ONorm | OCnt =>
      (* an iteration that consumed no event is not repeated (it can only repeat itself) *)
      if List.length (i_rest x) <? List.length t then rec (i_st x) (i_rest x) else []
  | OBrk => [(ONorm, i_rest x, i_st x)]
  | _ => [x]
  end.
Fixpoint loop_acc (n:nat) (body : accf) (σ:st) (t:list ev) : list item :=
  match n with
  | 0 => [(ONorm, t, σ)]
  | S n' => (ONorm, t, σ) :: flat_map (step_loop (loop_acc n' body) t) (body σ t)
  end.

Fixpoint acc (s:stmt) (σ:st) (tr:list ev) : list item :=
  match s with
  | Skip => [(ONorm, tr, σ)]
  | MayRaise => [(ONorm, tr, σ); (ORaise, tr, σ)]
  | Return => [(ORet, tr, σ)]
  | Break => [(OBrk, tr, σ)]
  | Continue => [(OCnt, tr, σ)]
  | Rebind h =>
      match σ with (ow, tc, n) => [(ONorm, tr, (rm1 h ow, tc, n + b2n (mem h ow)))] end
  | Open h =>
      match σ, tr with
      | (ow, tc, n), EOpen h' :: t =>
          if h =? h' then [(ONorm, t, (h :: rm1 h ow, tc, n + b2n (mem h ow)))] else []
      | _, EOpenFail h' :: t => if h =? h' then [(ORaise, t, σ)] else []
      | _, _ => []
      end
  | Close h =>
      match σ, tr with
      | (ow, tc, n), EClose h' :: t =>
          if h =? h' then [(ONorm, t, (rm1 h ow, tc, n)); (ORaise, t, (rm1 h ow, tc, n))] else []
      | _, _ => []
      end
  | CloseArg h =>
      match σ, tr with
      | (ow, tc, n), EClose h' :: t =>
          if h =? h' then [(ONorm, t, (rm1 h ow, h :: tc, n)); (ORaise, t, (rm1 h ow, h :: tc, n))] else []
      | _, _ => []
      end
  | Seq a b => dd (flat_map (step_seq (acc b)) (acc a σ tr))
  | If a b => dd (acc a σ tr ++ acc b σ tr)
  | Loop b => dd (loop_acc (S (List.length tr)) (acc b) σ tr)
  | TryFinally b f => dd (flat_map (step_fin (acc f)) (acc b σ tr))
  | TryExcept b h => dd (acc b σ tr ++ flat_map (step_exc (acc h)) (acc b σ tr))
  | Guarded h b =>
      match σ with (ow, tc, n) =>
        dd ((if mem h ow then [] else [(ONorm, tr, σ)]) ++ acc b σ tr) end
  | Call b => dd (map step_call (acc b σ tr))
  end.

(* a whole call: starts owning nothing, all events consumed; "returned" = fell off the end or
   `return` *)
Definition final_ok (raised:bool) (x:item) : bool :=
  match i_rest x with
  | [] => if raised then outcome_eqb (i_out x) ORaise
          else outcome_eqb (i_out x) ONorm || outcome_eqb (i_out x) ORet
  | _ => false
  end.
Definition accepts (s:stmt) (tr:list ev) (raised:bool) : bool :=
  existsb (final_ok raised) (acc s ([], [], 0) tr).
(* the runs found for an accepted observation all end with nothing owned open and nothing lost *)
Definition accepted_runs_clean (s:stmt) (tr:list ev) (raised:bool) : bool :=
  forallb (fun x => match owned (i_st x), lost (i_st x) with [], 0 => true | _, _ => false end)
          (filter (final_ok raised) (acc s ([], [], 0) tr)).
