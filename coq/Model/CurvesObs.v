(* Model.CurvesObs — the interpreter the C14 correspondence runs use for Model.Curves: decodes
   one whole history on one or two LASFiles (as written by harness/props/c14.py), applies the
   model and renders the same canonical observation text the harness renders from the real
   lasio objects after every step.  Definitions only; trusted harness glue (nothing is proved
   about it).

   Case input = records separated by "~", fields inside a record by "|" (ItemsObs.records /
   fields).  Record 0 = number k of LASFiles; records 1..k = their initial content: "F" (a
   fresh LASFile()) or "R|curve|curve..." (read from a text, mnemonic_transforms on), a curve
   being name/unit/value/descr/ids; the remaining records are operations  target|code|args...
   Arrays are lists of abstract sample ids, every id followed by ","; the columns of a 2-D
   array are each followed by ";"; a names list is "N" (None) or "L" and every name followed
   by ",".  Optional arguments are "N" (not given) or "S"<payload>. *)
From Coq Require Import List NArith ZArith Bool String.
Import ListNotations.
Require Import PyStr CaseLib Items ItemsObs Curves.
Open Scope N_scope.

(* ---- decoding ------------------------------------------------------------------------------- *)
Definition p_ids (s : str) : list N :=
  List.map (fun t => Z.to_N (p_int t)) (removelast (split_char 44 s)).            (* "," *)
Definition p_cols (s : str) : list (list N) := List.map p_ids (removelast (split_char 59 s)).   (* ";" *)
Definition p_opt {A} (f : str -> A) (s : str) : option A :=
  match s with 83 :: t => Some (f t) | _ => None end.                               (* "S" *)
Definition p_names (s : str) : option (list str) :=
  match s with 76 :: t => Some (removelast (split_char 44 t)) | _ => None end.      (* "L" *)
Definition p_arr (s : str) : arr :=
  match s with 49 :: t => Arr1 (p_ids t) | 50 :: t => Arr2 (p_cols t) | _ => Arr1 [] end.
(* name unit value descr ids starting at field n *)
Definition p_cargs (n : nat) (f : list str) : cargs :=
  mkCargs (arg n f) (arg (1 + n) f) (arg (2 + n) f) (arg (3 + n) f) (p_ids (arg (4 + n) f)).
Definition p_curve (s : str) : cargs := p_cargs 0 (split_char 47 s).                (* "/" *)

Definition p_op (f : list str) : option op :=
  match arg 0 f with
  | [97] => Some (OAppendCurve (p_cargs 1 f))                                   (* a *)
  | [105] => Some (OInsertCurve (p_int (arg 1 f)) (p_cargs 2 f))                (* i *)
  | [65] => Some (OAppendItem (CItem (p_cargs 1 f)))                            (* A *)
  | [98] => Some (OAppendItem NotCurveItem)                                     (* b *)
  | [73] => Some (OInsertItem (p_int (arg 1 f)) (CItem (p_cargs 2 f)))          (* I *)
  | [106] => Some (OInsertItem (p_int (arg 1 f)) NotCurveItem)                  (* j *)
  | [100] => Some (ODelete (p_opt (fun x => x) (arg 1 f)) (p_opt p_int (arg 2 f)))   (* d *)
  | [117] => Some (OUpdate (p_opt (fun x => x) (arg 1 f)) (p_opt p_int (arg 2 f))    (* u *)
                           (mkUpd (p_opt p_ids (arg 3 f)) (p_opt (fun x => x) (arg 4 f))
                                  (p_opt (fun x => x) (arg 5 f)) (p_opt (fun x => x) (arg 6 f))))
  | [114] => Some (OReplace (p_int (arg 1 f)) (p_cargs 2 f))                    (* r *)
  | [115] => Some (OSetItem (arg 1 f) (VArr (p_ids (arg 2 f))))                 (* s *)
  | [116] => Some (OSetItem (arg 1 f) (VItem (p_cargs 2 f)))                    (* t *)
  | [68] => Some (OSetData (p_arr (arg 1 f)) (p_names (arg 2 f)) (p_bool (arg 3 f)))  (* D *)
  | _ => None
  end.

Definition p_file (f : list str) : section :=
  match arg 0 f with
  | [82] => read_curves true (List.map p_curve (tl f))                            (* R *)
  | _ => fresh_las
  end.

(* ---- rendering ------------------------------------------------------------------------------- *)
Definition sh_ids (d : list N) : str := join (sl ".") (List.map N_to_str d).
Definition sh_dres (r : ires (list N)) : str := match r with IOk d => sh_ids d | IErr e => sh_err e end.
Definition probe_ints (n : Z) : list Z := [0; 1; -1; -2; 5; n - 1; n; - n; - n - 1]%Z.
Definition probe_keys : list str := [sl "A"; sl "a"; sl "B"; sl "UNKNOWN"; sl "A:1"; sl "a:2"; sl "Z"].
Definition sh_obs (s : section) : str :=
  sl "K=" ++ join (sl ",") (keys s)
  ++ sl ";O=" ++ join (sl ",") (origs s)
  ++ sl ";M=" ++ join (sl ",") (List.map (fun m => match m with (u, v, d) => u ++ sl "/" ++ v ++ sl "/" ++ d end) (metas s))
  ++ sl ";V=" ++ join (sl ",") (List.map sh_ids (values s))
  ++ sl ";D=" ++ (match las_data_shape s with
                  | IOk (r, c) => nat_to_str r ++ sl "x" ++ nat_to_str c ++ sl ":"
                                  ++ (match las_data s with
                                      | IOk rows => join (sl ",") (List.map sh_ids rows)
                                      | IErr e => sh_err e
                                      end)
                  | IErr e => sh_err e
                  end)
  ++ sl ";I=" ++ join (sl ",") (List.map (fun z => sh_dres (las_getitem s (KInt z))) (probe_ints (len_z s)))
  ++ sl ";G=" ++ join (sl ",") (List.map (fun k => sh_dres (las_getitem s (KStr k))) (keys s))
  ++ sl ";P=" ++ join (sl ",") (List.map (fun k => sh_dres (las_getitem s (KStr k))) probe_keys)
  ++ sl ";X=" ++ sh_dres (las_index s)
  ++ sl ";T=" ++ bool_to_str (transforms s).
Definition sh_world (w : world) : str := join (sl "|") (List.map sh_obs w).

Definition sh_outcome (r : ires section) : str := match r with IOk _ => sl "ok" | IErr e => sh_err e end.

Fixpoint run_world (w : world) (ops : list str) : list str :=
  match ops with
  | [] => []
  | o :: t =>
      let f := fields o in
      let tgt := Z.to_nat (p_int (arg 0 f)) in
      match p_op (tl f), nth_error w tgt with
      | Some p, Some s =>
          let w1 := wstep w tgt p in
          (sh_outcome (step s p) ++ sl "|" ++ sh_world w1) :: run_world w1 t
      | _, _ => [sl "bad op"]
      end
  end.

Definition run_case (i : str) : str :=
  match records i with
  | hd :: rest =>
      let k := Z.to_nat (p_int hd) in
      let w := List.map (fun r => p_file (fields r)) (firstn k rest) in
      join [10] (sh_world w :: run_world w (skipn k rest))
  | _ => sl "bad case"
  end.
Definition run_digest (i : str) : str := digest (run_case i).
