(* Model.Num — SectionParser.num (reader.py): header value text -> int | float | text.
   Definitions only. *)
From Coq Require Import List NArith ZArith Bool.
Import ListNotations.
Require Import PyStr Regex NumLit Regexes.
Open Scope N_scope.

(* VFloat carries the text handed to np.float64(); which double that denotes is CPython's
   correctly rounded conversion (oracle, checked bit-exactly by the correspondence run). *)
(* VNone: Python None (only produced in memory by the writer's STRT/STOP/STEP refresh) *)
Inductive hval := VInt (z : Z) | VFloat (lit : str) | VStr (s : str) | VNone.

Definition is_some {A} (o : option A) : bool := match o with Some _ => true | None => false end.

Definition comma_sub (s : str) : str := re_sub rx_sub_comma tpl_sub_comma s.

Definition float_path (default x : str) : hval :=
  match py_float_dec x with
  | Some d => if dec_overflows d then VStr default else VFloat x
  | None => VStr default           (* not a float, or inf/nan: not finite -> default *)
  end.

Definition num (s : str) : hval :=
  let x := comma_sub s in
  if has_numeric_literal_guard && negb (is_some (re_fullmatch rx_numeric_literal x)) then VStr s
  else
    match py_int_lit x with
    | Some z => if in_int64 z then VInt z else float_path s x
    | None => float_path s x
    end.
