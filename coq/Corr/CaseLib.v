(* Corr.CaseLib — trusted glue of the correspondence check: decoding of the case files'
   string literals into code-point lists and the comparison loop.  Cases are written by
   harness/lib.py as ASCII Coq strings; a backslash introduces an escape  \HEX;  giving a
   code point (used for everything outside printable ASCII, for the double quote and for
   the backslash itself). *)
From Coq Require Import List NArith Bool Ascii String.
Import ListNotations.
Require Import PyStr.
Open Scope N_scope.

Definition hexval (c : N) : option N :=
  if (48 <=? c) && (c <=? 57) then Some (c - 48)
  else if (97 <=? c) && (c <=? 102) then Some (c - 87)
  else if (65 <=? c) && (c <=? 70) then Some (c - 55)
  else None.

Fixpoint dec_aux (l : list N) (esc : option N) : list N :=
  match l with
  | [] => []
  | c :: l' =>
      match esc with
      | None => if c =? 92 then dec_aux l' (Some 0) else c :: dec_aux l' None
      | Some acc =>
          if c =? 59 then acc :: dec_aux l' None
          else match hexval c with
               | Some h => dec_aux l' (Some (16 * acc + h))
               | None => dec_aux l' None
               end
      end
  end.
Definition dec (s : string) : list N := dec_aux (s2l s) None.

(* field / record separators inside one case string (private-use code points) *)
Definition FS : N := 57344.
Definition RS : N := 57345.
Definition fields (s : list N) : list (list N) := split_char FS s.
Definition records (s : list N) : list (list N) := split_char RS s.
Definition nth_field (n : nat) (s : list N) : list N := nth n (fields s) [].

Fixpoint mism_aux (run : list N -> list N) (i : nat) (cs : list (string * string)) : list nat :=
  match cs with
  | [] => []
  | (x, e) :: t =>
      if str_eqb (run (dec x)) (dec e) then mism_aux run (S i) t
      else i :: mism_aux run (S i) t
  end.
Definition mismatches (run : list N -> list N) (cs : list (string * string)) : list nat :=
  mism_aux run 0%nat cs.

(* decimal rendering helpers for canonical observations *)
From Coq Require Import ZArith.
Definition Z_to_str (z : Z) : list N :=
  match z with
  | Z0 => [48]
  | Zpos p => N_to_str (Npos p)
  | Zneg p => 45 :: N_to_str (Npos p)
  end.
Definition bool_to_str (b : bool) : list N := if b then [84] else [70].
