(* Corr.ReadShow — canonical rendering of the read model's result, and the oracle tables,
   for the correspondence runs (trusted harness glue, mirrors harness/readmodel.py). *)
From Coq Require Import List NArith ZArith Bool String.
Import ListNotations.
Require Import PyStr CaseLib Regex NumLit Num HeaderLine Tables SectionParse Sections DataRead Read.
Open Scope string_scope.
Open Scope list_scope.
Open Scope N_scope.

Definition IS : N := 57346.   (* item separator *)

(* oracle table: flat list tok, hex, fstr, tok, hex, fstr, ...  ("ERR" hex = not a float) *)
(* float() and np.float64() ignore surrounding white space: look tokens up stripped *)
Fixpoint tab_hex_raw (t : list (list N)) (k : list N) : option (list N) :=
  match t with
  | a :: h :: _ :: t' => if str_eqb a k then (if str_eqb h (s2l "ERR") then None else Some h) else tab_hex_raw t' k
  | _ => None
  end.
Definition tab_hex (t : list (list N)) (k : list N) : option (list N) := tab_hex_raw t (strip k).
Fixpoint tab_str_raw (t : list (list N)) (k : list N) : list N :=
  match t with
  | a :: _ :: s :: t' => if str_eqb a k then s else tab_str_raw t' k
  | _ => 63 :: k
  end.
Definition tab_str (t : list (list N)) (k : list N) : list N := tab_str_raw t (strip k).
Definition hex_is_zero (h : list N) : bool :=
  str_eqb h (s2l "0x0.0p+0") || str_eqb h (s2l "-0x0.0p+0").
Definition tab_numeq (t : list (list N)) (a b : list N) : bool :=
  match tab_hex t a, tab_hex t b with
  | Some x, Some y =>
      if str_eqb x (s2l "nan") || str_eqb y (s2l "nan") then false
      else str_eqb x y || (hex_is_zero x && hex_is_zero y)
  | _, _ => false
  end.

Definition show_hval (t : list (list N)) (v : hval) : list N :=
  match v with
  | VInt z => 73 :: 58 :: Z_to_str z
  | VFloat l => 70 :: 58 :: (match tab_hex t l with Some h => h | None => 63 :: l end)
  | VStr s => 83 :: 58 :: s
  | VNone => s2l "O:None"
  end.
Definition show_item (t : list (list N)) (it : hitem) : list N :=
  i_orig it ++ FS :: i_sess it ++ FS :: i_unit it ++ FS :: show_hval t (i_value it) ++ FS :: i_descr it.
Definition show_items (t : list (list N)) (l : list hitem) : list N :=
  flat_map (fun it => show_item t it ++ [IS]) l.
Definition show_cell (t : list (list N)) (c : cell) : list N :=
  match c with
  | CNum k => match tab_hex t k with
              | Some h => if str_eqb h (s2l "nan") then h else 110 :: 58 :: h
              | None => 110 :: 58 :: 63 :: k
              end
  | CNaN => s2l "nan"
  | CStr s => 115 :: 58 :: s
  end.
Definition show_col (t : list (list N)) (c : list cell) : list N :=
  flat_map (fun x => show_cell t x ++ [FS]) c.
Definition show_custom (t : list (list N)) (kv : list N * custom_sect) : list N :=
  fst kv ++ FS :: (match snd kv with
                   | CItems s => 73 :: FS :: show_items t (s_items s)
                   | CText x => 84 :: FS :: x
                   end) ++ [RS].
Definition show_err (e : rerr) : list N :=
  match e with
  | ENoSections => s2l "ERR:KeyError"
  | EHeader line => s2l "ERR:LASHeaderError:" ++ line
  | EReshape => s2l "ERR:ValueError"
  | EKey => s2l "ERR:KeyError"
  | EUnsupported => s2l "ERR:unsupported"
  end.
Definition show_las (t : list (list N)) (with_engine : bool) (l : las) : list N :=
  s2l "OK" ++ RS :: show_items t (s_items (l_version l)) ++ RS :: show_items t (s_items (l_well l))
  ++ RS :: show_items t (s_items (l_curves l)) ++ RS :: show_items t (s_items (l_params l))
  ++ RS :: l_other l ++ RS :: flat_map (show_custom t) (l_custom l)
  ++ RS :: flat_map (fun i => show_col t (nth i (l_data l) []) ++ [IS]) (seq 0 (List.length (s_items (l_curves l))))
  ++ RS :: (if with_engine then bool_to_str (l_engine_numpy l) else []).

(* option codes: one character each: ignore_header_errors, mnemonic_case (p/u/l), engine (n=numpy),
   null policy (s=strict), ignore_data, show engine *)
Definition opt_of (code : list N) : ropts * bool :=
  let b n c := N.eqb (nth n code 0) c in
  (mkropts (b 0%nat 84) (if b 1%nat 117 then CaseUpper else if b 1%nat 108 then CaseLower else CasePreserve)
           (b 2%nat 110) (b 3%nat 115) (b 4%nat 84), b 5%nat 84).

(* input: opts FS text FS tok FS hex FS fstr FS ... *)
Definition run_read (i : list N) : list N :=
  match fields i with
  | code :: text :: t =>
      let (o, with_engine) := opt_of code in
      match read (tab_hex t) (tab_str t) (tab_numeq t) o text with
      | ROk l => show_las t with_engine l
      | RErr e => show_err e
      end
  | _ => []
  end.
