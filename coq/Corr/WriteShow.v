(* Corr.WriteShow — correspondence glue for the writer model: decoding of write options and of
   the formatting-oracle table, canonical rendering of (text, LASFile after write).
   Mirrors harness/writemodel.py. *)
From Coq Require Import List NArith ZArith Bool String.
Import ListNotations.
Require Import PyStr CaseLib Regex NumLit Num HeaderLine Tables SectionParse Sections DataRead Read TextWrap Writer ReadShow.
Open Scope string_scope.
Open Scope list_scope.
Open Scope N_scope.

Definition IS2 : N := 57347.
Definition MARK : list N := [1; 70; 84; 65; 66].     (* "\x01FTAB" *)

Fixpoint str_to_nat_aux (s : list N) (acc : nat) : nat :=
  match s with
  | [] => acc
  | c :: s' => str_to_nat_aux s' (10 * acc + N.to_nat (c - 48))%nat
  end.
Definition str_to_nat (s : list N) : nat := str_to_nat_aux s 0%nat.

(* formatting table: flat triples fmt, tok, text *)
Fixpoint ftab_get (t : list (list N)) (f k : list N) : list N :=
  match t with
  | a :: b :: c :: t' => if str_eqb a f && str_eqb b k then c else ftab_get t' f k
  | _ => 63 :: f ++ 63 :: k
  end.
Definition PI_KEY : list N := [1; 80; 73].
Definition diff_key (b a : list N) : list N := [1; 68] ++ b ++ [1] ++ a.

Fixpoint split_at_mark (l : list (list N)) (acc : list (list N)) : list (list N) * list (list N) :=
  match l with
  | [] => (rev acc, [])
  | x :: l' => if str_eqb x MARK then (rev acc, l') else split_at_mark l' (x :: acc)
  end.

Definition parse_colfmt (s : list N) : list (nat * list N) :=
  match s with
  | [] => []
  | _ => List.map (fun e => match split_char 61 e with
                            | j :: rest => (str_to_nat j, join [61] rest)
                            | [] => (0%nat, [])
                            end) (split_char IS2 s)
  end.

Definition wopts_of (s : list N) : wopts :=
  let f := split_char IS s in
  let g n := nth n f [] in
  mkwopts (if str_eqb (g 0%nat) (s2l "1.2") then Some W12 else if str_eqb (g 0%nat) (s2l "2") then Some W20 else None)
          (if str_eqb (g 1%nat) [84] then Some true else if str_eqb (g 1%nat) [70] then Some false else None)
          (g 2%nat) (parse_colfmt (g 3%nat))
          (match g 4%nat with [] => LAuto | [45; 49] => LNone1 | x => LFixed (str_to_nat x) end)
          (g 5%nat) (g 6%nat) (str_to_nat (g 7%nat)) (str_to_nat (g 8%nat)) (g 9%nat) (str_eqb (g 10%nat) [84]).

Definition show_werr (e : werr) : list N := s2l "ERR".

Definition index_initial_of (l : las) : option (list cell) :=
  match s_items (l_curves l) with
  | [] => None
  | _ => Some (nth 0%nat (l_data l) [])
  end.

(* input: ropts FS wopts FS nwrites FS text FS <tab...> FS MARK FS <ftab...>
   output: text of each write joined by RS-RS, then the snapshot after the last write *)
Fixpoint write_n (fmtv : list N -> list N -> list N) (fd : list N -> list N -> list N) (fp : list N -> list N)
         (fs : list N -> list N) (fz : list N -> bool) (ne : list N -> list N -> bool)
         (o : wopts) (n : nat) (m : mlas) (acc : list N) : list N * option mlas :=
  match n with
  | O => (acc, Some m)
  | S n' =>
      match write fmtv fd fp fs fz ne o m with
      | WOk text m' => write_n fmtv fd fp fs fz ne o n' m' (acc ++ text ++ [RS; RS])
      | WErr e => (acc ++ show_werr e, None)
      end
  end.

Definition run_write (i : list N) : list N :=
  match fields i with
  | rcode :: wcode :: nw :: text :: rest =>
      let (t, ft) := split_at_mark rest [] in
      let (ro, _) := opt_of rcode in
      match read (tab_hex t) (tab_str t) (tab_numeq t) ro text with
      | RErr e => show_err e
      | ROk l =>
          let fz k := match tab_hex t k with Some h => hex_is_zero h | None => false end in
          let hx k := match tab_hex t k with Some h => h | None => [63] end in
          let (out, m) := write_n (ftab_get ft) (fun b a => ftab_get ft (s2l "%.5f") (diff_key (hx b) (hx a)))
                                  (fun f => ftab_get ft f PI_KEY) (tab_str t) fz (tab_numeq t)
                                  (wopts_of wcode) (str_to_nat nw) (mkmlas l (index_initial_of l)) [] in
          match m with
          | Some m' => out ++ show_las t false (m_las m')
          | None => out
          end
      end
  | _ => []
  end.
