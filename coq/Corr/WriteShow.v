(* Corr.WriteShow — correspondence glue for the writer model: decoding of write options and of
   the formatting-oracle table, canonical rendering of (text, LASFile after write).
   Mirrors harness/writemodel.py. *)
From Coq Require Import List NArith ZArith Bool String.
Import ListNotations.
Require Import PyStr CaseLib Regex NumLit Num HeaderLine Tables SectionParse Sections DataRead Read TextWrap Writer ReadShow.
Open Scope string_scope.
Open Scope list_scope.
Open Scope N_scope.

Definition IS2 : N := 57347.
Definition MARK : list N := [1; 70; 84; 65; 66].     (* "\x01FTAB" *)

Fixpoint str_to_nat_aux (s : list N) (acc : nat) : nat :=
  match s with
  | [] => acc
  | c :: s' => str_to_nat_aux s' (10 * acc + N.to_nat (c - 48))%nat
  end.
Definition str_to_nat (s : list N) : nat := str_to_nat_aux s 0%nat.

(* formatting table: flat triples fmt, tok, text *)
Fixpoint ftab_get_raw (t : list (list N)) (f k : list N) : list N :=
  match t with
  | a :: b :: c :: t' => if str_eqb a f && str_eqb b k then c else ftab_get_raw t' f k
  | _ => 63 :: f ++ 63 :: k
  end.
Definition ftab_get (t : list (list N)) (f k : list N) : list N := ftab_get_raw t f (strip k).
Definition PI_KEY : list N := [1; 80; 73].
Definition diff_key (b a : list N) : list N := [1; 68] ++ b ++ [1] ++ a.

Fixpoint split_at_mark (l : list (list N)) (acc : list (list N)) : list (list N) * list (list N) :=
  match l with
  | [] => (rev acc, [])
  | x :: l' => if str_eqb x MARK then (rev acc, l') else split_at_mark l' (x :: acc)
  end.

Definition parse_colfmt (s : list N) : list (nat * list N) :=
  match s with
  | [] => []
  | _ => List.map (fun e => match split_char 61 e with
                            | j :: rest => (str_to_nat j, join [61] rest)
                            | [] => (0%nat, [])
                            end) (split_char IS2 s)
  end.

Definition wopts_of (s : list N) : wopts :=
  let f := split_char IS s in
  let g n := nth n f [] in
  mkwopts (if str_eqb (g 0%nat) (s2l "1.2") then Some W12 else if str_eqb (g 0%nat) (s2l "2") then Some W20 else None)
          (if str_eqb (g 1%nat) [84] then Some true else if str_eqb (g 1%nat) [70] then Some false else None)
          (g 2%nat) (parse_colfmt (g 3%nat))
          (match g 4%nat with [] => LAuto | [45; 49] => LNone1 | x => LFixed (str_to_nat x) end)
          (g 5%nat) (g 6%nat) (str_to_nat (g 7%nat)) (str_to_nat (g 8%nat)) (g 9%nat) (str_eqb (g 10%nat) [84]).

(* a raising write: harness/writemodel.py run_impl renders it "ERR" whatever the exception class
   (IndexError of las.index with no curve, KeyError of a missing item, ...) *)
Definition show_werr (e : werr) : list N := s2l "ERR".

Definition index_initial_of (l : las) : option (list cell) :=
  match s_items (l_curves l) with
  | [] => None
  | _ => Some (nth 0%nat (l_data l) [])
  end.

(* ---- pipelines: a text is read, edited in memory, written, re-read, ... --------------------
   input:  ops FS text FS <tab...> FS MARK FS <ftab...>
   ops:    OPS-separated; each op is a letter and a payload:
             R<ropts code>            read the current text (replaces the in-memory LASFile)
             W<wopts code>            write the current LASFile (output collected; LASFile updated)
             EN                       set index_initial to None (a LASFile built from scratch)
             ES<j> IS tok IS2 tok ... replace the data of curve j by these tokens
             EV<sect> IS mnem IS text set section[mnem].value = text   (sect in V W C P)
             EB IS curve IS curve ... with curve = mnem IS2 unit IS2 tok IS2 tok ...
                                      a LASFile built from scratch: LASFile() (the default items,
                                      index_initial None), then append_curve(mnem, array(tokens),
                                      unit=unit) per curve; "EB" alone is LASFile() itself
             ED<j>                    del las.curves[j], j < number of curves (the session
                                      mnemonics of the other curves are not renumbered)
           a "nan" token of ES / EB is a NaN sample (mk_num).
   output: every written text followed by RS RS, then the snapshot of the LASFile at the end,
           or an ERR marker at the point of failure. *)
Definition OPS : N := 57348.

Inductive pstate_ := PText (t : list N) | PLas (t : list N) (m : mlas).

Definition set_nth {A} (n : nat) (x : A) (l : list A) : list A := firstn n l ++ x :: skipn (S n) l.

Definition edit_setcol (t : list (list N)) (j : nat) (toks : list (list N)) (m : mlas) : mlas :=
  let l := m_las m in
  let cells := List.map (fun k => match tab_hex t k with Some _ => mk_num (tab_hex t) k | None => CStr k end) toks in
  let ncur := List.length (s_items (l_curves l)) in
  let data := List.map (fun i => nth i (l_data l) []) (seq 0 ncur) in
  mkmlas (mklas (l_version l) (l_well l) (l_curves l) (l_params l) (l_other l) (l_custom l)
                (set_nth j cells data) (l_engine_numpy l)) (m_index_initial m).

Definition cells_of (t : list (list N)) (toks : list (list N)) : list cell :=
  List.map (fun k => match tab_hex t k with Some _ => mk_num (tab_hex t) k | None => CStr k end) toks.

Definition edit_append (t : list (list N)) (mn unit : list N) (toks : list (list N)) (m : mlas) : mlas :=
  let l := m_las m in
  let ncur := List.length (s_items (l_curves l)) in
  let data := List.map (fun i => nth i (l_data l) []) (seq 0 ncur) in
  let trc := s_transforms (l_curves l) in
  mkmlas (mklas (l_version l) (l_well l)
                (mksect (sect_append trc (s_items (l_curves l)) (new_item mn unit (VStr []) [])) trc)
                (l_params l) (l_other l) (l_custom l) (data ++ [cells_of t toks]) (l_engine_numpy l))
         (m_index_initial m).

Definition drop_nth {A} (n : nat) (l : list A) : list A := firstn n l ++ skipn (S n) l.
Definition edit_delcurve (j : nat) (m : mlas) : mlas :=
  let l := m_las m in
  let ncur := List.length (s_items (l_curves l)) in
  let data := List.map (fun i => nth i (l_data l) []) (seq 0 ncur) in
  mkmlas (mklas (l_version l) (l_well l) (mksect (drop_nth j (s_items (l_curves l))) (s_transforms (l_curves l)))
                (l_params l) (l_other l) (l_custom l) (drop_nth j data) (l_engine_numpy l))
         (m_index_initial m).

Definition build_scratch (t : list (list N)) (curves : list (list N)) : mlas :=
  fold_left (fun m c => match split_char IS2 c with
                        | mn :: unit :: toks => edit_append t mn unit toks m
                        | _ => m
                        end)
            (List.filter (fun c => match c with [] => false | _ => true end) curves)
            (mkmlas empty_las None).

Definition edit_setval (sect mn v : list N) (m : mlas) : mlas :=
  let l := m_las m in
  let upd (s : section) : section :=
    match update_first (s_transforms s) mn (fun it => set_value it (VStr v)) (s_items s) with
    | Some r => mksect r (s_transforms s) | None => s end in
  let l' := match sect with
            | [86] => with_version l (upd (l_version l))
            | [87] => with_well l (upd (l_well l))
            | [67] => with_curves l (upd (l_curves l))
            | _ => with_params l (upd (l_params l))
            end in
  mkmlas l' (m_index_initial m).

Section Pipe.
Variable t : list (list N).
Variable ft : list (list N).

Definition p_write (o : wopts) (m : mlas) : wres :=
  let fz k := match tab_hex t k with Some h => hex_is_zero h | None => false end in
  let hx k := match tab_hex t k with Some h => h | None => [63] end in
  write (ftab_get ft) (fun f b a => ftab_get ft f (diff_key (hx b) (hx a)))
        (fun f => ftab_get ft f PI_KEY) (tab_str t) fz (tab_numeq t) o m.

Fixpoint run_ops (ops : list (list N)) (st : pstate_) (acc : list N) : list N :=
  match ops with
  | [] => match st with
          | PLas _ m => acc ++ show_las t false (m_las m)
          | PText _ => acc
          end
  | op :: rest =>
      match op with
      | 82 :: code =>                                     (* R *)
          let txt := match st with PText x => x | PLas x _ => x end in
          let (ro, _) := opt_of code in
          match read (tab_hex t) (tab_str t) (tab_numeq t) ro txt with
          | RErr e => acc ++ show_err e
          | ROk l => run_ops rest (PLas txt (mkmlas l (index_initial_of l))) acc
          end
      | 87 :: code =>                                     (* W *)
          match st with
          | PText _ => acc ++ s2l "ERR:nolas"
          | PLas _ m =>
              match p_write (wopts_of code) m with
              | WOk text m' => run_ops rest (PLas text m') (acc ++ text ++ [RS; RS])
              | WErr e => acc ++ show_werr e
              end
          end
      | 69 :: 78 :: _ =>                                  (* EN *)
          match st with
          | PLas x m => run_ops rest (PLas x (mkmlas (m_las m) None)) acc
          | _ => acc ++ s2l "ERR:nolas"
          end
      | 69 :: 83 :: payload =>                            (* ES *)
          match st, split_char IS payload with
          | PLas x m, [j; toks] => run_ops rest (PLas x (edit_setcol t (str_to_nat j) (split_char IS2 toks) m)) acc
          | _, _ => acc ++ s2l "ERR:badop"
          end
      | 69 :: 66 :: payload =>                            (* EB *)
          run_ops rest (PLas [] (build_scratch t (split_char IS payload))) acc
      | 69 :: 68 :: j =>                                  (* ED *)
          match st with
          | PLas x m => run_ops rest (PLas x (edit_delcurve (str_to_nat j) m)) acc
          | _ => acc ++ s2l "ERR:nolas"
          end
      | 69 :: 86 :: payload =>                            (* EV *)
          match st, split_char IS payload with
          | PLas x m, [sect; mn; v] => run_ops rest (PLas x (edit_setval sect mn v m)) acc
          | _, _ => acc ++ s2l "ERR:badop"
          end
      | _ => acc ++ s2l "ERR:badop"
      end
  end.
End Pipe.

Definition run_pipeline (i : list N) : list N :=
  match fields i with
  | ops :: text :: rest =>
      let (t, ft) := split_at_mark rest [] in
      run_ops t ft (split_char OPS ops) (PText text) []
  | _ => []
  end.
