(* Props.C19 — placeholder; theorems are being added. *)
Require Import PyStr Read.
