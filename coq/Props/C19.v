(* Props.C19 — ignore_header_errors makes header parsing tolerant and non-interfering.
   Statements only; proofs in Proofs/JunkProofs.v (the header-items loop as a filter_map),
   Proofs/JunkSteering.v (steering keys), Proofs/JunkRead.v (read level), Proofs/ReadCongr.v.

   Formal reading.  parse_body v k c ignore comment_chars tr lines acc is the header-items loop
   (reader.py parse_header_items_section) over the body lines of one section; read is
   LASFile.read (Model/Read.v).  A junk line is a line placed in a header section that is not
   a title (stripped form does not start with '~'); "does not name a steering mnemonic" is
   junk_line: IF the line parses, its case-compared name is none of VERS/WRAP/DLM/NULL.
   meta it = (i_orig, i_unit, i_value, i_descr): everything of an item but the session
   mnemonic (which the duplicate-suffix rule may renumber: FOO -> FOO:1).

   Proved at full strength (all line lists / all texts, by induction; no bound):
     C19_total, C19_total_ok       with the flag the loop never returns PErr;
     C19_read_total                with the flag read never returns a header error;
     C19_unparsable_skipped        an unparsable junk line at ANY site is skipped, the result is
                                   the same (no side condition: if an earlier line ends the
                                   loop neither text reaches the site);
     C19_parsable_adds_one         a parsable junk line adds exactly its own item at one
                                   position p; removing position p gives back the original
                                   (orig, unit, value, descr) list;
     C19_junk_adds_at_most_one     one junk line: between 0 and 1 more items;
     C19_genuine_subsequence,      ANY number of junk lines at ANY sites: the genuine items'
     C19_genuine_subsequence_flag, metadata are, in order, a subsequence of the result's;
     C19_fields_frame              each genuine item is still present with its original
                                   mnemonic, unit, value and description;
     C19_only_header_error,        without the flag the loop returns POk or PErr (strip raw) for a
     C19_error_names_line          line raw of the section that is a content line and that
                                   parse_line rejects -- the FIRST such line; nothing else can
                                   fail in the model of the loop (upper/lower, item
                                   construction and append are total on the parsed record,
                                   which is the anchor's worry about the try covering the
                                   regex step only);
     C19_read_only_header_error    the same at the level of read: RErr (EHeader line) only
                                   without the flag, and line is the stripped form of a line
                                   of the text that the line parser rejects;
     C19_flag_irrelevant_when_clean  when every content line parses the flag changes nothing;
     C19_sect_append_frame,        appending an item of another name does not change what
     C19_steering_lookup,          sect_find returns for a colon-free key; junk lines do not
     C19_steering_frame            change the items found under VERS/WRAP/DLM/NULL, hence
                                   update_steering (the steering values) is the same;
     C19_data_reads_only           read_one_data looks at WRAP/NULL steering, the delimiter,
                                   the section's own lines, ~Curves and the WRAP item of
                                   ~Version, and writes curves/data/engine -- nothing else;
     C19_data_frame                whole read, on block lists (C05): junk lines, any number,
                                   inserted in the bodies of header sections other than the
                                   one declaring the curves (the statement excludes ~C: every
                                   section whose title may be filed as ~Curves under SOME provisional
                                   version -- second letter C / c or "~Log_Definition" in the title --
                                   is excluded, Proofs/JunkRead.routes_curves; since lasio's fix f4c32c8
                                   a ~C title with an underscore is the curve section of a 1.2 / 2.0
                                   file and a section of its own only in a 3.0 file): both
                                   reads succeed or fail alike (same error), and the curves,
                                   the curve data, the engine, the ~Other text are EQUAL and
                                   the ~Version/~Well/~Parameter/custom sections keep their
                                   genuine items as a subsequence (las_frame).
     C19_read_ok                   in particular a readable base file stays readable with junk
                                   lines (read = ROk before => ROk after, frame holds).
   Nothing is _partial.  Outside the model (assumption of the harness): an exception raised
   from inside CPython's re on pathological lines. *)
From Coq Require Import List Arith NArith Bool String.
Import ListNotations.
Require Import PyStr Regex NumLit Num Tables SectionParse Sections DataRead Read.
Require Import SectionsProofs ItemsBindProofs JunkProofs JunkSteering ReadCongr BlocksCongr JunkRead.
Open Scope string_scope.
Open Scope list_scope.
Open Scope N_scope.

(* ---- 1. total with the flag ------------------------------------------------------------ *)
Theorem C19_total : forall v k c cc tr lines acc l,
  parse_body v k c true cc tr lines acc <> PErr l.
Proof. exact parse_body_total_ne. Qed.

Theorem C19_total_ok : forall v k c cc tr lines acc,
  exists r, parse_body v k c true cc tr lines acc = POk r.
Proof. exact parse_body_total. Qed.

Theorem C19_read_total : forall fhex fstr numeq o t line,
  o_ignore_header_errors o = true -> read fhex fstr numeq o t <> RErr (EHeader line).
Proof. exact read_total_header. Qed.

(* ---- 2. an unparsable junk line is skipped ------------------------------------------------ *)
Theorem C19_unparsable_skipped : forall v k c cc tr a j b acc,
  startswith [ch_tilde] (strip j) = false ->
  parse_line v k c (strip j) = None ->
  parse_body v k c true cc tr (a ++ j :: b) acc = parse_body v k c true cc tr (a ++ b) acc.
Proof. exact junk_unparsable_skipped. Qed.

(* ---- 3. a parsable junk line adds its own item and nothing else ---------------------------- *)
Theorem C19_parsable_adds_one : forall v k c cc tr ig a j b acc r it,
  no_title a -> content_line cc j = true -> parse_line v k c (strip j) = Some it ->
  parse_body v k c ig cc tr (a ++ b) acc = POk r ->
  exists r' p,
    parse_body v k c ig cc tr (a ++ j :: b) acc = POk r' /\
    List.length r' = S (List.length r) /\ (p <= List.length r)%nat /\
    map meta r' = insert_at p (meta it) (map meta r) /\
    remove_at p (map meta r') = map meta r.
Proof. exact junk_parsable_adds_one. Qed.

Theorem C19_junk_adds_at_most_one : forall v k c cc tr ig a j b acc r',
  no_title a -> startswith [ch_tilde] (strip j) = false ->
  parse_body v k c ig cc tr (a ++ j :: b) acc = POk r' ->
  exists r, parse_body v k c ig cc tr (a ++ b) acc = POk r /\
            (List.length r <= List.length r' <= S (List.length r))%nat /\
            subseq (map meta r) (map meta r').
Proof. exact junk_adds_at_most_one. Qed.

Theorem C19_genuine_subsequence : forall v k c cc tr ig lines lines' acc r r',
  ins_lines nontitle lines lines' ->
  parse_body v k c ig cc tr lines acc = POk r ->
  parse_body v k c ig cc tr lines' acc = POk r' ->
  subseq (map meta r) (map meta r').
Proof. exact junk_genuine_subsequence. Qed.

Theorem C19_genuine_subsequence_flag : forall v k c cc tr lines lines' acc,
  ins_lines nontitle lines lines' ->
  exists r r', parse_body v k c true cc tr lines acc = POk r /\
               parse_body v k c true cc tr lines' acc = POk r' /\
               subseq (map meta r) (map meta r') /\ (List.length r <= List.length r')%nat.
Proof. exact junk_genuine_subsequence_flag. Qed.

Theorem C19_fields_frame : forall v k c cc tr ig lines lines' acc r r',
  ins_lines nontitle lines lines' ->
  parse_body v k c ig cc tr lines acc = POk r ->
  parse_body v k c ig cc tr lines' acc = POk r' ->
  forall it, In it r ->
  exists it', In it' r' /\ i_orig it' = i_orig it /\ i_unit it' = i_unit it /\
              i_value it' = i_value it /\ i_descr it' = i_descr it.
Proof. exact junk_fields_frame. Qed.

(* ---- 4. without the flag: the only failure, naming its line -------------------------------- *)
Theorem C19_only_header_error : forall v k c cc tr ig lines acc,
  (exists r, parse_body v k c ig cc tr lines acc = POk r) \/
  (ig = false /\ exists raw, In raw lines /\ parse_body v k c ig cc tr lines acc = PErr (strip raw) /\
                            content_line cc raw = true /\ parse_line v k c (strip raw) = None).
Proof. exact parse_body_only_header_error. Qed.

Theorem C19_error_names_line : forall v k c cc tr ig lines acc l,
  parse_body v k c ig cc tr lines acc = PErr l ->
  exists a raw b, lines = a ++ raw :: b /\ l = strip raw /\ content_line cc raw = true /\
                  parse_line v k c (strip raw) = None /\
                  Forall (fun x => content_line cc x = true -> parse_line v k c (strip x) <> None) a.
Proof. exact parse_body_error_first. Qed.

Theorem C19_read_only_header_error : forall fhex fstr numeq o t line,
  read fhex fstr numeq o t = RErr (EHeader line) ->
  o_ignore_header_errors o = false /\
  exists raw v k, In raw (lines_keep t) /\ line = strip raw /\
                  content_line [ch_hash] raw = true /\ parse_line v k (o_mcase o) (strip raw) = None.
Proof. exact read_header_error_names_line. Qed.

Theorem C19_flag_irrelevant_when_clean : forall v k c cc tr lines acc,
  Forall (fun x => content_line cc x = true -> parse_line v k c (strip x) <> None) lines ->
  parse_body v k c true cc tr lines acc = parse_body v k c false cc tr lines acc.
Proof. exact parse_body_flag_irrelevant. Qed.

(* ---- 5. steering ------------------------------------------------------------------------------ *)
Theorem C19_sect_append_frame : forall tr key l x,
  in_str ch_colon key = false -> Forall sess_wf l -> sess_wf x ->
  mn_compare tr (useful (i_orig x)) key = false ->
  sect_find tr key (sect_append tr l x) = sect_find tr key l.
Proof. exact sect_find_sect_append_other. Qed.

Theorem C19_steering_lookup : forall v k c cc tr ig key lines lines' acc r r',
  In key steer_keys -> Forall sess_wf acc ->
  ins_lines (junk_line v k c tr) lines lines' ->
  parse_body v k c ig cc tr lines acc = POk r ->
  parse_body v k c ig cc tr lines' acc = POk r' ->
  sect_find tr key r' = sect_find tr key r.
Proof. exact junk_steering_lookup. Qed.

Theorem C19_steering_frame : forall v k c cc tr ig letter lines lines' r r' ps,
  ins_lines (junk_line v k c tr) lines lines' ->
  parse_body v k c ig cc tr lines [] = POk r ->
  parse_body v k c ig cc tr lines' [] = POk r' ->
  update_steering letter (mksect r' tr) ps = update_steering letter (mksect r tr) ps.
Proof. exact junk_update_steering. Qed.

(* ---- 6. the curve data -------------------------------------------------------------------------- *)
Theorem C19_data_reads_only : forall fhex fstr numeq o ls ps d p l,
  read_one_data fhex fstr numeq o ls ps d p l =
  match data_core fhex fstr numeq o (p_wrapped ps) (p_null ps) d (body_lines ls p) (l_curves l) (wrap_decl l) with
  | inl (cs, dat, eng) =>
      inl (mklas (l_version l) (l_well l) cs (l_params l) (l_other l) (l_custom l) dat eng)
  | inr e => inr e
  end.
Proof. exact read_one_data_core. Qed.

Theorem C19_data_frame : forall fhex fstr numeq o t t' pre pre' bs bs',
  o_ignore_header_errors o = true ->
  lines_keep t = pre ++ render bs -> lines_keep t' = pre' ++ render bs' ->
  notitles pre -> notitles pre' -> Forall wf_block bs ->
  Forall2 (junk_ins_block (o_mcase o)) bs bs' ->
  rres_frame (read fhex fstr numeq o t) (read fhex fstr numeq o t').
Proof. exact read_junk_blocks. Qed.

Theorem C19_read_ok : forall fhex fstr numeq o t t' pre pre' bs bs' l,
  o_ignore_header_errors o = true ->
  lines_keep t = pre ++ render bs -> lines_keep t' = pre' ++ render bs' ->
  notitles pre -> notitles pre' -> Forall wf_block bs ->
  Forall2 (junk_ins_block (o_mcase o)) bs bs' ->
  read fhex fstr numeq o t = ROk l ->
  exists l', read fhex fstr numeq o t' = ROk l' /\ las_frame l l'.
Proof. exact read_junk_blocks_ok. Qed.

(* what rres_frame / las_frame say, spelled out *)
Theorem C19_frame_meaning : forall x y, rres_frame x y ->
  match x, y with
  | ROk l, ROk l' =>
      l_curves l = l_curves l' /\ l_data l = l_data l' /\ l_engine_numpy l = l_engine_numpy l' /\
      l_other l = l_other l' /\
      subseq (map meta (s_items (l_version l))) (map meta (s_items (l_version l'))) /\
      subseq (map meta (s_items (l_well l))) (map meta (s_items (l_well l'))) /\
      subseq (map meta (s_items (l_params l))) (map meta (s_items (l_params l')))
  | RErr e, RErr e' => e = e'
  | _, _ => False
  end.
Proof. exact rres_frame_meaning. Qed.

(* ---- non-vacuity ------------------------------------------------------------------------------------ *)
Definition nl (s : string) : list N := s2l s ++ [10].

Example C19_ex_loop :
  parse_line V20 KWell CaseUpper (s2l "!!!!") = None /\
  (exists it, parse_line V20 KWell CaseUpper (s2l "FOO .M 12 : a foo") = Some it /\ i_orig it = s2l "FOO") /\
  (match parse_body V20 KWell CaseUpper true [ch_hash] true
           [nl " STRT.M 1.0 : start"; nl "!!!!"; nl "FOO .M 12 : a foo"; nl " STOP.M 2.0 : stop"] [] with
   | POk r => map i_orig r = [s2l "STRT"; s2l "FOO"; s2l "STOP"]
   | PErr _ => False end) /\
  parse_body V20 KWell CaseUpper false [ch_hash] true
           [nl " STRT.M 1.0 : start"; nl "!!!!"; nl "FOO .M 12 : a foo"] [] = PErr (s2l "!!!!").
Proof. split; [vm_compute; reflexivity|]. split; [eexists; split; vm_compute; reflexivity|]. split; vm_compute; reflexivity. Qed.

Definition ex_fhex (t : list N) : option (list N) :=
  match py_float_dec t with Some _ => Some t | None => None end.
Definition ex_fstr (t : list N) : list N := t.
Definition ex_numeq (a b : list N) : bool := str_eqb a b.
Definition ex_opts : ropts := mkropts true CaseUpper false true false.

Definition ex_blocks : list block :=
  [ (nl "~Version", [nl " VERS. 2.0 : v"; nl " WRAP.  NO : w"]);
    (nl "~Well", [nl " STRT.M 1.0 : start"; nl " NULL. -999.25 : null"]);
    (nl "~Curve", [nl " DEPT.M : depth"; nl " A.V : a"]);
    (nl "~Params", [nl " X. 1 : x"]);
    (nl "~ASCII", [nl " 1.0 2.0"; nl " 3.0 -999.25"]) ].
Definition ex_blocks_junk : list block :=
  [ (nl "~Version", [nl " VERS. 2.0 : v"; nl "!!!!"; nl " WRAP.  NO : w"; nl "junk. here : x"]);
    (nl "~Well", [nl "????"; nl " STRT.M 1.0 : start"; nl "FOO .M 12 : a foo"; nl " NULL. -999.25 : null"]);
    (nl "~Curve", [nl " DEPT.M : depth"; nl " A.V : a"]);
    (nl "~Params", [nl " X. 1 : x"; nl "a b c"]);
    (nl "~ASCII", [nl " 1.0 2.0"; nl " 3.0 -999.25"]) ].
Definition ex_text : list N := List.concat (render ex_blocks).
Definition ex_text_junk : list N := List.concat (render ex_blocks_junk).

Ltac junk_for_tac :=
  intros v; split; [vm_compute; reflexivity|];
  intros it H; destruct v; vm_compute in H; first [discriminate H | injection H as <-; vm_compute; reflexivity].
Ltac ins_tac :=
  repeat first [ apply ji_nil | apply ji_keep | apply ji_junk; [junk_for_tac|] ].

Example C19_ex_hyps :
  lines_keep ex_text = [] ++ render ex_blocks /\ lines_keep ex_text_junk = [] ++ render ex_blocks_junk /\
  Forall wf_block ex_blocks /\ Forall2 (junk_ins_block CaseUpper) ex_blocks ex_blocks_junk.
Proof.
  split; [vm_compute; reflexivity|]. split; [vm_compute; reflexivity|]. split; [repeat constructor|].
  repeat (apply Forall2_cons || apply Forall2_nil); (split; [reflexivity|]);
    first [ right; reflexivity
          | left; split; [vm_compute; reflexivity|]; split; [vm_compute; reflexivity|]; ins_tac ].
Qed.

Example C19_ex_read :
  match read ex_fhex ex_fstr ex_numeq ex_opts ex_text, read ex_fhex ex_fstr ex_numeq ex_opts ex_text_junk with
  | ROk l, ROk l' =>
      l_data l = [ [CNum (s2l "1.0"); CNum (s2l "3.0")]; [CNum (s2l "2.0"); CNaN] ] /\
      l_data l' = l_data l /\ l_curves l' = l_curves l /\
      List.length (s_items (l_well l')) = S (List.length (s_items (l_well l)))
  | _, _ => False
  end.
Proof. vm_compute. repeat split. Qed.

Example C19_ex_read_noflag :
  read ex_fhex ex_fstr ex_numeq (mkropts false CaseUpper false true false) ex_text_junk = RErr (EHeader (s2l "!!!!")).
Proof. vm_compute. reflexivity. Qed.

Print Assumptions C19_total.
Print Assumptions C19_total_ok.
Print Assumptions C19_read_total.
Print Assumptions C19_unparsable_skipped.
Print Assumptions C19_parsable_adds_one.
Print Assumptions C19_junk_adds_at_most_one.
Print Assumptions C19_genuine_subsequence.
Print Assumptions C19_genuine_subsequence_flag.
Print Assumptions C19_fields_frame.
Print Assumptions C19_only_header_error.
Print Assumptions C19_error_names_line.
Print Assumptions C19_read_only_header_error.
Print Assumptions C19_flag_irrelevant_when_clean.
Print Assumptions C19_sect_append_frame.
Print Assumptions C19_steering_lookup.
Print Assumptions C19_steering_frame.
Print Assumptions C19_data_reads_only.
Print Assumptions C19_data_frame.
Print Assumptions C19_read_ok.
Print Assumptions C19_frame_meaning.

(* ---- the header-section loop of the model IS reader.parse_header_items_section as it stands today ----
   Model/SectionParse.parse_section (parse_body: blank and comment lines skipped, the "~" line that ends the
   section, read_line in try / except / else, the ignore_header_errors branch - skip with a warning or
   LASHeaderError -, the mnemonic_case mapping, the parser built from the title, append) equals, for every file,
   pair of line numbers satisfying section_extent (what find_sections produces), version other than 3.0, case,
   flag and comment characters, the function re-translated on this run from /repo
   (py_parse_header_items_section in Gen/Funcs.v).  None = LASHeaderError.  Proofs/FuncsPinParseSection.v. *)
From Coq Require Import ZArith.
Require Import Funcs HeaderLine FuncsPinStandardize FuncsPinNum FuncsPinParseSection.
Theorem C19_parse_section_current : forall fstr fzero file first last title v c ign cc,
  startswith [ch_tilde] (strip (pyo_readline_line (skipn first file))) = true -> v <> V30 ->
  section_extent file first last cc ->
  py_parse_header_items_section (hval_ops fstr fzero) num_hval_ops hsect_ops (skipn first file)
    (Z.of_nat first, Z.of_nat last) v ign (case_str c) (List.map (fun ch : N => [ch]) cc)
  = match parse_section v (pyo_readline_line (skipn first file)) c ign cc (body_lines file (mkspos first last title)) with
    | POk items => Some (case_transforms c, items)
    | PErr _ => None
    end.
Proof. exact parse_section_pin. Qed.
Print Assumptions C19_parse_section_current.

(* the same, as LASFile.read uses the function: for every section that find_sections finds in a file ("#" as the
   comment character), with no hypothesis on the line numbers (Proofs/FuncsPinParseSection.v:
   find_sections_extent) *)
Theorem C19_parse_section_found_current : forall fstr fzero ls p v c ign,
  In p (find_sections ls) -> v <> V30 ->
  py_parse_header_items_section (hval_ops fstr fzero) num_hval_ops hsect_ops (skipn (sp_first p) ls)
    (Z.of_nat (sp_first p), Z.of_nat (sp_last p)) v ign (case_str c) [[ch_hash]]
  = match parse_section v (sp_title p) c ign [ch_hash] (body_lines ls p) with
    | POk items => Some (case_transforms c, items)
    | PErr _ => None
    end.
Proof. exact parse_section_found_pin. Qed.
Print Assumptions C19_parse_section_found_current.
