(* Props.C02 — the fast (numpy) and the reference (normal) data engines return identical
   curves.  Statements only; proofs in Proofs/DataReadProofs.v, Proofs/RegexSubFacts.v and
   Proofs/DataSectionProofs.v.

   Reading.  body = the physical lines of one ~A section (Model/Sections.v body_lines).
   Domain, line by line (dom2_lineb fhex c raw, BOOLEAN and executable): with l = strip raw,
     * l is empty (blank line), or
     * l starts with '#' (comment line; no further condition), or
     * raw is a data line: no '#', no double or single quote, no chr 26 anywhere in raw; none
       of the three read substitutions of the default read policy fires on l
       (nomatchb rx l = the pattern matches at no start position = re.search is None);
       l.split() has exactly c tokens and float() accepts every one of them
       (is_float_tok fhex, fhex = the float() oracle).
   The body must contain at least one data line (data_rows body <> []), c >= 1, WRAP NO,
   DLM SPACE.  line_toks raw = the tokens of a line as the statement reads it (none for a
   blank or comment line, l.split() otherwise); data_rows body = the non-empty token lists
   in order; spec_columns fhex c body = map (map (mk_num fhex)) (transpose_n c (data_rows
   body)): column j = [row_0[j]; row_1[j]; ...] as numeric cells of the token texts
   (mk_num: a token float() reads as nan is a NaN cell).

   Proved at full strength on that domain (unbounded rows and columns, any padding, tabs,
   blank and comment lines anywhere including first and last, any line terminator that
   strip() removes, with or without a final newline):
     C02_numpy_spec     numpy_engine returns exactly spec_columns (in particular it does
                        not raise, so lasio does not fall back);
     C02_normal_spec    normal_engine returns exactly spec_columns, for EVERY list of read
                        substitutions (default_subs and the hyphen-dropped recommendation of
                        inspect_data_section are instances);
     C02_agree          hence both engines return the same columns;
     C02_sub_identity   re.sub is the identity when the pattern matches nowhere;
     C02_sow_is_split   sow_regex.findall == str.split on quote-free text (and the AST the
                        proof is about is the one generated from the source today:
                        C02_sow_current);
     C02_sniff          inspect_data_section with the SPACE delimiter (once or twice) returns
                        Some c (the sniffer splits with split_line d, like the engine);
     C02_read_one_data  LASFile.read on such a section (Model/Read.v read_one_data, WRAP NO,
                        DLM SPACE) returns the same LASFile for every engine option: same
                        header sections, same curves, same data, NaN/NULL positions
                        included; the trace flag is o_engine_numpy && o_null_strict, i.e.
                        with the default options the numpy path really produced the data;
     C02_read_engines_agree  the same, stated for two option records;
     C02_read_agree     the whole LASFile.read (Model/Read.v read): for two option records
                        that differ at most in the engine, if the first pass over the header
                        sections ends with WRAP NO and DLM SPACE and every data section is
                        in the domain (dom2_section: some c >= 1), both reads succeed and
                        return the same ~Version, ~Well, ~Curves, ~Parameter, ~Other and
                        custom sections and the same data, wherever ~A sits relative to
                        the other sections; when there is a data section the trace flag of
                        the numpy read says numpy (no silent fallback).
   Not proved here (covered by the correspondence runs of the harness): that body_lines
   delimits exactly the lines of the section in the implementation (line-number bookkeeping
   of find_sections and skip_header / max_rows — Model/Sections.v, shared with C05); the
   hypotheses of C02_read_agree are stated on the first-pass state rather than on the text.
   Oracle / trust assumptions: genfromtxt behaves as Model/DataRead.v genfromtxt_rows /
   numpy_engine says; fhex (float(tok) succeeds, and to which double); fstr is irrelevant
   on the domain (no text column).

   (* ==== BEGIN note (audit D13): what "identical" means in the theorems above ==== *)
   WHAT "full on dom2_lineb" MEANS.  A numeric cell of the model is `CNum tok`: the TEXT of the
   token (Model/DataRead.v mk_num), and both engines are handed the SAME float() oracle fhex.
   So C02_agree / C02_read_one_data / C02_read_agree state equality of the TOKEN MATRIX (same
   shape, the same token text in every cell, the same NaN cells as decided by fhex) -- they do
   not state, and no Coq theorem here states, that the two engines compute bit-identical
   doubles from one token.  In lasio the fast engine converts with float() inside genfromtxt,
   the reference engine with np.float64 followed by astype(float); that both map one token text
   to the same IEEE double is (i) a fact about CPython / numpy carried by the single oracle
   fhex (trust assumption: one token text, one double, whichever converter), and (ii) checked
   by the correspondence run of harness/props/c02.py, which compares float.hex of every cell
   of the two real reads on the generated spellings.  The property's "bit-identical values"
   is therefore: token-matrix equality (proved, unbounded) + the oracle + the correspondence.
   (* ==== END note (audit D13) ==== *) *)
From Coq Require Import List NArith Bool String.
Import ListNotations.
Require Import PyStr Regex Regexes NumLit SectionParse Sections DataRead Read.
Require Import RegexSubFacts DataReadProofs DataSectionProofs.
Open Scope string_scope.
Open Scope list_scope.

Theorem C02_numpy_spec : forall fhex c body,
  Forall (fun raw => dom2_lineb fhex c raw = true) body -> data_rows body <> [] ->
  numpy_engine fhex body = Some (spec_columns fhex c body).
Proof. exact numpy_spec. Qed.

Theorem C02_normal_spec : forall fhex fstr subs c body,
  (0 < c)%nat ->
  Forall (fun raw => dom2_lineb fhex c raw = true) body -> data_rows body <> [] ->
  normal_engine fhex fstr DSpace subs c body = DOk (spec_columns fhex c body).
Proof. exact normal_spec. Qed.

Theorem C02_agree : forall fhex fstr c body,
  (0 < c)%nat ->
  Forall (fun raw => dom2_lineb fhex c raw = true) body -> data_rows body <> [] ->
  let X := map (map (mk_num fhex)) (transpose_n c (data_rows body)) in
  numpy_engine fhex body = Some X /\
  normal_engine fhex fstr DSpace default_subs c body = DOk X /\
  normal_engine fhex fstr DSpace (drop_hyphen_subs default_subs) c body = DOk X.
Proof.
  intros fhex fstr c body Hc H Hne. cbv zeta. fold (spec_columns fhex c body).
  split; [apply numpy_spec; assumption|]. split; apply normal_spec; assumption.
Qed.

Theorem C02_sub_identity : forall r t s, nomatchb r [] s = true -> re_sub r t s = s.
Proof. exact re_sub_nomatch. Qed.

(* nomatchb is "re.search finds nothing" *)
Theorem C02_nomatch_is_search : forall r s, nomatchb r [] s = negb (re_search r s).
Proof. exact nomatchb_re_search. Qed.

Theorem C02_sow_is_split : forall s,
  in_str 34 s = false -> in_str 39 s = false -> re_findall_joined rx_split_sow s = split_ws s.
Proof. exact sow_is_split. Qed.

Theorem C02_sow_current : rx_split_sow = sow_ast /\ rx_sow = sow_ast.
Proof. split; [exact sow_is_current|exact sow_inspect_is_current]. Qed.

Theorem C02_sniff : forall fhex subs c body,
  Forall (fun raw => dom2_lineb fhex c raw = true) body -> data_rows body <> [] ->
  fst (inspect DSpace body subs) = Some c /\ fst (inspect_twice DSpace body subs) = Some c.
Proof. intros. split; [apply (sniff_spec fhex)|apply (sniff_twice_spec fhex)]; assumption. Qed.

Theorem C02_read_one_data : forall fhex fstr numeq o ls ps p l c,
  hval_is_str (p_wrapped ps) (s2l "YES") = false ->
  wrap_declared l = false ->
  (0 < c)%nat ->
  Forall (fun raw => dom2_lineb fhex c raw = true) (body_lines ls p) ->
  data_rows (body_lines ls p) <> [] ->
  read_one_data fhex fstr numeq o ls ps DSpace p l =
  inl (data_section_result fhex numeq o ps l c (body_lines ls p)).
Proof. exact read_one_data_dom2. Qed.

Theorem C02_read_engines_agree : forall fhex fstr numeq o1 o2 ls ps p l c,
  o_null_strict o1 = o_null_strict o2 ->
  hval_is_str (p_wrapped ps) (s2l "YES") = false ->
  wrap_declared l = false ->
  (0 < c)%nat ->
  Forall (fun raw => dom2_lineb fhex c raw = true) (body_lines ls p) ->
  data_rows (body_lines ls p) <> [] ->
  exists l1 l2,
    read_one_data fhex fstr numeq o1 ls ps DSpace p l = inl l1 /\
    read_one_data fhex fstr numeq o2 ls ps DSpace p l = inl l2 /\
    l_version l1 = l_version l2 /\ l_well l1 = l_well l2 /\ l_curves l1 = l_curves l2 /\
    l_params l1 = l_params l2 /\ l_other l1 = l_other l2 /\ l_custom l1 = l_custom l2 /\
    l_data l1 = l_data l2 /\
    l_engine_numpy l1 = (o_engine_numpy o1 && o_null_strict o1) /\
    l_engine_numpy l2 = (o_engine_numpy o2 && o_null_strict o2).
Proof. exact read_one_data_engines_agree. Qed.

Theorem C02_read_agree : forall fhex fstr numeq o1 o2 text ps,
  o_ignore_header_errors o1 = o_ignore_header_errors o2 -> o_mcase o1 = o_mcase o2 ->
  o_null_strict o1 = o_null_strict o2 -> o_ignore_data o1 = o_ignore_data o2 ->
  first_pass o1 (lines_keep text) ps_initial (find_sections (lines_keep text)) = inl ps ->
  dlm_of (p_dlm ps) = Some DSpace ->
  hval_is_str (p_wrapped ps) (s2l "YES") = false ->
  wrap_declared (p_las ps) = false ->
  Forall (dom2_section fhex (lines_keep text)) (match p_data ps with [] => p_las3data ps | x => x end) ->
  exists l1 l2, read fhex fstr numeq o1 text = ROk l1 /\ read fhex fstr numeq o2 text = ROk l2 /\
    (l_version l1 = l_version l2 /\ l_well l1 = l_well l2 /\ l_curves l1 = l_curves l2 /\
     l_params l1 = l_params l2 /\ l_other l1 = l_other l2 /\ l_custom l1 = l_custom l2 /\
     l_data l1 = l_data l2) /\
    (o_ignore_data o1 = false -> (match p_data ps with [] => p_las3data ps | x => x end) <> [] ->
     l_engine_numpy l1 = (o_engine_numpy o1 && o_null_strict o1) /\
     l_engine_numpy l2 = (o_engine_numpy o2 && o_null_strict o2)).
Proof. exact read_engines_agree. Qed.

(* ---- non-vacuity: a concrete body satisfying every hypothesis -------------------------- *)
(* example float() oracle: decimal literals (the value is irrelevant here) *)
Definition ex_fhex (t : list N) : option (list N) :=
  match py_float_dec t with Some _ => Some t | None => None end.
Definition ex_fstr (t : list N) : list N := t.

Definition ex_body : list (list N) :=
  [ s2l "# leading comment with 1-2, 3,4 and ""quotes""" ++ [10];
    s2l "  100.5   -5e-3 +5E+3" ++ [10];
    [10];
    s2l "200." ++ [9] ++ s2l ".5" ++ [9; 9] ++ s2l "7  " ++ [13; 10];
    s2l "   #c" ++ [10];
    [32; 9; 10];
    s2l "-0.25 1e10 3" ++ [10];
    s2l "#last line, no newline" ].

Example C02_ex_dom : Forall (fun raw => dom2_lineb ex_fhex 3 raw = true) ex_body.
Proof. apply Forall_forall. apply forallb_forall. vm_compute. reflexivity. Qed.
Example C02_ex_rows :
  data_rows ex_body =
  [ [s2l "100.5"; s2l "-5e-3"; s2l "+5E+3"]; [s2l "200."; s2l ".5"; s2l "7"];
    [s2l "-0.25"; s2l "1e10"; s2l "3"] ] /\ data_rows ex_body <> [] /\ (0 < 3)%nat.
Proof. split; [vm_compute; reflexivity|]. split; [vm_compute; discriminate|repeat constructor]. Qed.
Example C02_ex_numpy :
  numpy_engine ex_fhex ex_body =
  Some [ [CNum (s2l "100.5"); CNum (s2l "200."); CNum (s2l "-0.25")];
         [CNum (s2l "-5e-3"); CNum (s2l ".5"); CNum (s2l "1e10")];
         [CNum (s2l "+5E+3"); CNum (s2l "7"); CNum (s2l "3")] ].
Proof. vm_compute. reflexivity. Qed.
Example C02_ex_normal :
  normal_engine ex_fhex ex_fstr DSpace default_subs 3 ex_body =
  DOk [ [CNum (s2l "100.5"); CNum (s2l "200."); CNum (s2l "-0.25")];
        [CNum (s2l "-5e-3"); CNum (s2l ".5"); CNum (s2l "1e10")];
        [CNum (s2l "+5E+3"); CNum (s2l "7"); CNum (s2l "3")] ].
Proof. vm_compute. reflexivity. Qed.
(* only two of the three data lines contain a '-' (the '-' of the comment line is not counted):
   the hyphen rule is kept *)
Example C02_ex_sniff : inspect_twice DSpace ex_body default_subs = (Some 3%nat, default_subs).
Proof. vm_compute. reflexivity. Qed.
(* the domain is not trivial: a run-on "1-2", a decimal comma, a quoted token and a short
   row are all outside it *)
Example C02_ex_outside :
  map (dom2_lineb ex_fhex 2) [s2l "1-2 3"; s2l "1,5 2"; s2l """1"" 2"; s2l "1"; s2l "1 2"]
  = [false; false; false; false; true].
Proof. vm_compute. reflexivity. Qed.
Example C02_ex_single : (* one row, one column *)
  dom2_lineb ex_fhex 1 (s2l "5") = true /\
  numpy_engine ex_fhex [s2l "5"] = Some [[CNum (s2l "5")]] /\
  normal_engine ex_fhex ex_fstr DSpace default_subs 1 [s2l "5"] = DOk [[CNum (s2l "5")]].
Proof. repeat split; vm_compute; reflexivity. Qed.

(* a whole file: ~A in the middle, followed by ~P; blank and comment lines inside ~A *)
Definition ex_text : list N := s2l
"~Version
 VERS. 2.0 : v
 WRAP.  NO : w
~Well
 NULL. -999.25 : null
~Curve
 DEPT.M : depth
 A.V    : a
~ASCII
 1.0   2.0
# c

 3.0 -999.25
~Params
 X. 1 : x
".
Definition ex_numpy : ropts := mkropts false CaseUpper true true false.
Definition ex_normal : ropts := mkropts false CaseUpper false true false.
Definition ex_numeq (a b : list N) : bool := str_eqb a b.
Example C02_ex_read_hyps :
  exists ps,
    first_pass ex_numpy (lines_keep ex_text) ps_initial (find_sections (lines_keep ex_text)) = inl ps /\
    dlm_of (p_dlm ps) = Some DSpace /\
    hval_is_str (p_wrapped ps) (s2l "YES") = false /\
    wrap_declared (p_las ps) = false /\
    (match p_data ps with [] => p_las3data ps | x => x end) <> [] /\
    Forall (dom2_section ex_fhex (lines_keep ex_text)) (match p_data ps with [] => p_las3data ps | x => x end).
Proof.
  eexists. split; [vm_compute; reflexivity|].
  split; [vm_compute; reflexivity|]. split; [vm_compute; reflexivity|]. split; [vm_compute; reflexivity|].
  split; [vm_compute; discriminate|].
  apply (dom2_sectionb_sound ex_fhex _ 2). vm_compute. reflexivity.
Qed.
Example C02_ex_read :
  match read ex_fhex ex_fstr ex_numeq ex_numpy ex_text, read ex_fhex ex_fstr ex_numeq ex_normal ex_text with
  | ROk l1, ROk l2 =>
      l_data l1 = [ [CNum (s2l "1.0"); CNum (s2l "3.0")]; [CNum (s2l "2.0"); CNaN] ] /\
      l_data l2 = l_data l1 /\ l_engine_numpy l1 = true /\ l_engine_numpy l2 = false
  | _, _ => False
  end.
Proof. vm_compute. repeat split. Qed.

Print Assumptions C02_numpy_spec.
Print Assumptions C02_normal_spec.
Print Assumptions C02_agree.
Print Assumptions C02_sub_identity.
Print Assumptions C02_nomatch_is_search.
Print Assumptions C02_sow_is_split.
Print Assumptions C02_sow_current.
Print Assumptions C02_sniff.
Print Assumptions C02_read_one_data.
Print Assumptions C02_read_engines_agree.
Print Assumptions C02_read_agree.

(* ---- the sniffer of the model IS reader.inspect_data_section as it stands today ---------------------
   Model/DataRead.inspect (inspect_loop: the window of at most 21 data lines, blank and comment lines not
   counted, the hyphen test on data lines only, the item count with the configured splitter after the
   substitutions; all_equal: the returned column count or -1; drop_hyphen_subs: the recommendation) equals,
   for every file, every pair of line numbers, every list of READ_SUBS substitutions and each splitter, the
   function re-translated on this run from /repo (py_inspect_data_section in Gen/Funcs.v; HYPHEN_SUBS and
   READ_SUBS are re-read from defaults.py).  The file object is the list of the lines that remain after
   file_obj.seek(k); the model works on Sections.body_lines, so the line-number bookkeeping is part of the
   statement.  Proofs/FuncsPinInspect.v. *)
From Coq Require Import ZArith.
Require Import Funcs FuncsPinInspect.
Theorem C02_inspect_current : forall d file first last title subs,
  py_inspect_data_section (skipn first file) (Z.of_nat first, Z.of_nat last) (List.map sub_pair subs) [ch_hash]
                          (Some (split_line d))
  = let (n, subs') := inspect d (body_lines file (mkspos first last title)) subs in
    Some (ncols_Z n, List.map sub_pair subs').
Proof. exact inspect_pin. Qed.
Print Assumptions C02_inspect_current.

(* inspect, accept the recommendation, inspect again: Model/DataRead.inspect_twice equals the three statements
   of LASFile.read's data-section loop around `if recommended_regexp_subs != regexp_subs and
   accept_regexp_sub_recommendations:` (py_inspect_twice, re-translated on this run; accept = True, the default);
   and the substitution lists the model starts from are what defaults.READ_POLICIES / READ_SUBS hold today for
   the policies "default" and "comma-delimiter" (get_substitutions itself is not translated: policy_subs in
   Proofs/FuncsPinInspect.v is its reading of a policy that is a key of READ_POLICIES). *)
Theorem C02_inspect_twice_current : forall d file first last title subs,
  py_inspect_twice (skipn first file) (Z.of_nat first) (Z.of_nat last) (List.map sub_pair subs) [ch_hash] (split_line d) true
  = let (n, subs') := inspect_twice d (body_lines file (mkspos first last title)) subs in
    Some (ncols_Z n, List.map sub_pair subs').
Proof. exact inspect_twice_pin. Qed.
Theorem C02_read_policy_current :
  policy_subs (s2l "default") = Some (List.map sub_pair default_subs) /\
  policy_subs (s2l "comma-delimiter") = Some (List.map sub_pair comma_delim_subs).
Proof. exact read_policy_tables. Qed.
Print Assumptions C02_inspect_twice_current.
Print Assumptions C02_read_policy_current.

(* the item stream of the normal engine (Model/DataRead.normal_items) IS the generator `items` of
   reader.read_data_section_iterative_normal_engine as it stands today; see C09_engine_items_current and
   Proofs/FuncsPinEngine.v *)
Require Import FuncsPinEngine.
Theorem C02_engine_array_current : forall (V F A : Type) (nops : num_ops V F) (np_array : list (F + list N) -> A) d
                                          file first last title subs,
  py_engine_array nops np_array (skipn first file) (Z.of_nat first, Z.of_nat last) (List.map sub_pair subs) [ch_hash] (split_line d)
  = np_array (List.map (tok_val nops) (normal_items d subs (body_lines file (mkspos first last title)))).
Proof. exact engine_array_pin. Qed.
Print Assumptions C02_engine_array_current.

(* the splitter handed to the sniffer and to the normal engine: DataRead.split_line d IS what
   reader.define_line_splitter returns for "SPACE" / "COMMA" / "TAB" today (py_define_line_splitter, re-translated
   on this run; each match presented as "".join of its groups; any other name: KeyError) *)
Theorem C02_line_splitter_current : forall delim line,
  py_define_line_splitter delim line = option_map (fun d => split_line d line) (dlm_of_name delim).
Proof. exact line_splitter_pin. Qed.
Print Assumptions C02_line_splitter_current.
