(* Props.C02 — placeholder; theorems are being added (Proofs/DataReadProofs.v). *)
Require Import PyStr DataRead.
