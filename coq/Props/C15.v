(* Props.C15 — section lookup by key, attribute, membership and get() always agree.
   Statements only; the proofs are in Proofs/ItemsProofs.v.  Model: Model/Items.v.

   Reading.  A section is ANY list of items with ANY mnemonic_transforms flag (no
   reachability hypothesis: these are laws of the accessor loops themselves).  "Which item"
   is the position lookup_ix resolves a key to, so "returns that very item" is a statement
   about positions, not only about equal field values.  The comparison is
   SectionItems.mnemonic_compare: equality, or equality of the upper-cased names when the
   section was read with case normalisation (upper = ASCII upper-casing; the harness
   generates ASCII mnemonics only).

   Two language-level exclusions are explicit:
   (1) `k in s` is claimed for STRING keys: contains : section -> str -> bool.  For an int
       `k in s` is False although s[k] succeeds (C15_int_membership_excluded shows it);
   (2) attribute access is claimed for names Python does not resolve on the object/class
       itself (class_attrs = dir(s): append, index, keys, mnemonic_transforms, ...): those
       never reach SectionItems.__getattr__.
   UNFOLDING LEMMAS (audit D10; they restate a definition and are NOT to be counted as property theorems):
   C15_int_set_item (set_item on an int key unfolded: unfold; destruct; reflexivity), C15_set_value_fields
   (the record fields of set_value). *)
From Coq Require Import List NArith ZArith Bool String.
Import ListNotations.
Require Import PyStr Items ItemsProofs.
Open Scope N_scope.

(* `k in s` is true exactly when s[k] succeeds *)
Theorem C15_contains_iff : forall (s : section) (k : list N),
  contains s k = true <-> exists it, getitem s (KStr k) = IOk it.
Proof. exact contains_iff. Qed.

(* ... and s[k] is the FIRST item whose session mnemonic matches k *)
Theorem C15_first : forall s k it,
  getitem s (KStr k) = IOk it ->
  exists n, nth_error (items s) n = Some it /\
            mnemonic_compare (transforms s) (sess it) k = true /\
            (forall m y, (m < n)%nat -> nth_error (items s) m = Some y ->
                         mnemonic_compare (transforms s) (sess y) k = false).
Proof. exact getitem_first. Qed.

(* attribute access returns the same item (exclusion 2 as hypotheses) / AttributeError *)
Theorem C15_attr : forall class_attrs s k,
  existsb (str_eqb k) class_attrs = false -> str_eqb k s_mnemonic_transforms = false ->
  (contains s k = true -> py_getattr class_attrs s k = ires_map AttrItem (getitem s (KStr k))) /\
  (contains s k = false -> py_getattr class_attrs s k = IErr AttributeError).
Proof. exact py_getattr_both. Qed.

(* a missing key raises KeyError from item access and from deletion *)
Theorem C15_missing : forall s k, contains s k = false ->
  getitem s (KStr k) = IErr KeyError /\ delitem s (KStr k) = IErr KeyError.
Proof. exact missing_key. Qed.

(* get() without add=True never changes the section; on a present key it is s[k] *)
Theorem C15_get_pure : forall s k d s' it, get s k d false = IOk (s', it) -> s' = s.
Proof. exact get_pure. Qed.
Theorem C15_get_present : forall s k d add s' it,
  contains s k = true -> get s k d add = IOk (s', it) -> s' = s /\ getitem s (KStr k) = IOk it.
Proof. exact get_present. Qed.

(* with add=True on a missing key exactly one item, named k, is appended; every other item
   keeps all its fields (only session suffixes may be re-assigned: C13) *)
Theorem C15_get_add : forall s k d s' it,
  contains s k = false -> get s k d true = IOk (s', it) ->
  s' = append s it /\ orig it = k /\
  List.map payload (items s') = List.map payload (items s) ++ [payload it] /\
  List.length (items s') = S (List.length (items s)) /\
  transforms s' = transforms s.
Proof. exact get_add_missing. Qed.

(* assigning a plain value changes only that item's value *)
Theorem C15_set_value_frame : forall s k v s',
  set_item_value s k v = IOk s' ->
  exists n it, lookup_ix s k = IOk n /\ nth_error (items s) n = Some it /\
               nth_error (items s') n = Some (set_value v it) /\
               (forall m, m <> n -> nth_error (items s') m = nth_error (items s) m) /\
               List.length (items s') = List.length (items s) /\ transforms s' = transforms s.
Proof. exact set_value_frame. Qed.
Theorem C15_set_value_fields : forall v it,
  orig (set_value v it) = orig it /\ sess (set_value v it) = sess it /\ it_unit (set_value v it) = it_unit it /\
  it_value (set_value v it) = v /\ it_descr (set_value v it) = it_descr it /\
  it_data (set_value v it) = it_data it /\ is_curve (set_value v it) = is_curve it.
Proof. exact set_value_fields. Qed.

(* deleting by key or index removes exactly the item the key resolves to; the rest keeps
   its order (position m of the result is position m, or m+1 behind the gap) *)
Theorem C15_delete_frame : forall s k s',
  delitem s k = IOk s' ->
  exists n, lookup_ix s k = IOk n /\ S (List.length (items s')) = List.length (items s) /\
            (forall m, nth_error (items s') m = nth_error (items s) (if (m <? n)%nat then m else S m)) /\
            transforms s' = transforms s.
Proof. exact delete_frame. Qed.

(* integer keys address positions exactly as in a list (negative from the end, IndexError
   outside -len .. len-1), for reading, deleting and item assignment *)
Theorem C15_int : forall s z,
  let n := Z.of_nat (List.length (items s)) in
  ((0 <= z < n)%Z -> exists it, getitem s (KInt z) = IOk it /\ nth_error (items s) (Z.to_nat z) = Some it) /\
  ((- n <= z < 0)%Z -> exists it, getitem s (KInt z) = IOk it /\ nth_error (items s) (Z.to_nat (n + z)) = Some it) /\
  ((z < - n \/ n <= z)%Z -> getitem s (KInt z) = IErr IndexError /\ delitem s (KInt z) = IErr IndexError).
Proof. exact getitem_int. Qed.
Theorem C15_int_set_item : forall s z it,
  set_item s (KInt z) it =
  match lookup_ix s (KInt z) with
  | IOk n => IOk (assign_suffixes (useful it) (with_items s (replace_at n it (items s))))
  | IErr e => IErr e
  end.
Proof. exact set_item_int. Qed.

(* slices s[a:b:step], step >= 1: element j is element lo + j*step of the list while that is
   below hi, with Python's bounds (None -> 0 / len; negative from the end; clamped) *)
Theorem C15_slice : forall s a b step s',
  getslice s a b step = IOk s' ->
  (1 <= step)%nat /\ transforms s' = false /\
  let n := List.length (items s) in
  let lo := slice_lo n a in let hi := slice_hi n b in
  forall j, nth_error (items s') j =
            if (lo + j * step <? hi)%nat then nth_error (items s) (lo + j * step) else None.
Proof. exact getslice_spec. Qed.

(* ---- non-vacuity: concrete sections evaluated by the kernel ------------------------------ *)
Definition ex_it (m : string) (ss : string) : item := mkItem (s2l m) (s2l ss) [] (s2l "v") [] none_data false.
Definition ex_s (tr : bool) : section :=
  mkSection [ex_it "a" "a:1"; ex_it "A" "A:2"; ex_it "" "UNKNOWN"; ex_it "A" "A:2"] tr.

Example C15_ex_contains_case : contains (ex_s true) (s2l "a:2") = true /\ contains (ex_s false) (s2l "a:2") = false.
Proof. vm_compute. split; reflexivity. Qed.
Example C15_ex_first : lookup_ix (ex_s true) (KStr (s2l "a:2")) = IOk 1%nat.   (* first of the two A:2 *)
Proof. vm_compute. reflexivity. Qed.
Example C15_ex_missing : getitem (ex_s false) (KStr (s2l "Z")) = IErr KeyError
                         /\ delitem (ex_s false) (KStr (s2l "Z")) = IErr KeyError
                         /\ getattr (ex_s false) (s2l "Z") = IErr AttributeError.
Proof. vm_compute. repeat split; reflexivity. Qed.
Example C15_ex_int : lookup_ix (ex_s false) (KInt (-1)) = IOk 3%nat /\ lookup_ix (ex_s false) (KInt 4) = IErr IndexError
                     /\ lookup_ix (ex_s false) (KInt (-5)) = IErr IndexError.
Proof. vm_compute. repeat split; reflexivity. Qed.
Example C15_ex_slice : ires_map keys (getslice (ex_s true) (Some (-3)%Z) None 2) = IOk [s2l "A:2"; s2l "A:2"].
Proof. vm_compute. reflexivity. Qed.
Example C15_ex_get_add :
  ires_map (fun p => keys (fst p)) (get (ex_s false) (s2l "a") (inl (s2l "d")) true)
  = IOk [s2l "a:1"; s2l "A:2"; s2l "UNKNOWN"; s2l "A:2"; s2l "a:2"].
Proof. vm_compute. reflexivity. Qed.
(* exclusion (1) is needed: for an int key membership is False while item access succeeds *)
Example C15_int_membership_excluded :
  contains_key (ex_s false) (KInt 0) = false /\ exists it, getitem (ex_s false) (KInt 0) = IOk it.
Proof. split; [reflexivity|]. eexists. vm_compute. reflexivity. Qed.
(* a slice key cannot be deleted (falls through to KeyError): recorded, outside the statement *)
Example C15_delslice_keyerror : delslice (ex_s false) None None = IErr KeyError.
Proof. reflexivity. Qed.

Print Assumptions C15_contains_iff.
Print Assumptions C15_first.
Print Assumptions C15_attr.
Print Assumptions C15_missing.
Print Assumptions C15_get_pure.
Print Assumptions C15_get_present.
Print Assumptions C15_get_add.
Print Assumptions C15_set_value_frame.
Print Assumptions C15_set_value_fields.
Print Assumptions C15_delete_frame.
Print Assumptions C15_int.
Print Assumptions C15_int_set_item.
Print Assumptions C15_slice.

(* ---- membership and lookup by a str key are the Python's -------------------------------------------
   contains and getitem (KStr) equal SectionItems.__contains__ and SectionItems.__getitem__,
   re-translated on every run from /repo (translators/funcs.py -> Gen/Funcs.v) for a key that is a str
   (the slice / int / item branches are unreachable for a str; they stay hand-modelled and tied by the
   correspondence run).  pitem_of shows a model item as the object the translated code reads;
   None = KeyError. *)
Require Import Funcs FuncsPinSection.
Theorem C15_contains_current : forall s m,
  contains s m = py_section_contains (transforms s) (List.map pitem_of (items s)) m.
Proof. exact section_contains_pin. Qed.
Theorem C15_getitem_current : forall s m,
  ires_item (getitem s (KStr m)) = py_section_getitem (transforms s) (List.map pitem_of (items s)) m.
Proof. exact section_getitem_pin. Qed.
Print Assumptions C15_contains_current.
Print Assumptions C15_getitem_current.

(* ---- deletion by a str key is the Python's: delitem (KStr) equals SectionItems.__delitem__ re-translated on
   every run from /repo (the first item whose session mnemonic matches is removed; None = KeyError). *)
Require Import FuncsPinMutators.
Theorem C15_delitem_current : forall s m,
  py_section_delitem (transforms s) (List.map pitem_of (items s)) m = ires_items (delitem s (KStr m)).
Proof. exact delitem_pin. Qed.
Print Assumptions C15_delitem_current.
