(* Props.C07 — curves are rectangular and bound to their own column.
   Statements only; proofs in Proofs/DataReadProofs.v and Proofs/ItemsBindProofs.v.

   Reading.  The normal engine flattens all tokens of the data section (normal_items),
   reshapes the flat array by the column count (reshape = np.reshape(arr, (-1, n))) and
   yields the columns of the result (transpose_n); las.py then binds column j to curve j
   (Model/Read.v bind_columns: declared curves in order, one new unnamed curve per surplus
   column) and gives every curve without a column a NaN column of the common length
   (data_for_curves).  rows : list of data lines, each the list of its tokens.

   Proved at full strength (unbounded numbers of rows r, columns c and declared curves d):
     C07_reshape_rows         reshaping the concatenation of rows of n tokens gives back
                              exactly those rows (no shift, whatever r is);
     C07_transpose_nth        column j of the transposed matrix is [row_0[j]; row_1[j]; ...]:
                              value j of data line i is element i of column j; there are
                              exactly n columns, each with one element per row;
     C07_bind_length          after binding there are max d c curves;
     C07_bind_declared_frame  the declared curves keep their order and their metadata
                              (original mnemonic, unit, value, description); what follows
                              them is (c - d) copies of the unnamed curve.  Only SESSION
                              mnemonics may change (duplicate suffixes ":1", ":2" among
                              the unnamed/UNKNOWN ones);
     C07_bind_declared        per position: curve j < d of the result is declared curve j;
     C07_bind_new_unnamed     per position: curve j, d <= j < c, has empty original
                              mnemonic, unit, value and description;
     C07_data_columns         the data array has one column per curve; column j < c is data
                              column j itself (never shifted, merged or reordered); column
                              j >= c is NaN of the common length;
     C07_rectangular          all columns of the data array have the common length
                              (both forms: stated with curve_length, and for a given r);
     C07_normal_engine_binds  the normal engine on a body whose data lines each split into
                              exactly c float tokens returns, as column j, the numeric cells (mk_num) of
                              [row_0[j]; row_1[j]; ...] (Proofs/DataReadProofs.v
                              normal_engine_rows; line_items = what one physical line
                              contributes after strip / comment test / substitutions / ^Z
                              removal / splitting).
   C07_rectangular ASSUMES columns of one length; that both engines return such columns, and
   "after any successful read all curves have the same length" for Read.read itself, is
   C07_numpy_engine_rect / C07_normal_engine_rect / C07_read_rectangular in the block "read level"
   at the end of this file (no hypothesis on the body: WRAP=YES, text columns, several ~A, c <> d).
   Outside these statements: WRAP=YES bodies (Model: same normal_items, the claim is made
   for c = d only, see DESIGN.md), and the sniffing of c (C02_sniff).  No oracle assumption
   except is_float_tok (= float(tok) succeeds) in C07_normal_engine_binds. *)
From Coq Require Import List NArith Bool String.
Import ListNotations.
Require Import PyStr Num SectionParse DataRead Read DataReadProofs ItemsBindProofs.
Open Scope string_scope.
Open Scope list_scope.

Theorem C07_reshape_rows : forall n (rows : list (list (list N))),
  (0 < n)%nat -> Forall (fun r => List.length r = n) rows ->
  reshape n (List.concat rows) = Some rows.
Proof. exact reshape_concat. Qed.

Theorem C07_transpose_nth : forall n (rows : list (list (list N))),
  List.length (transpose_n n rows) = n /\
  forall j, (j < n)%nat ->
    nth j (transpose_n n rows) [] = map (fun r => nth j r []) rows /\
    List.length (nth j (transpose_n n rows) []) = List.length rows.
Proof.
  intros n rows. split; [apply transpose_n_length|].
  intros j Hj. split; [apply transpose_n_nth; exact Hj|apply transpose_n_col_length; exact Hj].
Qed.

Theorem C07_bind_length : forall tr curves (cols : list (list cell)),
  List.length (bind_columns tr curves 0 cols) = Nat.max (List.length curves) (List.length cols).
Proof. exact bind_columns_length. Qed.

Theorem C07_bind_declared_frame : forall tr curves (cols : list (list cell)),
  map meta (bind_columns tr curves 0 cols) =
  map meta curves ++ repeat (meta (new_item [] [] (VStr []) [])) (List.length cols - List.length curves).
Proof. exact bind_columns_meta. Qed.

Theorem C07_bind_declared : forall tr curves (cols : list (list cell)) j it,
  nth_error curves j = Some it ->
  exists it', nth_error (bind_columns tr curves 0 cols) j = Some it' /\
    i_orig it' = i_orig it /\ i_unit it' = i_unit it /\ i_value it' = i_value it /\ i_descr it' = i_descr it.
Proof.
  intros tr curves cols j it Hj. destruct (bind_columns_declared tr curves cols j it Hj) as (it' & H1 & H2).
  exists it'. split; [exact H1|]. unfold meta in H2. injection H2 as E1 E2 E3 E4. auto.
Qed.

Theorem C07_bind_new_unnamed : forall tr curves (cols : list (list cell)) j,
  (List.length curves <= j < List.length cols)%nat ->
  exists it', nth_error (bind_columns tr curves 0 cols) j = Some it' /\
    i_orig it' = [] /\ i_unit it' = [] /\ i_value it' = VStr [] /\ i_descr it' = [].
Proof. exact bind_columns_new_unnamed. Qed.

Theorem C07_data_columns : forall n (cols : list (list cell)),
  (List.length cols <= n)%nat ->
  List.length (data_for_curves n cols) = n /\
  (forall j, (j < List.length cols)%nat -> nth j (data_for_curves n cols) [] = nth j cols []) /\
  (forall j, (List.length cols <= j < n)%nat ->
     nth j (data_for_curves n cols) [] = nan_column (curve_length cols)) /\
  (forall r, cols <> [] -> Forall (fun c => List.length c = r) cols -> curve_length cols = r).
Proof.
  intros n cols Hle. split; [apply data_for_curves_length; exact Hle|].
  split; [intros j; apply data_for_curves_own|].
  split; [intros j; apply data_for_curves_nan|].
  intros r. apply curve_length_common.
Qed.

Theorem C07_rectangular : forall n (cols : list (list cell)),
  (Forall (fun c => List.length c = curve_length cols) cols ->
   Forall (fun c => List.length c = curve_length cols) (data_for_curves n cols)) /\
  (forall r, cols <> [] -> Forall (fun c => List.length c = r) cols ->
   Forall (fun c => List.length c = r) (data_for_curves n cols)).
Proof.
  intros n cols. split; [apply data_for_curves_rect|].
  intros r. apply data_for_curves_rect_r.
Qed.

(* the normal engine binds value j of data line i to element i of column j *)
Theorem C07_normal_engine_binds : forall fhex fstr d subs c body,
  (0 < c)%nat ->
  Forall (fun raw => line_items d subs raw = [] \/ List.length (line_items d subs raw) = c) body ->
  filter nonempty (map (line_items d subs) body) <> [] ->
  forallb (forallb (is_float_tok fhex)) (map (line_items d subs) body) = true ->
  let rows := filter nonempty (map (line_items d subs) body) in
  exists cols, normal_engine fhex fstr d subs c body = DOk cols /\ List.length cols = c /\
    forall j, (j < c)%nat -> nth j cols [] = map (mk_num fhex) (map (fun r => nth j r []) rows).
Proof.
  intros fhex fstr d subs c body Hc Hall Hne Hfl rows.
  exists (map (map (mk_num fhex)) (transpose_n c rows)).
  split; [apply normal_engine_rows; assumption|].
  split; [rewrite map_length; apply transpose_n_length|].
  intros j Hj. rewrite <- (transpose_n_nth c rows j Hj).
  change (@nil cell) with (map (mk_num fhex) []). apply map_nth.
Qed.

(* non-vacuity: 3 data lines of 2 tokens carrying their coordinates, 3 declared curves
   (one more than columns) and 1 declared curve (one fewer) *)
Definition ex_rows : list (list (list N)) :=
  [ [s2l "100"; s2l "101"]; [s2l "200"; s2l "201"]; [s2l "300"; s2l "301"] ].
Example C07_ex_rows : (0 < 2)%nat /\ Forall (fun r => List.length r = 2%nat) ex_rows.
Proof. split; [repeat constructor|repeat constructor]. Qed.
Example C07_ex_reshape : reshape 2 (List.concat ex_rows) = Some ex_rows.
Proof. vm_compute. reflexivity. Qed.
Example C07_ex_transpose :
  transpose_n 2 ex_rows = [ [s2l "100"; s2l "200"; s2l "300"]; [s2l "101"; s2l "201"; s2l "301"] ].
Proof. vm_compute. reflexivity. Qed.

Definition ex_curve (m : string) : hitem := new_item (s2l m) (s2l "M") (VStr []) (s2l "d").
Definition ex_cols : list (list cell) := map (map CNum) (transpose_n 2 ex_rows).
Example C07_ex_bind_fewer :
  map i_sess (bind_columns false [ex_curve "DEPT"] 0 ex_cols) = [s2l "DEPT"; s2l "UNKNOWN"].
Proof. vm_compute. reflexivity. Qed.
Example C07_ex_bind_more :
  map i_sess (bind_columns false [ex_curve "DEPT"; ex_curve "A"; ex_curve "B"] 0 ex_cols)
  = [s2l "DEPT"; s2l "A"; s2l "B"].
Proof. vm_compute. reflexivity. Qed.
Example C07_ex_data :
  data_for_curves 3 ex_cols = ex_cols ++ [[CNaN; CNaN; CNaN]] /\ ex_cols <> [] /\
  Forall (fun c => List.length c = 3%nat) ex_cols /\ (List.length ex_cols <= 3)%nat.
Proof. split; [vm_compute; reflexivity|]. split; [discriminate|]. split; vm_compute; repeat constructor. Qed.

(* a comma-delimited body with a blank line and a comment line; d = 2 *)
Definition ex_fhex (t : list N) : option (list N) :=
  match NumLit.py_float_dec t with Some _ => Some t | None => None end.
Definition ex_body : list (list N) :=
  [ s2l "100,101" ++ [10]; [10]; s2l "#c" ++ [10]; s2l "200,201" ++ [10]; s2l "300,301" ].
Example C07_ex_engine_hyps :
  Forall (fun raw => line_items DComma comma_delim_subs raw = [] \/
                     List.length (line_items DComma comma_delim_subs raw) = 2%nat) ex_body /\
  filter nonempty (map (line_items DComma comma_delim_subs) ex_body) = ex_rows /\
  forallb (forallb (is_float_tok ex_fhex)) (map (line_items DComma comma_delim_subs) ex_body) = true.
Proof.
  split; [|split; vm_compute; reflexivity].
  repeat (apply Forall_cons; [vm_compute; auto|]). apply Forall_nil.
Qed.
Example C07_ex_engine :
  normal_engine ex_fhex (fun t => t) DComma comma_delim_subs 2 ex_body = DOk ex_cols.
Proof. vm_compute. reflexivity. Qed.

Print Assumptions C07_reshape_rows.
Print Assumptions C07_transpose_nth.
Print Assumptions C07_bind_length.
Print Assumptions C07_bind_declared_frame.
Print Assumptions C07_bind_declared.
Print Assumptions C07_bind_new_unnamed.
Print Assumptions C07_data_columns.
Print Assumptions C07_rectangular.
Print Assumptions C07_normal_engine_binds.

(* ---- the binding of columns to curves is the Python's ------------------------------------------------
   bind_columns / data_for_curves (and the NULL replacement before them) equal the block of LASFile.read
   from `data_assigned_to_curves = {...}` to the end of the data-section loop, and the number of columns the
   normal engine is asked for equals the `reader_n_columns` decision, both re-translated on every run from
   /repo (py_bind_columns, py_reader_n_columns in Gen/Funcs.v); see Proofs/FuncsPinBind.v for the reading of
   the numpy operations (bind_rops). *)
From Coq Require Import ZArith.
Require Import Funcs FuncsPinBind.
Theorem C07_bind_current : forall numeq tr strict pn items datas cols L,
  List.length datas = List.length items ->
  (forall c, In c cols -> List.length c = L) ->
  py_bind_columns (bind_rops numeq tr) (combine items datas) cols strict pn
  = Some (let cols' := null_columns (nulleq numeq pn) strict 0 cols in
          let items' := bind_columns tr items 0 cols' in
          combine items' (data_for_curves (List.length items') cols')).
Proof. exact bind_pin. Qed.
Theorem C07_n_columns_current : forall (C : Type) sniffed (curves : list C) wrap_in_version wrap_is_yes,
  py_reader_n_columns (sniffed_z sniffed) curves wrap_in_version wrap_is_yes
  = Z.of_nat (match sniffed with
              | None => List.length curves
              | Some n => if (wrap_in_version && wrap_is_yes) && Nat.ltb n (List.length curves)
                          then List.length curves else n
              end).
Proof. exact n_columns_pin. Qed.
(* the hypotheses of C07_bind_current are met: two curves, three columns of two samples *)
Example C07_bind_current_nonvacuous :
  let cols := [[CNum [49]; CNum [50]]; [CNum [51]; CNaN]; [CStr [97]; CStr [98]]] in
  List.length ([[]; []] : list (list cell)) = 2%nat /\ (forall c, In c cols -> List.length c = 2%nat).
Proof. split; [reflexivity|]. intros c [<-|[<-|[<-|[]]]]; reflexivity. Qed.
Print Assumptions C07_bind_current.
Print Assumptions C07_n_columns_current.

(* ==== BEGIN block "read level" (audit D2) =======================================================
   C07_rectangular above ASSUMES columns of one length.  This block proves the unconditional
   clause of the property, "after any successful read all curves have the same length", for
   Read.read itself (Proofs/ReadDataShape.v):
     C07_numpy_engine_rect   whenever the numpy engine returns, its columns have one common
                             length (the number of non-blank rows) -- no hypothesis on the body;
     C07_normal_engine_rect  whenever the normal engine returns (no reshape error), it returns no
                             column at all or exactly n columns of one common length (the number
                             of rows of the reshaped array) -- for every delimiter, substitution
                             list, requested column count n and body: ragged lines, text tokens
                             (mixed arrays), WRAP YES, c <> d all included;
     C07_read_rectangular    read ... = ROk l  ->  all columns of l_data l have one common length
                             n; l_data l = [] (data ignored / no data section: every curve keeps its
                             empty array) or there is exactly one column per curve of l; with at
                             least one data section and data not ignored it IS one column per
                             curve; and -- the array of curve j being column j (Corr/ReadShow.v
                             shows nth j (l_data l) [] for curve j) -- all curves of l have one
                             common length.  Several ~A sections are covered: each one is read
                             with the curves left by the previous one, replaces the array and may
                             append unnamed curves (lasio does the same: checked on two ~A
                             sections of different widths and heights, both engines).
   engine_out = the engine selection of read_one_data (numpy when selected, not WRAP YES, strict
   policy, and genfromtxt does not raise; else the normal engine with the sniffed column count). *)
Require Import Sections ReadCongr ReadDataShape.

Theorem C07_numpy_engine_rect : forall fhex body cols, numpy_engine fhex body = Some cols ->
  Forall (fun c => List.length c = List.length (genfromtxt_rows body)) cols /\
  List.length cols = List.length (hd [] (genfromtxt_rows body)) /\ genfromtxt_rows body <> [].
Proof. exact numpy_engine_rect. Qed.

Theorem C07_normal_engine_rect : forall fhex fstr d subs n body cols,
  normal_engine fhex fstr d subs n body = DOk cols ->
  cols = [] \/
  exists rows, reshape n (normal_items d subs body) = Some rows /\
               Forall (fun c => List.length c = List.length rows) cols /\ List.length cols = n.
Proof. exact normal_engine_rect. Qed.

Theorem C07_engine_rect : forall fhex fstr o pw d body ncurves wd cols,
  engine_out fhex fstr o pw d body ncurves wd = DOk cols ->
  exists r, Forall (fun c => List.length c = r) cols.
Proof. exact engine_out_rect. Qed.

Theorem C07_read_rectangular : forall fhex fstr numeq o text l,
  read fhex fstr numeq o text = ROk l ->
  (exists n, Forall (fun c => List.length c = n) (l_data l)) /\
  (l_data l = [] \/ List.length (l_data l) = List.length (s_items (l_curves l))) /\
  (o_ignore_data o = false -> data_sections_of text <> [] ->
   List.length (l_data l) = List.length (s_items (l_curves l))) /\
  (exists n, forall j, (j < List.length (s_items (l_curves l)))%nat -> List.length (nth j (l_data l) []) = n).
Proof. exact read_rectangular. Qed.

(* every data section on its own: engine ; NULL rule ; binding ; NaN filling -- and nothing else
   of the file changes *)
Theorem C07_read_one_data_shape : forall fhex fstr numeq o ls ps d p l l',
  read_one_data fhex fstr numeq o ls ps d p l = inl l' ->
  exists cols,
    engine_out fhex fstr o (p_wrapped ps) d (body_lines ls p) (List.length (s_items (l_curves l))) (wrap_decl l)
      = DOk cols /\
    let cols' := null_columns (nulleq numeq (p_null ps)) (o_null_strict o) 0%nat cols in
    let tr := s_transforms (l_curves l) in
    l_curves l' = mksect (bind_columns tr (s_items (l_curves l)) 0%nat cols') tr /\
    l_data l' = data_for_curves (List.length (s_items (l_curves l'))) cols' /\
    l_version l' = l_version l /\ l_well l' = l_well l /\ l_params l' = l_params l /\
    l_other l' = l_other l /\ l_custom l' = l_custom l.
Proof. exact read_one_data_shape. Qed.

(* non-vacuity: concrete files through read, both engines.  Two declared curves. *)
Definition rr_text (data : list string) : list N :=
  flat_map (fun l => s2l l ++ [10%N])
    (["~V"; "VERS. 2.0 : v"; "WRAP. NO : w"; "~W"; "NULL. -999.25 : n"; "~C"; "DEPT.M : d"; "A. : a"] ++ data).
Definition rr_o (numpy : bool) : ropts := mkropts false CasePreserve numpy true false.
Definition rr_shape (r : rres) : option (nat * list nat) :=
  match r with
  | ROk l => Some (List.length (s_items (l_curves l)), map (@List.length cell) (l_data l))
  | RErr _ => None
  end.
Definition rr_read np data := read ex_fhex (fun t => t) (fun a b => str_eqb a b) (rr_o np) (rr_text data).
(* ragged lines (2,1,2,1 values): the numpy engine raises, the normal engine reshapes 6 tokens *)
Example C07_ex_read_ragged : forall np,
  rr_shape (rr_read np ["~A"; "1 2"; "3"; "4 5"; "6"]) = Some (2%nat, [3%nat; 3%nat]).
Proof. intros [|]; vm_compute; reflexivity. Qed.
(* two ~A sections, the second wider and shorter: three curves of one sample *)
Example C07_ex_read_two_sections : forall np,
  rr_shape (rr_read np ["~A"; "1 2"; "3 4"; "5 6"; "~A"; "7 8 9"]) = Some (3%nat, [1%nat; 1%nat; 1%nat]).
Proof. intros [|]; vm_compute; reflexivity. Qed.
(* two ~A sections, the second narrower: the curve added by the first one is NaN-filled *)
Example C07_ex_read_two_sections_narrower : forall np,
  rr_shape (rr_read np ["~A"; "1 2 3"; "3 4 5"; "~A"; "7"; "8"]) = Some (3%nat, [2%nat; 2%nat; 2%nat]).
Proof. intros [|]; vm_compute; reflexivity. Qed.
(* a text column; an empty data section; no data section at all *)
Example C07_ex_read_text_empty_none : forall np,
  rr_shape (rr_read np ["~A"; "1 a"; "2 b"]) = Some (2%nat, [2%nat; 2%nat]) /\
  rr_shape (rr_read np ["~A"]) = Some (2%nat, [0%nat; 0%nat]) /\
  rr_shape (rr_read np []) = Some (2%nat, []) /\
  data_sections_of (rr_text []) = [] /\ data_sections_of (rr_text ["~A"]) <> [].
Proof. intros [|]; vm_compute; repeat split; discriminate. Qed.
(* the engines' hypotheses are met: the numpy engine returns on a rectangular numeric body *)
Example C07_ex_numpy_returns :
  numpy_engine ex_fhex [s2l "1 2" ++ [10%N]; s2l "3 4 #c" ++ [10%N]; [10%N]; s2l "5 6"]
  = Some [ [CNum (s2l "1"); CNum (s2l "3"); CNum (s2l "5")]; [CNum (s2l "2"); CNum (s2l "4"); CNum (s2l "6")] ].
Proof. vm_compute. reflexivity. Qed.

Print Assumptions C07_numpy_engine_rect.
Print Assumptions C07_normal_engine_rect.
Print Assumptions C07_engine_rect.
Print Assumptions C07_read_rectangular.
Print Assumptions C07_read_one_data_shape.
(* ==== END block "read level" (audit D2) ========================================================= *)
