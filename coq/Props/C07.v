(* Props.C07 — placeholder; theorems are being added. *)
Require Import PyStr DataRead.
