(* Props.C07 — curves are rectangular and bound to their own column.
   Statements only; proofs in Proofs/DataReadProofs.v and Proofs/ItemsBindProofs.v.

   Reading.  The normal engine flattens all tokens of the data section (normal_items),
   reshapes the flat array by the column count (reshape = np.reshape(arr, (-1, n))) and
   yields the columns of the result (transpose_n); las.py then binds column j to curve j
   (Model/Read.v bind_columns: declared curves in order, one new unnamed curve per surplus
   column) and gives every curve without a column a NaN column of the common length
   (data_for_curves).  rows : list of data lines, each the list of its tokens.

   Proved at full strength (unbounded numbers of rows r, columns c and declared curves d):
     C07_reshape_rows         reshaping the concatenation of rows of n tokens gives back
                              exactly those rows (no shift, whatever r is);
     C07_transpose_nth        column j of the transposed matrix is [row_0[j]; row_1[j]; ...]:
                              value j of data line i is element i of column j; there are
                              exactly n columns, each with one element per row;
     C07_bind_length          after binding there are max d c curves;
     C07_bind_declared_frame  the declared curves keep their order and their metadata
                              (original mnemonic, unit, value, description); what follows
                              them is (c - d) copies of the unnamed curve.  Only SESSION
                              mnemonics may change (duplicate suffixes ":1", ":2" among
                              the unnamed/UNKNOWN ones);
     C07_bind_declared        per position: curve j < d of the result is declared curve j;
     C07_bind_new_unnamed     per position: curve j, d <= j < c, has empty original
                              mnemonic, unit, value and description;
     C07_data_columns         the data array has one column per curve; column j < c is data
                              column j itself (never shifted, merged or reordered); column
                              j >= c is NaN of the common length;
     C07_rectangular          all columns of the data array have the common length
                              (both forms: stated with curve_length, and for a given r);
     C07_normal_engine_binds  the normal engine on a body whose data lines each split into
                              exactly c float tokens returns, as column j, the numeric cells (mk_num) of
                              [row_0[j]; row_1[j]; ...] (Proofs/DataReadProofs.v
                              normal_engine_rows; line_items = what one physical line
                              contributes after strip / comment test / substitutions / ^Z
                              removal / splitting).
   Outside these statements: WRAP=YES bodies (Model: same normal_items, the claim is made
   for c = d only, see DESIGN.md), and the sniffing of c (C02_sniff).  No oracle assumption
   except is_float_tok (= float(tok) succeeds) in C07_normal_engine_binds. *)
From Coq Require Import List NArith Bool String.
Import ListNotations.
Require Import PyStr Num SectionParse DataRead Read DataReadProofs ItemsBindProofs.
Open Scope string_scope.
Open Scope list_scope.

Theorem C07_reshape_rows : forall n (rows : list (list (list N))),
  (0 < n)%nat -> Forall (fun r => List.length r = n) rows ->
  reshape n (List.concat rows) = Some rows.
Proof. exact reshape_concat. Qed.

Theorem C07_transpose_nth : forall n (rows : list (list (list N))),
  List.length (transpose_n n rows) = n /\
  forall j, (j < n)%nat ->
    nth j (transpose_n n rows) [] = map (fun r => nth j r []) rows /\
    List.length (nth j (transpose_n n rows) []) = List.length rows.
Proof.
  intros n rows. split; [apply transpose_n_length|].
  intros j Hj. split; [apply transpose_n_nth; exact Hj|apply transpose_n_col_length; exact Hj].
Qed.

Theorem C07_bind_length : forall tr curves (cols : list (list cell)),
  List.length (bind_columns tr curves 0 cols) = Nat.max (List.length curves) (List.length cols).
Proof. exact bind_columns_length. Qed.

Theorem C07_bind_declared_frame : forall tr curves (cols : list (list cell)),
  map meta (bind_columns tr curves 0 cols) =
  map meta curves ++ repeat (meta (new_item [] [] (VStr []) [])) (List.length cols - List.length curves).
Proof. exact bind_columns_meta. Qed.

Theorem C07_bind_declared : forall tr curves (cols : list (list cell)) j it,
  nth_error curves j = Some it ->
  exists it', nth_error (bind_columns tr curves 0 cols) j = Some it' /\
    i_orig it' = i_orig it /\ i_unit it' = i_unit it /\ i_value it' = i_value it /\ i_descr it' = i_descr it.
Proof.
  intros tr curves cols j it Hj. destruct (bind_columns_declared tr curves cols j it Hj) as (it' & H1 & H2).
  exists it'. split; [exact H1|]. unfold meta in H2. injection H2 as E1 E2 E3 E4. auto.
Qed.

Theorem C07_bind_new_unnamed : forall tr curves (cols : list (list cell)) j,
  (List.length curves <= j < List.length cols)%nat ->
  exists it', nth_error (bind_columns tr curves 0 cols) j = Some it' /\
    i_orig it' = [] /\ i_unit it' = [] /\ i_value it' = VStr [] /\ i_descr it' = [].
Proof. exact bind_columns_new_unnamed. Qed.

Theorem C07_data_columns : forall n (cols : list (list cell)),
  (List.length cols <= n)%nat ->
  List.length (data_for_curves n cols) = n /\
  (forall j, (j < List.length cols)%nat -> nth j (data_for_curves n cols) [] = nth j cols []) /\
  (forall j, (List.length cols <= j < n)%nat ->
     nth j (data_for_curves n cols) [] = nan_column (curve_length cols)) /\
  (forall r, cols <> [] -> Forall (fun c => List.length c = r) cols -> curve_length cols = r).
Proof.
  intros n cols Hle. split; [apply data_for_curves_length; exact Hle|].
  split; [intros j; apply data_for_curves_own|].
  split; [intros j; apply data_for_curves_nan|].
  intros r. apply curve_length_common.
Qed.

Theorem C07_rectangular : forall n (cols : list (list cell)),
  (Forall (fun c => List.length c = curve_length cols) cols ->
   Forall (fun c => List.length c = curve_length cols) (data_for_curves n cols)) /\
  (forall r, cols <> [] -> Forall (fun c => List.length c = r) cols ->
   Forall (fun c => List.length c = r) (data_for_curves n cols)).
Proof.
  intros n cols. split; [apply data_for_curves_rect|].
  intros r. apply data_for_curves_rect_r.
Qed.

(* the normal engine binds value j of data line i to element i of column j *)
Theorem C07_normal_engine_binds : forall fhex fstr d subs c body,
  (0 < c)%nat ->
  Forall (fun raw => line_items d subs raw = [] \/ List.length (line_items d subs raw) = c) body ->
  filter nonempty (map (line_items d subs) body) <> [] ->
  forallb (forallb (is_float_tok fhex)) (map (line_items d subs) body) = true ->
  let rows := filter nonempty (map (line_items d subs) body) in
  exists cols, normal_engine fhex fstr d subs c body = DOk cols /\ List.length cols = c /\
    forall j, (j < c)%nat -> nth j cols [] = map (mk_num fhex) (map (fun r => nth j r []) rows).
Proof.
  intros fhex fstr d subs c body Hc Hall Hne Hfl rows.
  exists (map (map (mk_num fhex)) (transpose_n c rows)).
  split; [apply normal_engine_rows; assumption|].
  split; [rewrite map_length; apply transpose_n_length|].
  intros j Hj. rewrite <- (transpose_n_nth c rows j Hj).
  change (@nil cell) with (map (mk_num fhex) []). apply map_nth.
Qed.

(* non-vacuity: 3 data lines of 2 tokens carrying their coordinates, 3 declared curves
   (one more than columns) and 1 declared curve (one fewer) *)
Definition ex_rows : list (list (list N)) :=
  [ [s2l "100"; s2l "101"]; [s2l "200"; s2l "201"]; [s2l "300"; s2l "301"] ].
Example C07_ex_rows : (0 < 2)%nat /\ Forall (fun r => List.length r = 2%nat) ex_rows.
Proof. split; [repeat constructor|repeat constructor]. Qed.
Example C07_ex_reshape : reshape 2 (List.concat ex_rows) = Some ex_rows.
Proof. vm_compute. reflexivity. Qed.
Example C07_ex_transpose :
  transpose_n 2 ex_rows = [ [s2l "100"; s2l "200"; s2l "300"]; [s2l "101"; s2l "201"; s2l "301"] ].
Proof. vm_compute. reflexivity. Qed.

Definition ex_curve (m : string) : hitem := new_item (s2l m) (s2l "M") (VStr []) (s2l "d").
Definition ex_cols : list (list cell) := map (map CNum) (transpose_n 2 ex_rows).
Example C07_ex_bind_fewer :
  map i_sess (bind_columns false [ex_curve "DEPT"] 0 ex_cols) = [s2l "DEPT"; s2l "UNKNOWN"].
Proof. vm_compute. reflexivity. Qed.
Example C07_ex_bind_more :
  map i_sess (bind_columns false [ex_curve "DEPT"; ex_curve "A"; ex_curve "B"] 0 ex_cols)
  = [s2l "DEPT"; s2l "A"; s2l "B"].
Proof. vm_compute. reflexivity. Qed.
Example C07_ex_data :
  data_for_curves 3 ex_cols = ex_cols ++ [[CNaN; CNaN; CNaN]] /\ ex_cols <> [] /\
  Forall (fun c => List.length c = 3%nat) ex_cols /\ (List.length ex_cols <= 3)%nat.
Proof. split; [vm_compute; reflexivity|]. split; [discriminate|]. split; vm_compute; repeat constructor. Qed.

(* a comma-delimited body with a blank line and a comment line; d = 2 *)
Definition ex_fhex (t : list N) : option (list N) :=
  match NumLit.py_float_dec t with Some _ => Some t | None => None end.
Definition ex_body : list (list N) :=
  [ s2l "100,101" ++ [10]; [10]; s2l "#c" ++ [10]; s2l "200,201" ++ [10]; s2l "300,301" ].
Example C07_ex_engine_hyps :
  Forall (fun raw => line_items DComma comma_delim_subs raw = [] \/
                     List.length (line_items DComma comma_delim_subs raw) = 2%nat) ex_body /\
  filter nonempty (map (line_items DComma comma_delim_subs) ex_body) = ex_rows /\
  forallb (forallb (is_float_tok ex_fhex)) (map (line_items DComma comma_delim_subs) ex_body) = true.
Proof.
  split; [|split; vm_compute; reflexivity].
  repeat (apply Forall_cons; [vm_compute; auto|]). apply Forall_nil.
Qed.
Example C07_ex_engine :
  normal_engine ex_fhex (fun t => t) DComma comma_delim_subs 2 ex_body = DOk ex_cols.
Proof. vm_compute. reflexivity. Qed.

Print Assumptions C07_reshape_rows.
Print Assumptions C07_transpose_nth.
Print Assumptions C07_bind_length.
Print Assumptions C07_bind_declared_frame.
Print Assumptions C07_bind_declared.
Print Assumptions C07_bind_new_unnamed.
Print Assumptions C07_data_columns.
Print Assumptions C07_rectangular.
Print Assumptions C07_normal_engine_binds.

(* ---- the binding of columns to curves is the Python's ------------------------------------------------
   bind_columns / data_for_curves (and the NULL replacement before them) equal the block of LASFile.read
   from `data_assigned_to_curves = {...}` to the end of the data-section loop, and the number of columns the
   normal engine is asked for equals the `reader_n_columns` decision, both re-translated on every run from
   /repo (py_bind_columns, py_reader_n_columns in Gen/Funcs.v); see Proofs/FuncsPinBind.v for the reading of
   the numpy operations (bind_rops). *)
From Coq Require Import ZArith.
Require Import Funcs FuncsPinBind.
Theorem C07_bind_current : forall numeq tr strict pn items datas cols L,
  List.length datas = List.length items ->
  (forall c, In c cols -> List.length c = L) ->
  py_bind_columns (bind_rops numeq tr) (combine items datas) cols strict pn
  = Some (let cols' := null_columns (nulleq numeq pn) strict 0 cols in
          let items' := bind_columns tr items 0 cols' in
          combine items' (data_for_curves (List.length items') cols')).
Proof. exact bind_pin. Qed.
Theorem C07_n_columns_current : forall (C : Type) sniffed (curves : list C) wrap_in_version wrap_is_yes,
  py_reader_n_columns (sniffed_z sniffed) curves wrap_in_version wrap_is_yes
  = Z.of_nat (match sniffed with
              | None => List.length curves
              | Some n => if (wrap_in_version && wrap_is_yes) && Nat.ltb n (List.length curves)
                          then List.length curves else n
              end).
Proof. exact n_columns_pin. Qed.
(* the hypotheses of C07_bind_current are met: two curves, three columns of two samples *)
Example C07_bind_current_nonvacuous :
  let cols := [[CNum [49]; CNum [50]]; [CNum [51]; CNaN]; [CStr [97]; CStr [98]]] in
  List.length ([[]; []] : list (list cell)) = 2%nat /\ (forall c, In c cols -> List.length c = 2%nat).
Proof. split; [reflexivity|]. intros c [<-|[<-|[<-|[]]]]; reflexivity. Qed.
Print Assumptions C07_bind_current.
Print Assumptions C07_n_columns_current.
