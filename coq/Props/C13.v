(* Props.C13 — duplicate and blank mnemonics: unique session names, originals preserved.
   Statements only; proofs in Proofs/ItemsInvProofs.v; model Model/Items.v, spec Model/ItemsSpec.v.

   Reading.  State = a section (items + mnemonic_transforms flag); operations = op (append,
   insert, delete by key/index, replace by key/index, plain value assignment, get(add=True)),
   items always freshly constructed (make); an operation that raises leaves the state alone
   (step).  Inv = I1 (session names pairwise distinct under the section's comparison) /\
   I2 (every item is found under its own session name and that lookup resolves to its own
   position) /\ I3 (a session name is the useful mnemonic -- UNKNOWN for a blank original --
   optionally followed by ":<k>").  I4 "the original is never altered" is a property of
   steps: C13_orig_frame_*.

   FULL STATEMENT (I1 for every operation sequence) IS FALSE: C13_I1_refuted, witness
   append A, append A, append "A:1"  ->  A:1, A:2, A:1.  For that multiset the statement's own
   clauses (number the duplicates :1..:n / leave unique names untouched / pairwise distinct)
   cannot all hold; this is the known finding "suffix-clash".  What is proved
   (C13_*_partial) excludes that class by the hypothesis no_suffix_clash: among the
   mnemonics in play none is literally the useful form of another (or of itself) followed by
   a generated suffix ":<k>", FOR ANY k.  This hypothesis is a SUPERSET of the clash class
   (audit C6), not exactly it: it also rejects harmless histories in which the literal suffix
   can never be generated -- append A, A:7, B, B has keys A, A:7, B:1, B:2, every clause of the
   statement holds, yet no_suffix_clash fails (C13_ex_clash_superset) and the _partial
   theorems are silent there.  Bounding k by the reachable size of the group of u would
   tighten it; that is not done.  Otherwise nothing is missing: the theorems hold for
   operation sequences of any length, sections of any size, both comparison modes.
   WHICH suffix an item carries is fixed by C13_numbering_insert / _append / _replace /
   _delete / _assign_all and, on histories without delete / replace, by the closed form
   C13_keys_closed_form_partial (block D8 at the end of the file).

   Not expressible here: object aliasing (the same item object inserted twice, or living in
   two sections) -- the model has value semantics; and renaming an item that is inside a
   section (item.mnemonic = ...), which lasio does not re-suffix and the statement does not
   list among its operations. *)
From Coq Require Import List NArith ZArith Bool String.
Import ListNotations.
Require Import PyStr Items ItemsSpec ItemsProofs ItemsInvProofs.
Open Scope N_scope.

(* ---- the invariant ------------------------------------------------------------------- *)
Theorem C13_inv_init : forall tr, Inv (empty_section tr).
Proof. exact inv_empty. Qed.

Theorem C13_inv_step_partial : forall s o,
  Inv s -> no_suffix_clash (transforms s) (origs s ++ op_names o) -> Inv (step s o).
Proof. exact inv_step. Qed.

(* every operation sequence, of any length, from the empty section ... *)
Theorem C13_reachable_partial : forall tr ops,
  no_suffix_clash tr (flat_map op_names ops) -> Inv (fold_left step ops (empty_section tr)).
Proof. exact inv_reachable. Qed.

(* ... and from any section satisfying the invariant (e.g. one that was read from a file) *)
Theorem C13_reachable_from_partial : forall s ops,
  Inv s -> no_suffix_clash (transforms s) (origs s ++ flat_map op_names ops) -> Inv (fold_left step ops s).
Proof. exact inv_reachable_from. Qed.

(* without the exclusion the statement is false *)
Definition hdr (m : string) : item_args := mkArgs false (s2l m) [] [] [] none_data.
Theorem C13_I1_refuted : exists tr ops, ~ I1 (fold_left step ops (empty_section tr)).
Proof.
  exists false, [OpAppend (hdr "A"); OpAppend (hdr "A"); OpAppend (hdr "A:1")].
  intro H. specialize (H 0%nat 2%nat). vm_compute in H.
  specialize (H _ _ ltac:(discriminate) eq_refl eq_refl). discriminate.
Qed.
(* the same with case normalisation and a case variant of the literal *)
Theorem C13_I1_refuted_transforms : exists ops, ~ I1 (fold_left step ops (empty_section true)).
Proof.
  exists [OpAppend (hdr "A"); OpAppend (hdr "a"); OpAppend (hdr "a:1")].
  intro H. specialize (H 0%nat 2%nat). vm_compute in H.
  specialize (H _ _ ltac:(discriminate) eq_refl eq_refl). discriminate.
Qed.
(* the pinned tree (before ba403c6): replacing an item never re-suffixed, I1 fails with no clash *)
Theorem C13_replace_refuted_prefix :
  exists s it, Inv s /\ no_suffix_clash false (origs s ++ [orig it]) /\ sess it = useful it /\
               exists s', set_item_prefix s (KStr (s2l "B")) it = IOk s' /\ ~ I1 s'.
Proof.
  exists (fold_left step [OpAppend (hdr "A"); OpAppend (hdr "B")] (empty_section false)), (make (hdr "A")).
  split; [|split; [|split]].
  - apply C13_reachable_partial. apply colon_free_no_clash. reflexivity.
  - apply colon_free_no_clash. reflexivity.
  - reflexivity.
  - eexists. split; [vm_compute; reflexivity|].
    intro H. specialize (H 0%nat 1%nat). vm_compute in H.
    specialize (H _ _ ltac:(discriminate) eq_refl eq_refl). discriminate.
Qed.

(* I2 spelled out: item access and attribute access resolve a session name to its own item *)
Theorem C13_resolves : forall class_attrs s n it,
  Inv s -> nth_error (items s) n = Some it ->
  lookup_ix s (KStr (sess it)) = IOk n /\ getitem s (KStr (sess it)) = IOk it /\
  (existsb (str_eqb (sess it)) class_attrs = false -> str_eqb (sess it) s_mnemonic_transforms = false ->
   py_getattr class_attrs s (sess it) = IOk (AttrItem it)).
Proof. exact inv_resolves. Qed.

(* I3 for blank originals: they appear as UNKNOWN (or UNKNOWN:<k>) *)
Theorem C13_blank_unknown : forall s it,
  Inv s -> In it (items s) -> is_blank (orig it) = true ->
  sess it = s_UNKNOWN \/ exists k, sess it = s_UNKNOWN ++ suffix k.
Proof. exact inv_blank_unknown. Qed.

(* ---- numbering after an insertion ------------------------------------------------------ *)
(* After insert(i, x) / append(x): position n of the section holds the item the plain list
   insertion put there, all fields but the session name unchanged, and its session name is
   `numbered`: if it belongs to the group of x (useful mnemonics match) and that group has more
   than one member it is <useful>:<rank+1>, rank = number of group members before it; every
   other item -- and a group of one -- keeps the session name it had. *)
Theorem C13_numbering_insert : forall s i a n it',
  nth_error (items (insert s i (make a))) n = Some it' ->
  exists it, nth_error (py_insert i (make a) (items s)) n = Some it /\ payload it' = payload it /\
             sess it' = numbered (transforms s) (useful (make a)) (py_insert i (make a) (items s)) n it.
Proof. exact numbering_insert. Qed.

Theorem C13_numbering_append : forall s a n it',
  nth_error (items (append s (make a))) n = Some it' ->
  exists it, nth_error (items s ++ [make a]) n = Some it /\ payload it' = payload it /\
             sess it' = numbered (transforms s) (useful (make a)) (items s ++ [make a]) n it.
Proof. exact numbering_append. Qed.

(* the ranks of the members of a group are 0 .. count-1, strictly increasing in section order:
   the numbers are :1 .. :n *)
Theorem C13_numbering_order : forall tr t l i j a b,
  (i < j)%nat -> nth_error l i = Some a -> nth_error l j = Some b ->
  in_group tr t a = true -> in_group tr t b = true ->
  (rank tr t l i < rank tr t l j < group_count tr t l)%nat.
Proof. exact numbering_order. Qed.

(* ---- I4: originals are never altered --------------------------------------------------- *)
Theorem C13_orig_frame_append : forall s it, origs (append s it) = origs s ++ [orig it].
Proof. exact origs_append. Qed.
Theorem C13_orig_frame_insert : forall s i it, origs (insert s i it) = py_insert i (orig it) (origs s).
Proof. exact origs_insert. Qed.
Theorem C13_orig_frame_delete : forall s k s', delitem s k = IOk s' ->
  exists n, lookup_ix s k = IOk n /\ origs s' = remove_at n (origs s).
Proof. exact origs_delitem. Qed.
Theorem C13_orig_frame_replace : forall s k it s', set_item s k it = IOk s' ->
  (exists n, (n < List.length (items s))%nat /\ origs s' = replace_at n (orig it) (origs s))
  \/ origs s' = origs s ++ [orig it].
Proof. exact origs_set_item. Qed.
Theorem C13_orig_frame_value : forall s k v s', set_item_value s k v = IOk s' -> origs s' = origs s.
Proof. exact origs_set_value. Qed.
Theorem C13_orig_frame : forall s o, incl (origs (step s o)) (origs s ++ op_names o).
Proof. exact origs_step_incl. Qed.

(* ---- reading and the round trip --------------------------------------------------------- *)
(* reading a section = appending its items in file order.  Closed form of the session names:
   a mnemonic whose group (matching useful mnemonics) has one member keeps its useful form,
   otherwise it is <useful>:<position within the group>; the originals are the file's. *)
Theorem C13_read_names : forall tr l,
  keys (read_section tr l) = spec_keys tr (List.map a_mnem l) /\ origs (read_section tr l) = List.map a_mnem l.
Proof. exact read_names. Qed.

(* PREMISE (not proved here): the second file's mnemonics l2 ARE the originals of the first read, i.e. write()
   emitted `original_mnemonic` for every item and those lines parsed back to the same names -- that is the business
   of the writer model / C03's round trip (Props/C03.v) and of the correspondence, and it is the hypothesis
   `List.map a_mnem l2 = origs (read_section tr l)` below.  CONCLUSION: under that premise reading l2 assigns the
   same session names and the same originals again. *)
Theorem C13_roundtrip_names : forall tr l l2,
  List.map a_mnem l2 = origs (read_section tr l) ->
  keys (read_section tr l2) = keys (read_section tr l) /\ origs (read_section tr l2) = origs (read_section tr l).
Proof. exact roundtrip_names. Qed.

(* ---- non-vacuity ------------------------------------------------------------------------- *)
Definition ex_ops : list op :=
  [OpAppend (hdr "A"); OpAppend (hdr "a"); OpInsert 0 (hdr ""); OpAppend (hdr "A"); OpInsert (-1) (hdr " ");
   OpDelete (KStr (s2l "A:1")); OpReplace (KInt 0) (hdr "B"); OpReplace (KStr (s2l "a")) (hdr "A");
   OpGetAdd (s2l "B") (s2l "d"); OpSetValue (KInt (-1)) (s2l "v"); OpDelete (KInt 9)].
Example C13_ex_hypothesis : no_suffix_clash true (flat_map op_names ex_ops) /\ no_suffix_clash false (flat_map op_names ex_ops).
Proof. split; apply colon_free_no_clash; reflexivity. Qed.
Example C13_ex_keys_preserve :
  keys (fold_left step ex_ops (empty_section false)) = [s2l "B"; s2l "A:1"; s2l "UNKNOWN:2"; s2l "A:2"].
Proof. vm_compute. reflexivity. Qed.
Example C13_ex_keys_transforms :
  keys (fold_left step ex_ops (empty_section true)) = [s2l "B"; s2l "a:1"; s2l "UNKNOWN:2"; s2l "A:2"; s2l "A:3"].
Proof. vm_compute. reflexivity. Qed.
Example C13_ex_inv : Inv (fold_left step ex_ops (empty_section true)).
Proof. apply C13_reachable_partial. apply (proj1 C13_ex_hypothesis). Qed.
Example C13_ex_read :
  keys (read_section true [hdr "A"; hdr ""; hdr "a"; hdr "B"; hdr " "; hdr "A"])
  = [s2l "A:1"; s2l "UNKNOWN:1"; s2l "a:2"; s2l "B"; s2l "UNKNOWN:2"; s2l "A:3"].
Proof. vm_compute. reflexivity. Qed.
Example C13_ex_numbered :
  List.map sess (items (insert (read_section false [hdr "A"; hdr "B"; hdr "A"]) 1 (make (hdr "A"))))
  = [s2l "A:1"; s2l "A:2"; s2l "B"; s2l "A:3"].
Proof. vm_compute. reflexivity. Qed.
(* a literal "A:1" alone is harmless and allowed by the hypothesis (it only excludes it next to A) *)
Example C13_ex_literal_alone : no_suffix_clash false [s2l "A:1"; s2l "B"].
Proof.
  intros a b k Ha Hb. simpl in Ha, Hb.
  destruct Ha as [Ha|[Ha|[]]]; destruct Hb as [Hb|[Hb|[]]]; subst; reflexivity.
Qed.

Print Assumptions C13_inv_init.
Print Assumptions C13_inv_step_partial.
Print Assumptions C13_reachable_partial.
Print Assumptions C13_reachable_from_partial.
Print Assumptions C13_I1_refuted.
Print Assumptions C13_I1_refuted_transforms.
Print Assumptions C13_replace_refuted_prefix.
Print Assumptions C13_resolves.
Print Assumptions C13_blank_unknown.
Print Assumptions C13_numbering_insert.
Print Assumptions C13_numbering_append.
Print Assumptions C13_numbering_order.
Print Assumptions C13_orig_frame_append.
Print Assumptions C13_orig_frame_insert.
Print Assumptions C13_orig_frame_delete.
Print Assumptions C13_orig_frame_replace.
Print Assumptions C13_orig_frame_value.
Print Assumptions C13_orig_frame.
Print Assumptions C13_read_names.
Print Assumptions C13_roundtrip_names.

(* ---- useful mnemonic and mnemonic comparison are the Python's ---------------------------------
   useful_of / mnemonic_compare equal the definitions re-translated on every run from
   HeaderItem.useful_mnemonic and SectionItems.mnemonic_compare (translators/funcs.py ->
   Gen/Funcs.v). *)
Require Import Funcs FuncsPinItems.
Theorem C13_useful_current : forall orig, Items.useful_of orig = py_useful_mnemonic orig.
Proof. exact useful_of_pin. Qed.
Theorem C13_compare_current : forall transforms one two,
  Items.mnemonic_compare transforms one two = py_mnemonic_compare transforms one two.
Proof. exact mnemonic_compare_pin. Qed.
Print Assumptions C13_useful_current.
Print Assumptions C13_compare_current.

(* ---- the renumbering and the list-changing methods are the Python's -----------------------------------
   assign_suffixes, append, insert and set_item (str key) equal SectionItems.assign_duplicate_suffixes (called
   with a mnemonic), append, insert and set_item, re-translated on every run from /repo as functions from the
   item list to the item list (translators/funcs.py -> Gen/Funcs.v; MutatorTr): which items are renumbered,
   with which suffix, in which order, and that every insertion / replacement re-numbers the group of the new
   item.  pitem_of shows a model item as the object the translated code reads; ":%d" % n is read as
   Items.nat_dec (int_dec).  Not covered: assign_duplicate_suffixes(None) (iterates a set), int keys. *)
Require Import FuncsPinSection FuncsPinMutators.
Theorem C13_assign_current : forall s t,
  py_assign_duplicate_suffixes int_dec (transforms s) (List.map pitem_of (items s)) t
  = Some (List.map pitem_of (items (assign_suffixes t s))).
Proof. exact assign_pin. Qed.
Theorem C13_append_current : forall s it,
  py_section_append int_dec (transforms s) (List.map pitem_of (items s)) (pitem_of it)
  = Some (List.map pitem_of (items (append s it))).
Proof. exact append_pin. Qed.
Theorem C13_insert_current : forall s i it,
  py_section_insert int_dec (transforms s) (List.map pitem_of (items s)) i (pitem_of it)
  = Some (List.map pitem_of (items (insert s i it))).
Proof. exact insert_pin. Qed.
Theorem C13_set_item_current : forall s m it,
  py_section_set_item int_dec (transforms s) (List.map pitem_of (items s)) m (pitem_of it)
  = ires_items (set_item s (KStr m) it).
Proof. exact set_item_pin. Qed.
Print Assumptions C13_assign_current.
Print Assumptions C13_append_current.
Print Assumptions C13_insert_current.
Print Assumptions C13_set_item_current.

(* ==== BEGIN block (audit D8 / C6): which suffix -- numbering after replace / delete / assign_all, closed form of the
   session names on histories; no_suffix_clash is a superset of the clash class ==== *)
Require Import KeysClosedForm.
Open Scope N_scope.

(* ---- numbering after a replacement: as after an insertion, for the list with position p replaced ----------
   s[k] = item replaces the first item whose session name matches k (or position k for an int key) and re-numbers
   the group of the NEW item; an absent str key appends.  The group the replaced item belonged to is NOT re-numbered
   (its members keep their suffixes: C13_ex_replace_stale). *)
Theorem C13_numbering_replace : forall s k a s', set_item s k (make a) = IOk s' ->
  (exists p, (p < List.length (items s))%nat /\
     forall n it', nth_error (items s') n = Some it' ->
       exists it, nth_error (replace_at p (make a) (items s)) n = Some it /\ payload it' = payload it /\
                  sess it' = numbered (transforms s) (useful (make a)) (replace_at p (make a) (items s)) n it)
  \/ s' = append s (make a).
Proof. exact numbering_replace. Qed.

(* ---- deletion never re-numbers: the remaining session names are the old ones (stale suffixes stay; the statement
   asks for numbering "after each insertion" only) *)
Theorem C13_numbering_delete : forall s k s', delitem s k = IOk s' ->
  exists p, lookup_ix s k = IOk p /\ items s' = remove_at p (items s) /\ keys s' = remove_at p (keys s).
Proof. exact numbering_delete. Qed.

(* ---- assign_duplicate_suffixes(None) (what set_data runs after renaming every curve): on items whose session
   name is the useful mnemonic the result is the closed form of the names; payloads untouched *)
Theorem C13_numbering_assign_all : forall s, (forall it, In it (items s) -> sess it = useful it) ->
  keys (assign_all s) = spec_keys (transforms s) (origs s) /\ origs (assign_all s) = origs s /\
  List.map payload (items (assign_all s)) = List.map payload (items s).
Proof. exact numbering_assign_all. Qed.

(* ... and it is the identity on the session names of a section that is already in closed form *)
Theorem C13_numbering_assign_all_canon : forall s, keys s = spec_keys (transforms s) (origs s) ->
  keys (assign_all s) = spec_keys (transforms s) (origs s).
Proof. exact numbering_assign_all_canon. Qed.

(* ---- closed form of the session names on histories -----------------------------------------------------------
   spec_keys tr names: a name whose group (matching useful mnemonics) has one member shows its useful form (UNKNOWN
   for a blank), the j-th member of a larger group shows <useful>:<j>.  It is a function of the ORIGINAL names
   alone.  It holds after every history of append / insert / get(add=True) / plain value assignment from the empty
   section -- with NO exclusion (no_suffix_clash is not needed: with A, A, "A:1" both sides are A:1, A:2, A:1).
   PARTIAL: delete and replace are excluded, and must be: they do not re-number the group they take a member from
   (C13_ex_delete_stale), so after them the session names are no function of the names alone. *)
Theorem C13_keys_closed_form_partial : forall ops tr, forallb igrows ops = true ->
  let s := fold_left step ops (empty_section tr) in keys s = spec_keys tr (origs s).
Proof. exact items_keys_closed_form. Qed.

(* the closed form is kept by inserting a fresh item anywhere *)
Theorem C13_closed_form_insert : forall tr names s i x, canon tr names s -> sess x = useful x ->
  canon tr (py_insert i (orig x) names) (insert s i x).
Proof. exact canon_insert. Qed.

Theorem C13_closed_form_keys : forall tr names s, canon tr names s -> keys s = spec_keys tr names.
Proof. exact canon_keys. Qed.

(* ---- non-vacuity ----------------------------------------------------------------------------------------------- *)
Definition ex_grow : list op :=
  [OpAppend (hdr "A"); OpAppend (hdr "B"); OpInsert 0 (hdr "a"); OpGetAdd (s2l "C") (s2l "d"); OpInsert 1 (hdr "");
   OpSetValue (KInt 0) (s2l "v"); OpAppend (hdr " "); OpInsert (-1) (hdr "A"); OpAppend (hdr "A:1")].
Example C13_ex_closed_form :
  forallb igrows ex_grow = true /\
  keys (fold_left step ex_grow (empty_section true))
  = [s2l "a:1"; s2l "UNKNOWN:1"; s2l "A:2"; s2l "B"; s2l "C"; s2l "A:3"; s2l "UNKNOWN:2"; s2l "A:1"] /\
  spec_keys true (origs (fold_left step ex_grow (empty_section true)))
  = keys (fold_left step ex_grow (empty_section true)) /\
  ~ no_suffix_clash true (flat_map op_names ex_grow).
Proof.
  split; [reflexivity|]. split; [vm_compute; reflexivity|]. split; [vm_compute; reflexivity|].
  intro H. specialize (H (s2l "A") (s2l "A:1") 1%nat). vm_compute in H.
  specialize (H ltac:(tauto) ltac:(tauto)). discriminate.
Qed.
(* deletion leaves a stale suffix: A, A -> A:1, A:2; del A:1 -> [A:2], the closed form of [A] is [A] *)
Example C13_ex_delete_stale :
  let s := fold_left step [OpAppend (hdr "A"); OpAppend (hdr "A"); OpDelete (KStr (s2l "A:1"))] (empty_section false) in
  keys s = [s2l "A:2"] /\ spec_keys false (origs s) = [s2l "A"].
Proof. vm_compute. split; reflexivity. Qed.
(* replacement re-numbers the group of the new item only: A:1, A:2, B; s["A:1"] = B' -> B:1, A:2, B:2 *)
Example C13_ex_replace_stale :
  let s := fold_left step [OpAppend (hdr "A"); OpAppend (hdr "A"); OpAppend (hdr "B"); OpReplace (KStr (s2l "A:1")) (hdr "B")]
                     (empty_section false) in
  keys s = [s2l "B:1"; s2l "A:2"; s2l "B:2"] /\ spec_keys false (origs s) = [s2l "B:1"; s2l "A"; s2l "B:2"].
Proof. vm_compute. split; reflexivity. Qed.
Example C13_ex_numbering_replace :
  exists s', set_item (read_section false [hdr "A"; hdr "B"; hdr "A"]) (KStr (s2l "B")) (make (hdr "A")) = IOk s' /\
             keys s' = [s2l "A:1"; s2l "A:2"; s2l "A:3"].
Proof. eexists. split; vm_compute; reflexivity. Qed.
Example C13_ex_assign_all :
  keys (assign_all (mkSection [make (hdr "A"); make (hdr ""); make (hdr "A"); make (hdr "B")] false))
  = [s2l "A:1"; s2l "UNKNOWN"; s2l "A:2"; s2l "B"].
Proof. vm_compute. reflexivity. Qed.

(* no_suffix_clash is a SUPERSET of the clash class (audit C6): it fails for A, A:7, B, B although every clause
   of the statement holds there (keys A, A:7, B:1, B:2 are pairwise distinct) -- the _partial theorems are silent
   on such harmless histories *)
Example C13_ex_clash_superset :
  let ops := [OpAppend (hdr "A"); OpAppend (hdr "A:7"); OpAppend (hdr "B"); OpAppend (hdr "B")] in
  ~ no_suffix_clash false (flat_map op_names ops) /\
  keys (fold_left step ops (empty_section false)) = [s2l "A"; s2l "A:7"; s2l "B:1"; s2l "B:2"] /\
  I1 (fold_left step ops (empty_section false)).
Proof.
  split; [|split].
  - intro H. specialize (H (s2l "A") (s2l "A:7") 7%nat). vm_compute in H.
    specialize (H ltac:(tauto) ltac:(tauto)). discriminate.
  - vm_compute. reflexivity.
  - apply I1_forms. unfold I1_nodup. vm_compute. repeat constructor; cbn; intuition discriminate.
Qed.

Print Assumptions C13_numbering_replace.
Print Assumptions C13_numbering_delete.
Print Assumptions C13_numbering_assign_all.
Print Assumptions C13_numbering_assign_all_canon.
Print Assumptions C13_keys_closed_form_partial.
Print Assumptions C13_closed_form_insert.
Print Assumptions C13_closed_form_keys.
(* ==== END block (audit D8 / C6) ==== *)
