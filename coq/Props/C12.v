(* Props.C12 — writer options change presentation only, never content (1.2 <-> 2.0 included).
   Statements only; the proofs are in Proofs/OrderTableProofs.v (the value/description order
   tables), Proofs/WriteOptionsProofs.v (write factors into a header part that sees only
   `version` and `wrap` and a data part), Proofs/WriteHeaderProofs.v (the item round trip
   of C03, used for the 1.2 <-> 2.0 statement) and Proofs/FilePresentation.v (the two texts
   read back, whole file).

   Reading.  R (W o1 x) ~ R (W o2 x) is split along the two halves of the file.
   HEADER.  write (Model/Writer.v) = write_sections (wo_version o) (wo_wrap o) (col_fmt o 0) m
   — steps 1-9:
   WRAP item, version, DLM SPACE and VERS substituted in a copy of ~Version, STRT/STOP/STEP refresh, unit
   alignment, standardize_value, the item lines of the four sections — followed by
   header_lines (wo_header_width o): the title lines "~Version -----" around those item lines,
   followed by write_data o: the ~ASCII line and the data lines (C12_write_factors).
   write_sections does not take the option record at all — only `version`, `wrap` and the
   numeric format of the index column (col_fmt o 0: STRT/STOP/STEP are printed with it; this is
   the "numeric formats have equal precision" proviso of the property, needed for the index
   column only) — so two configurations that agree on these three produce the same item lines
   and leave the same in-memory file
   (C12_header_independent_of_data_options, C12_state_independent_of_presentation); the item
   lines are section_lines of the sections of that file (C12_written_lines), which C03 reads
   back.  VERSION.  The order in which value and description are laid out is looked up by
   writer (order_of, keyed by the original mnemonic) and reader (order_for, keyed by the parsed,
   case-mapped name) in the SAME generated table (Gen/Tables.v, re-translated from
   lasio/defaults.py ORDER_DEFINITIONS on every run) in the same way
   (C12_order_tables_agree), the lookup does not depend on the reader's mnemonic_case
   (C12_order_case_insensitive), hence writer order = reader order (C12_order_symmetric) and an
   item written for 1.2 and read as 1.2 equals the item written for 2.0 and read as 2.0
   (C12_version_swap_meaning): the swap is on disk only (C12_swap_on_disk).

   The facts about the CONTENT of the table are boolean checks evaluated by the kernel on the
   generated literal (C12_table_checks): every (version, standard section) has an entry;
   every exception list gives a listed mnemonic the same order as its upper-cased form (so
   that looking up "strt", "STRT" or — after the fallback to upper() — "Strt" agree); ~Curves
   and ~Parameter are value-first without exceptions (the reader never consults the table
   there).  An edit of ORDER_DEFINITIONS that breaks one of them breaks the proof.

   PROVED AT FULL STRENGTH: C12_order_tables_agree, C12_order_case_insensitive,
   C12_order_symmetric (all versions, the four standard sections, all mnemonics, all three
   case options — F16's side condition on mixed-case mnemonics is not needed on the current
   tree: the reader falls back to name.upper() exactly as the writer does),
   C12_write_factors, C12_header_independent_of_data_options,
   C12_state_independent_of_presentation (every oracle, every in-memory file, every pair of
   option records), C12_version_swap_meaning (every conformant item, arbitrary widths).

   FILE LEVEL (second half of this file, proofs in Proofs/FilePresentation.v on top of the
   whole-file round trip Proofs/FileRoundTrip*.v): the two texts are READ BACK and compared.
   C12_file_presentation_independent — same version, same wrap, same numeric format per
   existing column, every other option free (len_numeric_field, lhs_spacer, spacer, data_width,
   header_width, data_section_header, mnemonics_header; fmt / column_fmt as long as col_fmt
   agrees): both reads succeed and return the SAME four header sections, ~Other text, custom
   sections and data.  C12_file_wrap_independent — wrap on against wrap off as well: everything
   equal but the WRAP item of ~Version.  C12_file_options_independent — any two option records
   with the same format per column (version 1.2 / 2.0 / None and wrap on / off / None free):
   equal ~Well, ~Curves, ~Parameter metadata, ~Other, data (NULL named at most once).
   Hypotheses: the decidable domain predicate file_hypsb of the file round trip (Props/C03.v
   C03_file_hypsb_ok) for each of the two writes.  Non-vacuity: C12_ex_file_domain ...
   C12_ex_file_computed (one object, four option records).

   NOT PROVED HERE: "numeric formats of equal precision" is taken as EQUAL format strings per
   column — that two different format strings print the same digits is a fact about the
   oracle fmtv (CPython's % formatting), left to the correspondence runs; VERS and WRAP
   themselves differ by construction (excluded by the property); that the ~Version items
   other than VERS and WRAP agree is proved when wrap differs (C12_file_wrap_independent), not
   when version differs (each text's ~Version is described by header_read_back).

   UNFOLDING LEMMAS (audit D10; proved by reflexivity, they spell a definition out and are NOT to be counted as
   property theorems): C12_same_content_options_unfold, C12_same_formats_unfold, C12_wrap_rel_unfold,
   C12_read_wrap_rel_unfold, C12_same_but_version_unfold.
   ORACLES: all theorems hold for arbitrary fmtv, fmt_diff, fmt_pi, fstr, fzero, numeq. *)
From Coq Require Import List NArith ZArith Bool String.
Import ListNotations.
Require Import PyStr Regex NumLit Num HeaderLine Tables SectionParse DataRead Read Writer.
Require Import HeaderLineSpec OrderTableProofs WriteHeaderProofs WriteOptionsProofs.
Open Scope string_scope. Open Scope list_scope. Open Scope N_scope.

(* 0. what the proofs need from the generated table, checked on the literal *)
Theorem C12_table_checks :
  table_complete_for order_definitions = true /\
  table_case_consistent_for order_definitions = true /\
  table_curves_param_plain_for order_definitions = true.
Proof. exact table_checks. Qed.

(* 1. writer and reader consult the same table in the same way *)
Theorem C12_order_tables_agree : forall v k m, is_std k = true ->
  order_of v (sect_table_name k) m = Some (order_for v k m).
Proof. exact order_tables_agree. Qed.

(* 2. the reader's mnemonic_case does not change the order *)
Theorem C12_order_case_insensitive : forall v k c m,
  order_for v k (apply_case c m) = order_for v k m.
Proof. exact order_case_insensitive. Qed.

Theorem C12_upper_facts : forall m,
  upper (upper m) = upper m /\ upper (lower m) = upper m.
Proof. exact upper_facts. Qed.

(* 1+2: the order the writer lays a line out in (keyed by the original mnemonic) is the order
   the reader applies to it (keyed by the case-mapped name; ~Curves / ~Parameter: value first) *)
Theorem C12_order_symmetric : forall v k c m, is_std k = true ->
  order_of v (sect_table_name k) m = Some (reader_order v k (apply_case c m)).
Proof. exact writer_order_is_reader_order. Qed.

Theorem C12_reader_order_is_build_item : forall fstr v k o name u it,
  o = reader_order v k name ->
  build_item v k (mkhl name u (rhs_text fstr o it) (tail_text fstr o it)) =
  new_item name (strip_brackets u) (read_value k name (vstr fstr (i_value it))) (i_descr it).
Proof. exact build_item_unswaps. Qed.

(* 3. write = header part (version, wrap) ; title lines (header_width) ; data part *)
Theorem C12_write_factors : forall fmtv fmt_diff fmt_pi fstr fzero numeq (o : wopts) (m : mlas),
  write fmtv fmt_diff fmt_pi fstr fzero numeq o m =
  match write_sections fmtv fmt_diff fstr fzero numeq (wo_version o) (wo_wrap o) (col_fmt o 0%nat) m with
  | None => WErr WKeyError
  | Some hs =>
      match write_data fmtv fmt_pi fstr o hs with
      | Some d => WOk (join [ch_nl] (header_lines (wo_header_width o) hs) ++ [ch_nl] ++ d)
                      (mkmlas (hs_las hs) (m_index_initial m))
      | None => WErr WKeyError
      end
  end.
Proof. exact write_factors. Qed.

Theorem C12_header_independent_of_data_options :
  forall fmtv fmt_diff fmt_pi fstr fzero numeq (o1 o2 : wopts) (m : mlas) t1 m1 t2 m2,
  wo_version o1 = wo_version o2 -> wo_wrap o1 = wo_wrap o2 -> col_fmt o1 0%nat = col_fmt o2 0%nat ->
  write fmtv fmt_diff fmt_pi fstr fzero numeq o1 m = WOk t1 m1 ->
  write fmtv fmt_diff fmt_pi fstr fzero numeq o2 m = WOk t2 m2 ->
  exists hs d1 d2,
    write_sections fmtv fmt_diff fstr fzero numeq (wo_version o1) (wo_wrap o1) (col_fmt o1 0%nat) m = Some hs /\
    t1 = join [ch_nl] (header_lines (wo_header_width o1) hs) ++ [ch_nl] ++ d1 /\
    t2 = join [ch_nl] (header_lines (wo_header_width o2) hs) ++ [ch_nl] ++ d2.
Proof. exact header_independent_of_data_options. Qed.

Theorem C12_header_text_independent :
  forall fmtv fmt_diff fmt_pi fstr fzero numeq (o1 o2 : wopts) (m : mlas) t1 m1 t2 m2,
  wo_version o1 = wo_version o2 -> wo_wrap o1 = wo_wrap o2 -> col_fmt o1 0%nat = col_fmt o2 0%nat ->
  wo_header_width o1 = wo_header_width o2 ->
  write fmtv fmt_diff fmt_pi fstr fzero numeq o1 m = WOk t1 m1 ->
  write fmtv fmt_diff fmt_pi fstr fzero numeq o2 m = WOk t2 m2 ->
  exists h d1 d2, t1 = h ++ [ch_nl] ++ d1 /\ t2 = h ++ [ch_nl] ++ d2.
Proof. exact header_text_independent. Qed.

Theorem C12_state_independent_of_presentation :
  forall fmtv fmt_diff fmt_pi fstr fzero numeq (o1 o2 : wopts) (m : mlas) t1 m1 t2 m2,
  wo_version o1 = wo_version o2 -> wo_wrap o1 = wo_wrap o2 -> col_fmt o1 0%nat = col_fmt o2 0%nat ->
  write fmtv fmt_diff fmt_pi fstr fzero numeq o1 m = WOk t1 m1 ->
  write fmtv fmt_diff fmt_pi fstr fzero numeq o2 m = WOk t2 m2 ->
  m1 = m2.
Proof. exact state_independent_of_presentation. Qed.

(* the item lines are section_lines of the sections of the file after the call *)
Theorem C12_written_lines : forall fmtv fmt_diff fstr fzero numeq ver wrapo ifmt m hs,
  write_sections fmtv fmt_diff fstr fzero numeq ver wrapo ifmt m = Some hs ->
  section_lines fstr (hs_version hs) (s2l "Version") (hs_vers_items hs) = Some (hs_lv hs) /\
  section_lines fstr (hs_version hs) (s2l "Well") (s_items (l_well (hs_las hs))) = Some (hs_lw hs) /\
  section_lines fstr (hs_version hs) (s2l "Curves") (s_items (l_curves (hs_las hs))) = Some (hs_lc hs) /\
  section_lines fstr (hs_version hs) (s2l "Parameter") (s_items (l_params (hs_las hs))) = Some (hs_lp hs).
Proof. exact write_sections_lines. Qed.

(* 4. 1.2 <-> 2.0: the same item written for v1 and read as v1, written for v2 and read as v2
   (widths arbitrary and possibly different: other items of the section may differ) *)
Theorem C12_version_swap_meaning : forall fstr k c it v1 v2 lw1 mw1 lw2 mw2, is_std k = true ->
  let o1 := sec_ord v1 (sect_table_name k) it in
  let o2 := sec_ord v2 (sect_table_name k) it in
  conf_item fstr k o1 lw1 mw1 it = true -> covers fstr o1 lw1 mw1 it ->
  conf_item fstr k o2 lw2 mw2 it = true -> covers fstr o2 lw2 mw2 it ->
  parse_line v1 k c (format_item fstr o1 lw1 mw1 it) = Some (expected_item fstr k c it) /\
  parse_line v2 k c (format_item fstr o2 lw2 mw2 it) = Some (expected_item fstr k c it).
Proof. exact version_swap_meaning. Qed.

(* on disk the two differ for every ~Well mnemonic that is not a listed exception: 1.2 puts the
   description in the middle field and the value after the colon, 2.0 the other way round *)
Theorem C12_swap_on_disk : forall fstr lw mw it,
  is_exception V12 KWell (i_orig it) = false ->
  sec_ord V12 (sect_table_name KWell) it = DescrValue /\
  sec_ord V20 (sect_table_name KWell) it = ValueDescr /\
  format_item fstr DescrValue lw mw it =
    layout [] (i_orig it) (pad1 lw it) (i_unit it) (pad2 fstr DescrValue mw it) (i_descr it)
           [32] [32] (vstr fstr (i_value it)) [] /\
  format_item fstr ValueDescr lw mw it =
    layout [] (i_orig it) (pad1 lw it) (i_unit it) (pad2 fstr ValueDescr mw it) (vstr fstr (i_value it))
           [32] [32] (i_descr it) [].
Proof. exact swap_on_disk. Qed.

(* ---- non-vacuity ------------------------------------------------------------------------ *)
Definition ex_it : hitem := new_item (s2l "Comp") [] (VStr (s2l "ANY OIL CO.")) (s2l "COMPANY").
Definition ex_strt : hitem := new_item (s2l "Strt") (s2l "M") (VFloat (s2l "1670.0")) (s2l "START").

Example C12_ex_orders :
  order_of V12 (s2l "Well") (s2l "Comp") = Some DescrValue /\
  order_of V20 (s2l "Well") (s2l "Comp") = Some ValueDescr /\
  (* mixed case: exact lookup fails, the upper-cased lookup finds the exception, in writer and reader *)
  order_of V12 (s2l "Well") (s2l "Strt") = Some ValueDescr /\
  order_for V12 KWell (s2l "Strt") = ValueDescr /\ order_for V12 KWell (s2l "strt") = ValueDescr /\
  is_exception V12 KWell (s2l "Comp") = false /\ is_exception V12 KWell (s2l "Strt") = true.
Proof. vm_compute. repeat split; reflexivity. Qed.

Example C12_ex_swap_text :
  l2s (format_item (fun l => l) DescrValue 4 20 ex_it) = "Comp.             COMPANY : ANY OIL CO."%string /\
  l2s (format_item (fun l => l) ValueDescr 4 20 ex_it) = "Comp.         ANY OIL CO. : COMPANY"%string.
Proof. vm_compute. split; reflexivity. Qed.

Example C12_ex_swap_hyps :
  conf_item (fun l => l) KWell (sec_ord V12 (sect_table_name KWell) ex_it) 4 20 ex_it = true /\
  conf_item (fun l => l) KWell (sec_ord V20 (sect_table_name KWell) ex_it) 6 25 ex_it = true /\
  (List.length (i_orig ex_it) <= 4)%nat /\
  (List.length (i_unit ex_it) + 1 + List.length (rhs_text (fun l => l) (sec_ord V12 (sect_table_name KWell) ex_it) ex_it) <= 20)%nat.
Proof. vm_compute. repeat split; try reflexivity; repeat constructor. Qed.

Example C12_ex_swap_read :
  parse_line V12 KWell CaseUpper (format_item (fun l => l) DescrValue 4 20 ex_it)
  = parse_line V20 KWell CaseUpper (format_item (fun l => l) ValueDescr 6 25 ex_it) /\
  option_map (fun it => (l2s (i_orig it), i_value it, l2s (i_descr it)))
             (parse_line V12 KWell CaseUpper (format_item (fun l => l) DescrValue 4 20 ex_it))
  = Some ("COMP"%string, VStr (s2l "ANY OIL CO."), "COMPANY"%string).
Proof. vm_compute. split; reflexivity. Qed.

(* two option records that differ in every presentation option but give the index column the
   same numeric format *)
Definition ex_o1 : wopts := mkwopts (Some W12) (Some false) (s2l "%.5f") [] LAuto [32] [32] 79 60 (s2l "~ASCII") false.
Definition ex_o2 : wopts := mkwopts (Some W12) (Some false) (s2l "%.2f") [(0%nat, s2l "%.5f"); (1%nat, s2l "%d")] (LFixed 12) [] [44] 40 60 (s2l "~A") true.
Definition ex_las : mlas :=
  mkmlas (mklas (mksect [new_item (s2l "VERS") [] (VFloat (s2l "2.0")) (s2l "v"); new_item (s2l "WRAP") [] (VStr (s2l "NO")) []] false)
                (mksect [new_item (s2l "STRT") (s2l "M") (VFloat (s2l "1.0")) []; new_item (s2l "STOP") (s2l "M") (VFloat (s2l "2.0")) [];
                         new_item (s2l "STEP") (s2l "M") (VFloat (s2l "1.0")) []; new_item (s2l "NULL") [] (VFloat (s2l "-999.25")) [];
                         ex_it] false)
                (mksect [new_item (s2l "DEPT") (s2l "M") (VStr []) []; new_item (s2l "GR") [] (VStr []) []] false)
                (mksect [] false) [] [] [[CNum (s2l "1.0"); CNum (s2l "2.0")]; [CNum (s2l "5"); CNaN]] true)
         None.
(* stand-ins for the oracles: any functions do (the theorems quantify over them) *)
Definition ex_write (o : wopts) : wres :=
  write (fun f t => f ++ t) (fun f a b => a ++ b) (fun f => f ++ s2l "3.14159") (fun l => l)
        (fun l => false) (fun a b => str_eqb a b) o ex_las.

Example C12_ex_write_both_ok :
  col_fmt ex_o1 0%nat = col_fmt ex_o2 0%nat /\
  match ex_write ex_o1, ex_write ex_o2 with
  | WOk t1 m1, WOk t2 m2 => negb (str_eqb t1 t2) && Nat.ltb 100 (List.length t1)
  | _, _ => false
  end = true.
Proof. vm_compute. split; reflexivity. Qed.

Print Assumptions C12_table_checks.
Print Assumptions C12_order_tables_agree.
Print Assumptions C12_order_case_insensitive.
Print Assumptions C12_upper_facts.
Print Assumptions C12_order_symmetric.
Print Assumptions C12_reader_order_is_build_item.
Print Assumptions C12_write_factors.
Print Assumptions C12_header_independent_of_data_options.
Print Assumptions C12_header_text_independent.
Print Assumptions C12_state_independent_of_presentation.
Print Assumptions C12_written_lines.
Print Assumptions C12_version_swap_meaning.
Print Assumptions C12_swap_on_disk.

(* ====================================================================================== *)
(* FILE LEVEL (appended).  Proofs in Proofs/FilePresentation.v, on top of the whole-file    *)
(* round trip Proofs/FileRoundTrip*.v (read_written_file_checked, Props/C03.v, C01.v).      *)
(* ====================================================================================== *)
(* R (W o1 m) versus R (W o2 m) for one object m in memory, READ BACK, whole file.

     C12_file_presentation_independent
        o1, o2 agree on `version`, on `wrap` and on the numeric format of every column that
        exists (col_fmt: column_fmt[j], else fmt) and are otherwise arbitrary: len_numeric_field,
        lhs_spacer, spacer, data_width, header_width, data_section_header, mnemonics_header —
        and fmt / column_fmt themselves as long as each existing column gets the same format.
        Both writes succeed, the written file is in the domain of the file round trip for each
        of the two option records (file_hypsb, the executable predicate of Props/C03.v
        C03_file_hypsb_ok: conformant items, exactly one VERS, DLM SPACE or absent, white-space
        spacers, numeric tokens, separated fields, a "~A..." data section header).  Then both
        texts are read without error and the two results are EQUAL, section by section:
        ~Version, ~Well, ~Curves, ~Parameter (the items with their session mnemonics, not only
        their metadata), ~Other, no custom sections, the data — so neither the number of
        curves, nor their order, nor the number of rows, nor any cell changes; both are the
        read-back of the same written form hs (header_read_back: C03's expected items), the
        data are data_result of the token matrix (C01_file_cell_num / _nan say what each cell
        is); and the object left in memory is the same.  No hypothesis on the number of NULL
        items: the reader looks NULL up in the SAME parsed ~Well items for both texts.
     C12_file_wrap_independent
        as above but wrap=b1 in o1 and wrap=b2 in o2 (wrap on/off, both given).  The written
        ~Version sections now differ: the WRAP item (value YES/NO, its description) and with it
        the column widths of every ~Version line.  Read back: ~Well, ~Curves, ~Parameter,
        ~Other, the data are equal (as sections, as above); the ~Version items are pairwise
        equal in metadata except the item whose mnemonic is WRAP (C12_read_wrap_rel_unfold);
        in memory the two objects differ in that item only (C12_wrap_rel_unfold,
        C12_same_but_version_unfold).
     C12_file_options_independent
        ANY two option records that give every existing column the same numeric format:
        `version` (1.2, 2.0 or None) and `wrap` (on, off or None) free as well.  Read back:
        equal metadata of the ~Well, ~Curves, ~Parameter items, equal ~Other, no custom
        sections, equal data.  Needs NULL named at most once in ~Well (as
        C03_file_version_independent: the two ~Well sections are parsed from different lines —
        1.2 against 2.0 layout — and only their metadata are known to agree).  The ~Version
        section, where VERS and WRAP differ by construction, is described for each text by
        header_read_back; that its OTHER items agree is proved for wrap (previous theorem) and
        not for version.
   What is still outside Coq for C12: "numeric formats of equal precision" is taken as EQUAL
   formats per column (two different format strings that print the same digits are an oracle
   fact about CPython's %); wrap=None against wrap given and differing version are covered by
   C12_file_options_independent without the statement about the other ~Version items. *)
Require Import Sections ItemsBindProofs WriteDataProofs WriteDataTextProofs
  FileRoundTripText FileRoundTripFind FileRoundTripHeader FileRoundTripData FileRoundTrip FileRoundTripMain
  FileRoundTripCheck FileRoundTripVersion FilePresentation.
From Coq Require Import Lia.

Theorem C12_same_content_options_unfold : forall n o1 o2,
  same_content_options n o1 o2 <->
  (wo_version o1 = wo_version o2 /\ wo_wrap o1 = wo_wrap o2 /\
   forall j, (j < n)%nat -> col_fmt o1 j = col_fmt o2 j).
Proof. intros. reflexivity. Qed.

Theorem C12_same_formats_unfold : forall n o1 o2,
  same_formats n o1 o2 <-> forall j, (j < n)%nat -> col_fmt o1 j = col_fmt o2 j.
Proof. intros. reflexivity. Qed.

Theorem C12_wrap_rel_unfold : forall a b,
  wrap_rel a b <->
  (a = b \/
   (i_orig a = s2l "WRAP" /\ i_orig b = s2l "WRAP" /\ i_sess a = i_sess b /\ i_unit a = i_unit b /\
    exists r, i_sess a = s2l "WRAP" ++ r)).
Proof. intros. reflexivity. Qed.

Theorem C12_read_wrap_rel_unfold : forall c a b,
  read_wrap_rel c a b <->
  (meta a = meta b \/
   (i_orig a = apply_case c (s2l "WRAP") /\ i_orig b = apply_case c (s2l "WRAP") /\ i_unit a = i_unit b)).
Proof. intros. reflexivity. Qed.

Theorem C12_same_but_version_unfold : forall l l',
  same_but_version l l' <->
  (l_well l = l_well l' /\ l_curves l = l_curves l' /\ l_params l = l_params l' /\ l_other l = l_other l' /\
   l_custom l = l_custom l' /\ l_data l = l_data l' /\ l_engine_numpy l = l_engine_numpy l' /\
   s_transforms (l_version l) = s_transforms (l_version l')).
Proof. intros. reflexivity. Qed.

Theorem C12_file_presentation_independent :
  forall fmtv fmt_diff fmt_pi fstr fzero numeq fhex ro o1 o2 m text1 m1 text2 m2 hs nt,
  same_content_options (List.length (s_items (l_curves (hs_las hs)))) o1 o2 ->
  write fmtv fmt_diff fmt_pi fstr fzero numeq o1 m = WOk text1 m1 ->
  write fmtv fmt_diff fmt_pi fstr fzero numeq o2 m = WOk text2 m2 ->
  write_sections fmtv fmt_diff fstr fzero numeq (wo_version o1) (wo_wrap o1) (col_fmt o1 0%nat) m = Some hs ->
  las_null_text fstr (hs_las hs) = Some nt ->
  file_hypsb fmtv fmt_pi fstr fhex ro o1 hs nt = true ->
  file_hypsb fmtv fmt_pi fstr fhex ro o2 hs nt = true ->
  o_ignore_data ro = false ->
  exists l1 l2 pn,
    read fhex fstr numeq ro text1 = ROk l1 /\ read fhex fstr numeq ro text2 = ROk l2 /\
    header_read_back fstr ro hs l1 /\ header_read_back fstr ro hs l2 /\ null_read fstr ro hs pn /\
    l_data l1 = data_result fhex numeq ro pn (List.length (s_items (l_curves (hs_las hs))))
                  (tok_matrix fmtv o1 nt (las_rows (hs_las hs))) /\
    l_version l1 = l_version l2 /\ l_well l1 = l_well l2 /\ l_curves l1 = l_curves l2 /\
    l_params l1 = l_params l2 /\ l_other l1 = l_other l2 /\ l_custom l1 = l_custom l2 /\
    l_data l1 = l_data l2 /\
    m1 = m2.
Proof. exact file_presentation_independent. Qed.

Theorem C12_file_wrap_independent :
  forall fmtv fmt_diff fmt_pi fstr fzero numeq fhex ro o1 o2 b1 b2 m text1 m1 text2 m2 hs1 hs2 nt,
  wo_version o1 = wo_version o2 -> wo_wrap o1 = Some b1 -> wo_wrap o2 = Some b2 ->
  same_formats (List.length (s_items (l_curves (hs_las hs1)))) o1 o2 ->
  write fmtv fmt_diff fmt_pi fstr fzero numeq o1 m = WOk text1 m1 ->
  write fmtv fmt_diff fmt_pi fstr fzero numeq o2 m = WOk text2 m2 ->
  write_sections fmtv fmt_diff fstr fzero numeq (wo_version o1) (wo_wrap o1) (col_fmt o1 0%nat) m = Some hs1 ->
  write_sections fmtv fmt_diff fstr fzero numeq (wo_version o2) (wo_wrap o2) (col_fmt o2 0%nat) m = Some hs2 ->
  las_null_text fstr (hs_las hs1) = Some nt ->
  file_hypsb fmtv fmt_pi fstr fhex ro o1 hs1 nt = true ->
  file_hypsb fmtv fmt_pi fstr fhex ro o2 hs2 nt = true ->
  o_ignore_data ro = false ->
  exists l1 l2 pn,
    read fhex fstr numeq ro text1 = ROk l1 /\ read fhex fstr numeq ro text2 = ROk l2 /\
    header_read_back fstr ro hs1 l1 /\ header_read_back fstr ro hs2 l2 /\ null_read fstr ro hs1 pn /\
    l_data l1 = data_result fhex numeq ro pn (List.length (s_items (l_curves (hs_las hs1))))
                  (tok_matrix fmtv o1 nt (las_rows (hs_las hs1))) /\
    hs_wrap hs1 = b1 /\ hs_wrap hs2 = b2 /\ hs_version hs1 = hs_version hs2 /\
    same_but_version (hs_las hs1) (hs_las hs2) /\
    Forall2 wrap_rel (hs_vers_items hs1) (hs_vers_items hs2) /\
    Forall2 (read_wrap_rel (o_mcase ro)) (s_items (l_version l1)) (s_items (l_version l2)) /\
    s_transforms (l_version l1) = s_transforms (l_version l2) /\
    l_well l1 = l_well l2 /\ l_curves l1 = l_curves l2 /\ l_params l1 = l_params l2 /\
    l_other l1 = l_other l2 /\ l_custom l1 = l_custom l2 /\ l_data l1 = l_data l2 /\
    same_but_version (m_las m1) (m_las m2) /\ m_index_initial m1 = m_index_initial m2 /\
    Forall2 wrap_rel (s_items (l_version (m_las m1))) (s_items (l_version (m_las m2))).
Proof. exact file_wrap_independent. Qed.

Theorem C12_file_options_independent :
  forall fmtv fmt_diff fmt_pi fstr fzero numeq fhex ro o1 o2 m text1 m1 text2 m2 hs1 hs2 nt,
  same_formats (List.length (s_items (l_curves (hs_las hs1)))) o1 o2 ->
  write fmtv fmt_diff fmt_pi fstr fzero numeq o1 m = WOk text1 m1 ->
  write fmtv fmt_diff fmt_pi fstr fzero numeq o2 m = WOk text2 m2 ->
  write_sections fmtv fmt_diff fstr fzero numeq (wo_version o1) (wo_wrap o1) (col_fmt o1 0%nat) m = Some hs1 ->
  write_sections fmtv fmt_diff fstr fzero numeq (wo_version o2) (wo_wrap o2) (col_fmt o2 0%nat) m = Some hs2 ->
  las_null_text fstr (hs_las hs1) = Some nt ->
  file_hypsb fmtv fmt_pi fstr fhex ro o1 hs1 nt = true ->
  file_hypsb fmtv fmt_pi fstr fhex ro o2 hs2 nt = true ->
  (List.length (filter (in_class (o_mcase ro) (s2l "NULL")) (s_items (l_well (hs_las hs1)))) <= 1)%nat ->
  o_ignore_data ro = false ->
  exists l1 l2 pn,
    read fhex fstr numeq ro text1 = ROk l1 /\ read fhex fstr numeq ro text2 = ROk l2 /\
    header_read_back fstr ro hs1 l1 /\ header_read_back fstr ro hs2 l2 /\ null_read fstr ro hs1 pn /\
    l_data l1 = data_result fhex numeq ro pn (List.length (s_items (l_curves (hs_las hs1))))
                  (tok_matrix fmtv o1 nt (las_rows (hs_las hs1))) /\
    same_but_version (hs_las hs1) (hs_las hs2) /\
    map meta (s_items (l_well l1)) = map meta (s_items (l_well l2)) /\
    map meta (s_items (l_curves l1)) = map meta (s_items (l_curves l2)) /\
    map meta (s_items (l_params l1)) = map meta (s_items (l_params l2)) /\
    s_transforms (l_well l1) = s_transforms (l_well l2) /\ s_transforms (l_curves l1) = s_transforms (l_curves l2) /\
    s_transforms (l_params l1) = s_transforms (l_params l2) /\
    l_other l1 = l_other l2 /\ l_custom l1 = l_custom l2 /\ l_data l1 = l_data l2 /\
    same_but_version (m_las m1) (m_las m2) /\ m_index_initial m1 = m_index_initial m2.
Proof. exact file_options_independent. Qed.

(* the file left in memory depends on `version` and `wrap` through its ~Version section only *)
Theorem C12_written_state_but_version :
  forall fmtv fmt_diff fstr fzero numeq v1 v2 w1 w2 ifmt m hs1 hs2,
  write_sections fmtv fmt_diff fstr fzero numeq v1 w1 ifmt m = Some hs1 ->
  write_sections fmtv fmt_diff fstr fzero numeq v2 w2 ifmt m = Some hs2 ->
  same_but_version (hs_las hs1) (hs_las hs2).
Proof. exact write_sections_las_free. Qed.

(* ---- non-vacuity: one object, three really different option records -------------------------- *)
(* stand-ins for the oracles (the theorems quantify over them): a sample is printed as its own
   token, str(float) is the identity on the texts used, float equality is text equality *)
Definition fp_fmtv (f t : list N) : list N := t.
Definition fp_fmt_diff (f b a : list N) : list N := s2l "1.0".
Definition fp_fmt_pi (f : list N) : list N := s2l "3.14159".
Definition fp_fstr (t : list N) : list N := t.
Definition fp_fzero (t : list N) : bool := str_eqb t (s2l "0.0").
Definition fp_numeq (a b : list N) : bool := str_eqb a b.
Definition fp_fhex (t : list N) : option (list N) := match py_float_dec t with Some _ => Some t | None => None end.
Definition fp_it (name unit : string) (v : hval) (d : string) : hitem :=
  mkitem (s2l name) (s2l name) (s2l unit) v (s2l d).
Definition fp_idx : list cell := [CNum (s2l "1.0"); CNum (s2l "2.0"); CNum (s2l "3.0")].
Definition fp_las : las :=
  mklas (mksect [fp_it "VERS" "" (VFloat (s2l "2.0")) "v"; fp_it "WRAP" "" (VStr (s2l "NO")) "w"] false)
        (mksect [fp_it "STRT" "M" (VFloat (s2l "1.0")) ""; fp_it "STOP" "M" (VFloat (s2l "3.0")) "";
                 fp_it "STEP" "M" (VFloat (s2l "1.0")) ""; fp_it "NULL" "" (VFloat (s2l "-999.25")) "";
                 fp_it "COMP" "" (VStr (s2l "ANY OIL CO.")) "company"] false)
        (mksect [fp_it "DEPT" "M" (VStr []) "depth"; fp_it "GR" "API" (VStr []) "gamma";
                 fp_it "RHOB" "G/C3" (VStr []) "density"] false)
        (mksect [fp_it "BHT" "DEGC" (VFloat (s2l "35.5")) "temp"] false)
        (s2l "a note") []
        [fp_idx; [CNum (s2l "5"); CNaN; CNum (s2l "7")]; [CNum (s2l "2.25"); CNum (s2l "2.5"); CNaN]] false.
Definition fp_m : mlas := mkmlas fp_las (Some fp_idx).
Definition fp_ro : ropts := mkropts false CasePreserve true true false.
(* wrapped at 20 columns, auto field width, blank spacers, default headers *)
Definition fp_o1 : wopts :=
  mkwopts None (Some true) (s2l "%.5f") [] LAuto (s2l " ") (s2l " ") 20 60 (s2l "~ASCII") false.
(* wrapped at 79 columns, another fmt overridden column by column, fixed field width 12, no
   lhs spacer, a TAB spacer, header width 40, "~A", mnemonics in the ~A line *)
Definition fp_o2 : wopts :=
  mkwopts None (Some true) (s2l "%.3f") [(0%nat, s2l "%.5f"); (1%nat, s2l "%.5f"); (2%nat, s2l "%.5f")]
          (LFixed 12) [] [9] 79 40 (s2l "~A") true.
(* as fp_o2 but NOT wrapped *)
Definition fp_o3 : wopts :=
  mkwopts None (Some false) (s2l "%.3f") [(0%nat, s2l "%.5f"); (1%nat, s2l "%.5f"); (2%nat, s2l "%.5f")]
          (LFixed 12) [] [9] 79 40 (s2l "~A") true.
(* version 1.2, wrap left to the file *)
Definition fp_o4 : wopts :=
  mkwopts (Some W12) None (s2l "%.5f") [] LNone1 [] (s2l "  ") 79 30 (s2l "~Ascii data") false.
Notation fp_write := (write fp_fmtv fp_fmt_diff fp_fmt_pi fp_fstr fp_fzero fp_numeq).
Definition fp_text (o : wopts) : list N := match fp_write o fp_m with WOk t _ => t | WErr _ => [] end.
Definition fp_hs (o : wopts) : hdr_sections :=
  match write_sections fp_fmtv fp_fmt_diff fp_fstr fp_fzero fp_numeq (wo_version o) (wo_wrap o) (col_fmt o 0%nat) fp_m with
  | Some hs => hs
  | None => mkhs false V20 [] [] [] [] [] empty_las
  end.
Notation fp_read := (read fp_fhex fp_fstr fp_numeq fp_ro).
Definition fp_nt : list N := s2l "-999.25".

Lemma fp_formats : forall o o', In o [fp_o1; fp_o2; fp_o3; fp_o4] -> In o' [fp_o1; fp_o2; fp_o3; fp_o4] ->
  same_formats 3 o o'.
Proof.
  intros o o' Ho Ho' j Hj. cbn [In] in Ho, Ho'.
  destruct j as [|[|[|j]]]; [| | |lia];
    (destruct Ho as [<-|[<-|[<-|[<-|[]]]]]; destruct Ho' as [<-|[<-|[<-|[<-|[]]]]]; reflexivity).
Qed.

(* the hypotheses of the three theorems hold for the four option records *)
Example C12_ex_file_domain : forall o, In o [fp_o1; fp_o2; fp_o3; fp_o4] ->
  (exists t m', fp_write o fp_m = WOk t m' /\ t = fp_text o) /\
  write_sections fp_fmtv fp_fmt_diff fp_fstr fp_fzero fp_numeq (wo_version o) (wo_wrap o) (col_fmt o 0%nat) fp_m = Some (fp_hs o) /\
  las_null_text fp_fstr (hs_las (fp_hs o)) = Some fp_nt /\
  file_hypsb fp_fmtv fp_fmt_pi fp_fstr fp_fhex fp_ro o (fp_hs o) fp_nt = true /\
  List.length (s_items (l_curves (hs_las (fp_hs o)))) = 3%nat /\
  List.length (filter (in_class (o_mcase fp_ro) (s2l "NULL")) (s_items (l_well (hs_las (fp_hs o))))) = 1%nat.
Proof.
  intros o Ho. cbn [In] in Ho.
  destruct Ho as [<-|[<-|[<-|[<-|[]]]]]; (split; [eexists _, _; split; vm_compute; reflexivity|]);
    vm_compute; repeat split; reflexivity.
Qed.

Example C12_ex_options_differ :
  same_content_options 3 fp_o1 fp_o2 /\ fp_hs fp_o1 = fp_hs fp_o2 /\
  wo_fmt fp_o1 <> wo_fmt fp_o2 /\ wo_len_numeric_field fp_o1 <> wo_len_numeric_field fp_o2 /\
  wo_lhs_spacer fp_o1 <> wo_lhs_spacer fp_o2 /\ wo_spacer fp_o1 <> wo_spacer fp_o2 /\
  wo_data_width fp_o1 <> wo_data_width fp_o2 /\ wo_header_width fp_o1 <> wo_header_width fp_o2 /\
  wo_data_section_header fp_o1 <> wo_data_section_header fp_o2 /\
  wo_mnemonics_header fp_o1 <> wo_mnemonics_header fp_o2 /\
  fp_text fp_o1 <> fp_text fp_o2 /\
  (* the data lines really are wrapped differently: two lines per depth step against one *)
  (List.length (lines_keep (fp_text fp_o1)) > List.length (lines_keep (fp_text fp_o2)))%nat.
Proof.
  split; [split; [reflexivity|split; [reflexivity|apply fp_formats; cbn [In]; tauto]]|].
  split; [vm_compute; reflexivity|].
  repeat (split; [vm_compute; discriminate|]). vm_compute. repeat constructor.
Qed.

(* the main theorem applied to fp_m, fp_o1, fp_o2 *)
Example C12_ex_file_presentation :
  exists l1 l2,
    fp_read (fp_text fp_o1) = ROk l1 /\ fp_read (fp_text fp_o2) = ROk l2 /\
    l_version l1 = l_version l2 /\ l_well l1 = l_well l2 /\ l_curves l1 = l_curves l2 /\
    l_params l1 = l_params l2 /\ l_other l1 = l_other l2 /\ l_custom l1 = l_custom l2 /\
    l_data l1 = l_data l2.
Proof.
  destruct (C12_ex_file_domain fp_o1 (or_introl eq_refl)) as ((t1 & m1 & W1 & ->) & S1 & N1 & H1 & L1 & _).
  destruct (C12_ex_file_domain fp_o2 (or_intror (or_introl eq_refl))) as ((t2 & m2 & W2 & ->) & S2 & N2 & H2 & _).
  destruct C12_ex_options_differ as (Hsame & Ehs & _). rewrite <- Ehs in H2. rewrite <- L1 in Hsame.
  remember (fp_text fp_o1) as t1 eqn:E1 in *. remember (fp_text fp_o2) as t2 eqn:E2 in *.
  remember (fp_hs fp_o1) as hs eqn:E3 in *. clear E1 E2 E3 Ehs S2 N2 L1.
  destruct (C12_file_presentation_independent fp_fmtv fp_fmt_diff fp_fmt_pi fp_fstr fp_fzero fp_numeq fp_fhex fp_ro
              fp_o1 fp_o2 fp_m t1 m1 t2 m2 hs fp_nt Hsame W1 W2 S1 N1 H1 H2 eq_refl)
    as (l1 & l2 & pn & R1 & R2 & _ & _ & _ & _ & E).
  exists l1, l2. split; [exact R1|]. split; [exact R2|].
  destruct E as (A & B & C & D & E & F & G & _). repeat split; assumption.
Qed.

(* wrap on (fp_o1: 20 columns) against wrap off with a TAB spacer (fp_o3) *)
Example C12_ex_file_wrap :
  exists l1 l3,
    fp_read (fp_text fp_o1) = ROk l1 /\ fp_read (fp_text fp_o3) = ROk l3 /\
    Forall2 (read_wrap_rel CasePreserve) (s_items (l_version l1)) (s_items (l_version l3)) /\
    l_well l1 = l_well l3 /\ l_curves l1 = l_curves l3 /\ l_params l1 = l_params l3 /\
    l_other l1 = l_other l3 /\ l_custom l1 = l_custom l3 /\ l_data l1 = l_data l3.
Proof.
  destruct (C12_ex_file_domain fp_o1 (or_introl eq_refl)) as ((t1 & m1 & W1 & ->) & S1 & N1 & H1 & L1 & _).
  destruct (C12_ex_file_domain fp_o3 (or_intror (or_intror (or_introl eq_refl)))) as ((t3 & m3 & W3 & ->) & S3 & N3 & H3 & _).
  assert (Hf : same_formats (List.length (s_items (l_curves (hs_las (fp_hs fp_o1))))) fp_o1 fp_o3)
    by (rewrite L1; apply fp_formats; cbn [In]; tauto).
  remember (fp_text fp_o1) as t1 eqn:E1 in *. remember (fp_text fp_o3) as t3 eqn:E2 in *.
  remember (fp_hs fp_o1) as hs1 eqn:E3 in *. remember (fp_hs fp_o3) as hs3 eqn:E4 in *. clear E1 E2 E3 E4 L1 N3.
  destruct (C12_file_wrap_independent fp_fmtv fp_fmt_diff fp_fmt_pi fp_fstr fp_fzero fp_numeq fp_fhex fp_ro
              fp_o1 fp_o3 true false fp_m t1 m1 t3 m3 hs1 hs3 fp_nt eq_refl eq_refl eq_refl Hf
              W1 W3 S1 S3 N1 H1 H3 eq_refl)
    as (l1 & l3 & pn & R1 & R3 & _ & _ & _ & _ & _ & _ & _ & _ & _ & V & _ & E).
  exists l1, l3. split; [exact R1|]. split; [exact R3|]. split; [exact V|].
  destruct E as (A & B & C & D & E & F & _). repeat split; assumption.
Qed.

(* 2.0 wrapped (fp_o1) against 1.2 with wrap left to the file (fp_o4) *)
Example C12_ex_file_options :
  exists l1 l4,
    fp_read (fp_text fp_o1) = ROk l1 /\ fp_read (fp_text fp_o4) = ROk l4 /\
    map meta (s_items (l_well l1)) = map meta (s_items (l_well l4)) /\
    map meta (s_items (l_curves l1)) = map meta (s_items (l_curves l4)) /\
    map meta (s_items (l_params l1)) = map meta (s_items (l_params l4)) /\
    l_other l1 = l_other l4 /\ l_custom l1 = l_custom l4 /\ l_data l1 = l_data l4.
Proof.
  destruct (C12_ex_file_domain fp_o1 (or_introl eq_refl)) as ((t1 & m1 & W1 & ->) & S1 & N1 & H1 & L1 & U1).
  destruct (C12_ex_file_domain fp_o4 (or_intror (or_intror (or_intror (or_introl eq_refl))))) as ((t4 & m4 & W4 & ->) & S4 & N4 & H4 & _).
  assert (Hf : same_formats (List.length (s_items (l_curves (hs_las (fp_hs fp_o1))))) fp_o1 fp_o4)
    by (rewrite L1; apply fp_formats; cbn [In]; tauto).
  assert (Hu : (List.length (filter (in_class (o_mcase fp_ro) (s2l "NULL")) (s_items (l_well (hs_las (fp_hs fp_o1))))) <= 1)%nat)
    by (rewrite U1; apply le_n).
  remember (fp_text fp_o1) as t1 eqn:E1 in *. remember (fp_text fp_o4) as t4 eqn:E2 in *.
  remember (fp_hs fp_o1) as hs1 eqn:E3 in *. remember (fp_hs fp_o4) as hs4 eqn:E4 in *. clear E1 E2 E3 E4 L1 U1 N4.
  destruct (C12_file_options_independent fp_fmtv fp_fmt_diff fp_fmt_pi fp_fstr fp_fzero fp_numeq fp_fhex fp_ro
              fp_o1 fp_o4 fp_m t1 m1 t4 m4 hs1 hs4 fp_nt Hf W1 W4 S1 S4 N1 H1 H4 Hu eq_refl)
    as (l1 & l4 & pn & R1 & R4 & _ & _ & _ & _ & _ & A & B & C & _ & _ & _ & D & E & F & _).
  exists l1, l4. repeat split; assumption.
Qed.

(* the same, computed: what is read back from the four texts *)
Example C12_ex_file_computed :
  match fp_read (fp_text fp_o1), fp_read (fp_text fp_o2), fp_read (fp_text fp_o3), fp_read (fp_text fp_o4) with
  | ROk l1, ROk l2, ROk l3, ROk l4 =>
      l_data l1 = [fp_idx; [CNum (s2l "5"); CNaN; CNum (s2l "7")]; [CNum (s2l "2.25"); CNum (s2l "2.5"); CNaN]] /\
      l_data l2 = l_data l1 /\ l_data l3 = l_data l1 /\ l_data l4 = l_data l1 /\
      l_version l2 = l_version l1 /\ l_well l2 = l_well l1 /\ l_well l3 = l_well l1 /\
      map meta (s_items (l_well l4)) = map meta (s_items (l_well l1)) /\
      map (fun it => (l2s (i_orig it), i_value it)) (s_items (l_version l1))
        = [("VERS"%string, VFloat (s2l "2.0")); ("WRAP"%string, VStr (s2l "YES"))] /\
      map (fun it => (l2s (i_orig it), i_value it)) (s_items (l_version l3))
        = [("VERS"%string, VFloat (s2l "2.0")); ("WRAP"%string, VStr (s2l "NO"))] /\
      map (fun it => (l2s (i_orig it), i_value it)) (s_items (l_version l4))
        = [("VERS"%string, VFloat (s2l "1.2")); ("WRAP"%string, VStr (s2l "NO"))]
  | _, _, _, _ => False
  end.
Proof. vm_compute. repeat split; reflexivity. Qed.

Print Assumptions C12_same_content_options_unfold.
Print Assumptions C12_same_formats_unfold.
Print Assumptions C12_wrap_rel_unfold.
Print Assumptions C12_read_wrap_rel_unfold.
Print Assumptions C12_same_but_version_unfold.
Print Assumptions C12_file_presentation_independent.
Print Assumptions C12_file_wrap_independent.
Print Assumptions C12_file_options_independent.
Print Assumptions C12_written_state_but_version.
