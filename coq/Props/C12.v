(* Props.C12 — writer options change presentation only, never content (1.2 <-> 2.0 included).
   Statements only; the proofs are in Proofs/OrderTableProofs.v (the value/description order
   tables), Proofs/WriteOptionsProofs.v (write factors into a header part that sees only
   `version` and `wrap` and a data part) and Proofs/WriteHeaderProofs.v (the item round trip
   of C03, used for the 1.2 <-> 2.0 statement).

   Reading.  R (W o1 x) ~ R (W o2 x) is split along the two halves of the file.
   HEADER.  write (Model/Writer.v) = write_sections (wo_version o) (wo_wrap o) (col_fmt o 0) m
   — steps 1-9:
   WRAP item, version, DLM SPACE and VERS substituted in a copy of ~Version, STRT/STOP/STEP refresh, unit
   alignment, standardize_value, the item lines of the four sections — followed by
   header_lines (wo_header_width o): the title lines "~Version -----" around those item lines,
   followed by write_data o: the ~ASCII line and the data lines (C12_write_factors).
   write_sections does not take the option record at all — only `version`, `wrap` and the
   numeric format of the index column (col_fmt o 0: STRT/STOP/STEP are printed with it; this is
   the "numeric formats have equal precision" proviso of the property, needed for the index
   column only) — so two configurations that agree on these three produce the same item lines
   and leave the same in-memory file
   (C12_header_independent_of_data_options, C12_state_independent_of_presentation); the item
   lines are section_lines of the sections of that file (C12_written_lines), which C03 reads
   back.  VERSION.  The order in which value and description are laid out is looked up by
   writer (order_of, keyed by the original mnemonic) and reader (order_for, keyed by the parsed,
   case-mapped name) in the SAME generated table (Gen/Tables.v, re-translated from
   lasio/defaults.py ORDER_DEFINITIONS on every run) in the same way
   (C12_order_tables_agree), the lookup does not depend on the reader's mnemonic_case
   (C12_order_case_insensitive), hence writer order = reader order (C12_order_symmetric) and an
   item written for 1.2 and read as 1.2 equals the item written for 2.0 and read as 2.0
   (C12_version_swap_meaning): the swap is on disk only (C12_swap_on_disk).

   The facts about the CONTENT of the table are boolean checks evaluated by the kernel on the
   generated literal (C12_table_checks): every (version, standard section) has an entry;
   every exception list gives a listed mnemonic the same order as its upper-cased form (so
   that looking up "strt", "STRT" or — after the fallback to upper() — "Strt" agree); ~Curves
   and ~Parameter are value-first without exceptions (the reader never consults the table
   there).  An edit of ORDER_DEFINITIONS that breaks one of them breaks the proof.

   PROVED AT FULL STRENGTH: C12_order_tables_agree, C12_order_case_insensitive,
   C12_order_symmetric (all versions, the four standard sections, all mnemonics, all three
   case options — F16's side condition on mixed-case mnemonics is not needed on the current
   tree: the reader falls back to name.upper() exactly as the writer does),
   C12_write_factors, C12_header_independent_of_data_options,
   C12_state_independent_of_presentation (every oracle, every in-memory file, every pair of
   option records), C12_version_swap_meaning (every conformant item, arbitrary widths).

   NOT PROVED HERE (correspondence runs of the harness only): equality of the DATA section
   read back under two configurations "whose numeric formats have equal precision" — that is
   a statement about the oracle fmtv (CPython's % formatting) composed with the data reader;
   VERS and WRAP themselves differ by construction (excluded by the property);
   the composition header text -> find_sections -> parse_body for a whole file.

   ORACLES: all theorems hold for arbitrary fmtv, fmt_diff, fmt_pi, fstr, fzero, numeq. *)
From Coq Require Import List NArith ZArith Bool String.
Import ListNotations.
Require Import PyStr Regex NumLit Num HeaderLine Tables SectionParse DataRead Read Writer.
Require Import HeaderLineSpec OrderTableProofs WriteHeaderProofs WriteOptionsProofs.
Open Scope string_scope. Open Scope list_scope. Open Scope N_scope.

(* 0. what the proofs need from the generated table, checked on the literal *)
Theorem C12_table_checks :
  table_complete_for order_definitions = true /\
  table_case_consistent_for order_definitions = true /\
  table_curves_param_plain_for order_definitions = true.
Proof. exact table_checks. Qed.

(* 1. writer and reader consult the same table in the same way *)
Theorem C12_order_tables_agree : forall v k m, is_std k = true ->
  order_of v (sect_table_name k) m = Some (order_for v k m).
Proof. exact order_tables_agree. Qed.

(* 2. the reader's mnemonic_case does not change the order *)
Theorem C12_order_case_insensitive : forall v k c m,
  order_for v k (apply_case c m) = order_for v k m.
Proof. exact order_case_insensitive. Qed.

Theorem C12_upper_facts : forall m,
  upper (upper m) = upper m /\ upper (lower m) = upper m.
Proof. exact upper_facts. Qed.

(* 1+2: the order the writer lays a line out in (keyed by the original mnemonic) is the order
   the reader applies to it (keyed by the case-mapped name; ~Curves / ~Parameter: value first) *)
Theorem C12_order_symmetric : forall v k c m, is_std k = true ->
  order_of v (sect_table_name k) m = Some (reader_order v k (apply_case c m)).
Proof. exact writer_order_is_reader_order. Qed.

Theorem C12_reader_order_is_build_item : forall fstr v k o name u it,
  o = reader_order v k name ->
  build_item v k (mkhl name u (rhs_text fstr o it) (tail_text fstr o it)) =
  new_item name (strip_brackets u) (read_value k name (vstr fstr (i_value it))) (i_descr it).
Proof. exact build_item_unswaps. Qed.

(* 3. write = header part (version, wrap) ; title lines (header_width) ; data part *)
Theorem C12_write_factors : forall fmtv fmt_diff fmt_pi fstr fzero numeq (o : wopts) (m : mlas),
  write fmtv fmt_diff fmt_pi fstr fzero numeq o m =
  match write_sections fmtv fmt_diff fstr fzero numeq (wo_version o) (wo_wrap o) (col_fmt o 0%nat) m with
  | None => WErr WKeyError
  | Some hs =>
      match write_data fmtv fmt_pi fstr o hs with
      | Some d => WOk (join [ch_nl] (header_lines (wo_header_width o) hs) ++ [ch_nl] ++ d)
                      (mkmlas (hs_las hs) (m_index_initial m))
      | None => WErr WKeyError
      end
  end.
Proof. exact write_factors. Qed.

Theorem C12_header_independent_of_data_options :
  forall fmtv fmt_diff fmt_pi fstr fzero numeq (o1 o2 : wopts) (m : mlas) t1 m1 t2 m2,
  wo_version o1 = wo_version o2 -> wo_wrap o1 = wo_wrap o2 -> col_fmt o1 0%nat = col_fmt o2 0%nat ->
  write fmtv fmt_diff fmt_pi fstr fzero numeq o1 m = WOk t1 m1 ->
  write fmtv fmt_diff fmt_pi fstr fzero numeq o2 m = WOk t2 m2 ->
  exists hs d1 d2,
    write_sections fmtv fmt_diff fstr fzero numeq (wo_version o1) (wo_wrap o1) (col_fmt o1 0%nat) m = Some hs /\
    t1 = join [ch_nl] (header_lines (wo_header_width o1) hs) ++ [ch_nl] ++ d1 /\
    t2 = join [ch_nl] (header_lines (wo_header_width o2) hs) ++ [ch_nl] ++ d2.
Proof. exact header_independent_of_data_options. Qed.

Theorem C12_header_text_independent :
  forall fmtv fmt_diff fmt_pi fstr fzero numeq (o1 o2 : wopts) (m : mlas) t1 m1 t2 m2,
  wo_version o1 = wo_version o2 -> wo_wrap o1 = wo_wrap o2 -> col_fmt o1 0%nat = col_fmt o2 0%nat ->
  wo_header_width o1 = wo_header_width o2 ->
  write fmtv fmt_diff fmt_pi fstr fzero numeq o1 m = WOk t1 m1 ->
  write fmtv fmt_diff fmt_pi fstr fzero numeq o2 m = WOk t2 m2 ->
  exists h d1 d2, t1 = h ++ [ch_nl] ++ d1 /\ t2 = h ++ [ch_nl] ++ d2.
Proof. exact header_text_independent. Qed.

Theorem C12_state_independent_of_presentation :
  forall fmtv fmt_diff fmt_pi fstr fzero numeq (o1 o2 : wopts) (m : mlas) t1 m1 t2 m2,
  wo_version o1 = wo_version o2 -> wo_wrap o1 = wo_wrap o2 -> col_fmt o1 0%nat = col_fmt o2 0%nat ->
  write fmtv fmt_diff fmt_pi fstr fzero numeq o1 m = WOk t1 m1 ->
  write fmtv fmt_diff fmt_pi fstr fzero numeq o2 m = WOk t2 m2 ->
  m1 = m2.
Proof. exact state_independent_of_presentation. Qed.

(* the item lines are section_lines of the sections of the file after the call *)
Theorem C12_written_lines : forall fmtv fmt_diff fstr fzero numeq ver wrapo ifmt m hs,
  write_sections fmtv fmt_diff fstr fzero numeq ver wrapo ifmt m = Some hs ->
  section_lines fstr (hs_version hs) (s2l "Version") (hs_vers_items hs) = Some (hs_lv hs) /\
  section_lines fstr (hs_version hs) (s2l "Well") (s_items (l_well (hs_las hs))) = Some (hs_lw hs) /\
  section_lines fstr (hs_version hs) (s2l "Curves") (s_items (l_curves (hs_las hs))) = Some (hs_lc hs) /\
  section_lines fstr (hs_version hs) (s2l "Parameter") (s_items (l_params (hs_las hs))) = Some (hs_lp hs).
Proof. exact write_sections_lines. Qed.

(* 4. 1.2 <-> 2.0: the same item written for v1 and read as v1, written for v2 and read as v2
   (widths arbitrary and possibly different: other items of the section may differ) *)
Theorem C12_version_swap_meaning : forall fstr k c it v1 v2 lw1 mw1 lw2 mw2, is_std k = true ->
  let o1 := sec_ord v1 (sect_table_name k) it in
  let o2 := sec_ord v2 (sect_table_name k) it in
  conf_item fstr k o1 lw1 mw1 it = true -> covers fstr o1 lw1 mw1 it ->
  conf_item fstr k o2 lw2 mw2 it = true -> covers fstr o2 lw2 mw2 it ->
  parse_line v1 k c (format_item fstr o1 lw1 mw1 it) = Some (expected_item fstr k c it) /\
  parse_line v2 k c (format_item fstr o2 lw2 mw2 it) = Some (expected_item fstr k c it).
Proof. exact version_swap_meaning. Qed.

(* on disk the two differ for every ~Well mnemonic that is not a listed exception: 1.2 puts the
   description in the middle field and the value after the colon, 2.0 the other way round *)
Theorem C12_swap_on_disk : forall fstr lw mw it,
  is_exception V12 KWell (i_orig it) = false ->
  sec_ord V12 (sect_table_name KWell) it = DescrValue /\
  sec_ord V20 (sect_table_name KWell) it = ValueDescr /\
  format_item fstr DescrValue lw mw it =
    layout [] (i_orig it) (pad1 lw it) (i_unit it) (pad2 fstr DescrValue mw it) (i_descr it)
           [32] [32] (vstr fstr (i_value it)) [] /\
  format_item fstr ValueDescr lw mw it =
    layout [] (i_orig it) (pad1 lw it) (i_unit it) (pad2 fstr ValueDescr mw it) (vstr fstr (i_value it))
           [32] [32] (i_descr it) [].
Proof. exact swap_on_disk. Qed.

(* ---- non-vacuity ------------------------------------------------------------------------ *)
Definition ex_it : hitem := new_item (s2l "Comp") [] (VStr (s2l "ANY OIL CO.")) (s2l "COMPANY").
Definition ex_strt : hitem := new_item (s2l "Strt") (s2l "M") (VFloat (s2l "1670.0")) (s2l "START").

Example C12_ex_orders :
  order_of V12 (s2l "Well") (s2l "Comp") = Some DescrValue /\
  order_of V20 (s2l "Well") (s2l "Comp") = Some ValueDescr /\
  (* mixed case: exact lookup fails, the upper-cased lookup finds the exception, in writer and reader *)
  order_of V12 (s2l "Well") (s2l "Strt") = Some ValueDescr /\
  order_for V12 KWell (s2l "Strt") = ValueDescr /\ order_for V12 KWell (s2l "strt") = ValueDescr /\
  is_exception V12 KWell (s2l "Comp") = false /\ is_exception V12 KWell (s2l "Strt") = true.
Proof. vm_compute. repeat split; reflexivity. Qed.

Example C12_ex_swap_text :
  l2s (format_item (fun l => l) DescrValue 4 20 ex_it) = "Comp.             COMPANY : ANY OIL CO."%string /\
  l2s (format_item (fun l => l) ValueDescr 4 20 ex_it) = "Comp.         ANY OIL CO. : COMPANY"%string.
Proof. vm_compute. split; reflexivity. Qed.

Example C12_ex_swap_hyps :
  conf_item (fun l => l) KWell (sec_ord V12 (sect_table_name KWell) ex_it) 4 20 ex_it = true /\
  conf_item (fun l => l) KWell (sec_ord V20 (sect_table_name KWell) ex_it) 6 25 ex_it = true /\
  (List.length (i_orig ex_it) <= 4)%nat /\
  (List.length (i_unit ex_it) + 1 + List.length (rhs_text (fun l => l) (sec_ord V12 (sect_table_name KWell) ex_it) ex_it) <= 20)%nat.
Proof. vm_compute. repeat split; try reflexivity; repeat constructor. Qed.

Example C12_ex_swap_read :
  parse_line V12 KWell CaseUpper (format_item (fun l => l) DescrValue 4 20 ex_it)
  = parse_line V20 KWell CaseUpper (format_item (fun l => l) ValueDescr 6 25 ex_it) /\
  option_map (fun it => (l2s (i_orig it), i_value it, l2s (i_descr it)))
             (parse_line V12 KWell CaseUpper (format_item (fun l => l) DescrValue 4 20 ex_it))
  = Some ("COMP"%string, VStr (s2l "ANY OIL CO."), "COMPANY"%string).
Proof. vm_compute. split; reflexivity. Qed.

(* two option records that differ in every presentation option but give the index column the
   same numeric format *)
Definition ex_o1 : wopts := mkwopts (Some W12) (Some false) (s2l "%.5f") [] LAuto [32] [32] 79 60 (s2l "~ASCII") false.
Definition ex_o2 : wopts := mkwopts (Some W12) (Some false) (s2l "%.2f") [(0%nat, s2l "%.5f"); (1%nat, s2l "%d")] (LFixed 12) [] [44] 40 60 (s2l "~A") true.
Definition ex_las : mlas :=
  mkmlas (mklas (mksect [new_item (s2l "VERS") [] (VFloat (s2l "2.0")) (s2l "v"); new_item (s2l "WRAP") [] (VStr (s2l "NO")) []] false)
                (mksect [new_item (s2l "STRT") (s2l "M") (VFloat (s2l "1.0")) []; new_item (s2l "STOP") (s2l "M") (VFloat (s2l "2.0")) [];
                         new_item (s2l "STEP") (s2l "M") (VFloat (s2l "1.0")) []; new_item (s2l "NULL") [] (VFloat (s2l "-999.25")) [];
                         ex_it] false)
                (mksect [new_item (s2l "DEPT") (s2l "M") (VStr []) []; new_item (s2l "GR") [] (VStr []) []] false)
                (mksect [] false) [] [] [[CNum (s2l "1.0"); CNum (s2l "2.0")]; [CNum (s2l "5"); CNaN]] true)
         None.
(* stand-ins for the oracles: any functions do (the theorems quantify over them) *)
Definition ex_write (o : wopts) : wres :=
  write (fun f t => f ++ t) (fun f a b => a ++ b) (fun f => f ++ s2l "3.14159") (fun l => l)
        (fun l => false) (fun a b => str_eqb a b) o ex_las.

Example C12_ex_write_both_ok :
  col_fmt ex_o1 0%nat = col_fmt ex_o2 0%nat /\
  match ex_write ex_o1, ex_write ex_o2 with
  | WOk t1 m1, WOk t2 m2 => negb (str_eqb t1 t2) && Nat.ltb 100 (List.length t1)
  | _, _ => false
  end = true.
Proof. vm_compute. split; reflexivity. Qed.

Print Assumptions C12_table_checks.
Print Assumptions C12_order_tables_agree.
Print Assumptions C12_order_case_insensitive.
Print Assumptions C12_upper_facts.
Print Assumptions C12_order_symmetric.
Print Assumptions C12_reader_order_is_build_item.
Print Assumptions C12_write_factors.
Print Assumptions C12_header_independent_of_data_options.
Print Assumptions C12_header_text_independent.
Print Assumptions C12_state_independent_of_presentation.
Print Assumptions C12_written_lines.
Print Assumptions C12_version_swap_meaning.
Print Assumptions C12_swap_on_disk.
