(* Props.C12 — placeholder; theorems are being added. *)
Require Import PyStr Writer.
