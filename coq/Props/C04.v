(* Props.C04 — placeholder being filled in (see Proofs/HeaderLineProofs.v). *)
From Coq Require Import List NArith Bool.
Require Import PyStr Regex Regexes HeaderLine.
