(* Props.C04 — header line grammar: parsing inverts formatting under any padding.
   Statements only; the proofs are in Proofs/HeaderLineProofs.v (layouts), HeaderLineFragments.v
   (the patterns fragment by fragment through the matcher, pattern selection),
   RegexMatchFacts.v (which split the backtracking stars choose), HeaderLineTotal.v and
   HeaderLineName.v (the two universal theorems).  The vocabulary
   (blanks, stripped, conf_mnem, conf_unit, conf_text, layout, clock_colons, ...) is
   defined in Proofs/HeaderLineSpec.v from the property text.

   Reading.  A line is laid out as
       layout p0 mn p1 u p2 v p3 p4 d p5
         = p0 ++ mn ++ p1 ++ "." ++ u ++ p2 ++ v ++ p3 ++ ":" ++ p4 ++ d ++ p5
   where every p_i is a (possibly empty) run of blanks and tabs (padding6).
     conf_mnem mn : non-empty, no '.', no ':', no leading/trailing white space
                    (inner blanks allowed);
     conf_unit u  : no white-space character, does not end with '.', not entirely digits
                    unless empty (interior dots and colons allowed, may be empty);
     conf_text x  : x = x.strip() and no newline (may be empty) — value and description;
     value_set_off p2 v : a non-empty value is separated from the unit by at least one
                    blank (otherwise the grammar itself cannot tell unit from value).
   read_header_line line is_curves is_param is the model of
   lasio.reader.read_header_line(line, section_name=...) : section kinds other than
   Curves / Parameter (Version, Well, Other, custom titles, None) are (false, false).
   None models the AttributeError raised when no pattern matches.

   All theorems are about read_header_line itself, i.e. about the regex ASTs generated
   from /repo on every run (Gen/Regexes.v): the proofs convert the generated ASTs to the
   literal ASTs they were written for (C04_patterns_current), so a semantic edit of a
   pattern string in reader.py breaks a proof obligation.

   sect_ok is_curves is_param line u v p3 p4 d collects the section-dependent conditions:
     ~Curves        : curves_plain line — the mnemonic-with-dots special case is not
                      triggered: no non-blank character is followed by "..", or the first
                      ".." is not before the last colon (C04_no_double_dot_plain: in
                      particular when the line contains no ".." at all);
     not ~Parameter : the description has no ':' (the LAST colon of the line separates;
                      the value may contain any number of colons);
     ~Parameter     : every colon of the value is a clock colon (clock_colons v: followed,
                      inside the value, by [0-5][0-9], mm or MM — the look-ahead alternatives
                      read off the generated AST) and EITHER the separating colon is set off
                      by a blank on both sides (then the description may contain colons) OR
                      unit and description are colon-free (any padding).

   NOT PROVED (what the full property claims beyond the theorems below):
   * ~Parameter: colons excused only by the look-BEHIND alternatives (" hh:", " 23:" with a
     non-minute suffix) are not admitted in the value; a unit containing colons or a
     description containing colons is admitted only when the separator is set off by blanks
     on both sides.
   * ~Curves lines on which the name_with_dots pattern is selected ([^ ].. before the last
     colon): that pattern is not analysed.
   * units that consist only of digits are covered by C04_digit_unit only with a colon-free
     description (in ~Parameter "M.1000 : a:b" really parses differently: unit "1000 :").
   * lines without a colon (value_without_colon_delimiter).
   * \d is modelled as ASCII digits; white space as str.isspace(). *)
From Coq Require Import List NArith Bool String.
Import ListNotations.
Require Import PyStr Regex Regexes HeaderLine HeaderLineSpec HeaderLineFragments HeaderLineProofs
  HeaderLineTotal HeaderLineName.
Open Scope string_scope. Open Scope N_scope.

(* 0. the generated ASTs are the ones the proofs are about *)
Theorem C04_patterns_current :
  rx_name_re = name_lit /\ rx_unit_re = unit_lit /\ rx_value_re = value_lit /\
  rx_desc_re = desc_lit /\ rx_name_missing_period_re = name_mp_lit /\
  rx_value_missing_period_re = value_mp_lit /\ rx_no_desc_re = Eps /\ rx_no_unit_re = Eps /\
  rx_double_dot_search = dd_lit /\ rx_value_with_time_colon_re = tvalue_lit /\
  time_behind_alts = behind_lit /\ time_ahead_alts = ahead_lit.
Proof. exact patterns_are_current. Qed.

(* 1. MASTER: MNEM .UNIT  VALUE : DESCRIPTION under any padding parses to exactly the four
   fields, in every section kind (is_curves, is_param arbitrary) under sect_ok.  The unit may
   contain dots and colons, unit / value / description may be empty; the case where unit
   zone is directly against the separator and the unit star has to back off is included. *)
Theorem C04_parse_all :
  forall (p0 mn p1 u p2 v p3 p4 d p5 : list N) (is_curves is_param : bool),
  padding6 p0 p1 p2 p3 p4 p5 = true ->
  conf_mnem mn = true -> conf_unit u = true -> conf_text v = true -> conf_text d = true ->
  value_set_off p2 v = true ->
  sect_ok is_curves is_param (layout p0 mn p1 u p2 v p3 p4 d p5) u v p3 p4 d = true ->
  read_header_line (layout p0 mn p1 u p2 v p3 p4 d p5) is_curves is_param = Some (mkhl mn u v d).
Proof. exact parse_all. Qed.

(* 1a. instance: section kinds other than Curves and Parameter.  The value may contain colons (the LAST colon of the line separates), the
   unit may contain dots and colons, unit / value / description may be empty; the case
   where unit, value and third padding are all empty and the unit star has to back off
   from the separating colon is included. *)
Theorem C04_main_parse : forall p0 mn p1 u p2 v p3 p4 d p5 : list N,
  padding6 p0 p1 p2 p3 p4 p5 = true ->
  conf_mnem mn = true -> conf_unit u = true -> conf_text v = true -> conf_text d = true ->
  value_set_off p2 v = true ->
  in_str 58 d = false ->
  read_header_line (layout p0 mn p1 u p2 v p3 p4 d p5) false false = Some (mkhl mn u v d).
Proof. exact main_parse. Qed.

(* 2. instance: the same in ~Curves, for lines without ".." *)
Theorem C04_curves_parse : forall p0 mn p1 u p2 v p3 p4 d p5 : list N,
  padding6 p0 p1 p2 p3 p4 p5 = true ->
  conf_mnem mn = true -> conf_unit u = true -> conf_text v = true -> conf_text d = true ->
  value_set_off p2 v = true ->
  in_str 58 d = false ->
  no_double_dot (layout p0 mn p1 u p2 v p3 p4 d p5) = true ->
  read_header_line (layout p0 mn p1 u p2 v p3 p4 d p5) true false = Some (mkhl mn u v d).
Proof. exact curves_parse. Qed.

(* 3. a line without a period before its first colon is NAME : VALUE, in every section kind
   (the value may contain '.' and ':'; in ~Curves the dots special case must not trigger) *)
Theorem C04_missing_period : forall (p0 nm p1 p4 v p5 : list N) (is_curves is_param : bool),
  blanks p0 && blanks p1 && blanks p4 && blanks p5 = true ->
  conf_name_np nm = true -> conf_text v = true ->
  (is_curves = true -> curves_plain (layout_np p0 nm p1 p4 v p5) = true) ->
  read_header_line (layout_np p0 nm p1 p4 v p5) is_curves is_param = Some (mkhl nm [] v []).
Proof. exact missing_period. Qed.

(* 4. a numeric unit followed by a single blank keeps its suffix ("1000 lbf"), in every
   section kind under sect_ok *)
Theorem C04_numeric_unit :
  forall (p0 mn p1 ds : list N) (sp : N) (w p2 v p3 p4 d p5 : list N) (is_curves is_param : bool),
  padding6 p0 p1 p2 p3 p4 p5 = true ->
  conf_mnem mn = true -> conf_numeric_unit ds sp w = true ->
  conf_text v = true -> conf_text d = true -> value_set_off p2 v = true ->
  sect_ok is_curves is_param (layout p0 mn p1 (ds ++ [sp] ++ w) p2 v p3 p4 d p5)
          (ds ++ [sp] ++ w) v p3 p4 d = true ->
  read_header_line (layout p0 mn p1 (ds ++ [sp] ++ w) p2 v p3 p4 d p5) is_curves is_param
  = Some (mkhl mn (ds ++ [sp] ++ w) v d).
Proof. exact numeric_unit_all. Qed.

(* 4a. a unit made of digits only ("M.1000 : d", "M.1000   12.5 : d"): told apart from the
   "1000 lbf" form by an empty value or at least two blanks before the value; description
   colon-free, in ~Parameter only clock colons in the value *)
Theorem C04_digit_unit :
  forall (p0 mn p1 u p2 v p3 p4 d p5 : list N) (is_curves is_param : bool),
  padding6 p0 p1 p2 p3 p4 p5 = true ->
  conf_mnem mn = true -> conf_digit_unit u p2 v = true ->
  conf_text v = true -> conf_text d = true -> value_set_off p2 v = true ->
  sect_ok_plain is_curves is_param (layout p0 mn p1 u p2 v p3 p4 d p5) v d = true ->
  read_header_line (layout p0 mn p1 u p2 v p3 p4 d p5) is_curves is_param = Some (mkhl mn u v d).
Proof. exact digit_unit. Qed.

(* a line without ".." never triggers the ~Curves special case *)
Theorem C04_no_double_dot_plain : forall line, no_double_dot line = true -> curves_plain line = true.
Proof. exact no_double_dot_plain. Qed.

(* 5. instance, ~Parameter: clock-time colons in the value are not separators and the description may
   contain colons, when the separating colon is set off by a blank on both sides *)
Theorem C04_param_time : forall (p0 mn p1 u p2 v p3 p4 d p5 : list N) (is_curves : bool),
  padding6 p0 p1 p2 p3 p4 p5 = true ->
  conf_mnem mn = true -> conf_unit u = true -> conf_text v = true -> conf_text d = true ->
  value_set_off p2 v = true ->
  clock_colons v = true ->
  negb (is_nil p3) && negb (is_nil p4) = true ->
  (is_curves = true -> curves_plain (layout p0 mn p1 u p2 v p3 p4 d p5) = true) ->
  read_header_line (layout p0 mn p1 u p2 v p3 p4 d p5) is_curves true = Some (mkhl mn u v d).
Proof. exact param_time. Qed.

(* 5a. instance, ~Parameter with colon-free unit and description, ANY padding around the
   separating colon: whether or not the separating colon is excused by the look-arounds
   (then the time pattern fails and the ordinary pattern takes over) the result is the same *)
Theorem C04_param_parse : forall (p0 mn p1 u p2 v p3 p4 d p5 : list N) (is_curves : bool),
  padding6 p0 p1 p2 p3 p4 p5 = true ->
  conf_mnem mn = true -> conf_unit u = true -> conf_text v = true -> conf_text d = true ->
  value_set_off p2 v = true ->
  clock_colons v = true -> in_str 58 u = false -> in_str 58 d = false ->
  (is_curves = true -> curves_plain (layout p0 mn p1 u p2 v p3 p4 d p5) = true) ->
  read_header_line (layout p0 mn p1 u p2 v p3 p4 d p5) is_curves true = Some (mkhl mn u v d).
Proof. exact param_parse. Qed.

(* 5b. all 24 hours x 60 minutes of  TIME.  hh:mm 23-JAN-2001 : Time: At Bottom  (a finite
   sweep evaluated by the kernel; bound stated) *)
Theorem C04_param_time_sweep : forall h mi : nat, (h < 24)%nat -> (mi < 60)%nat ->
  read_header_line (time_line h mi) false true = Some (time_expected h mi).
Proof. exact time_sweep. Qed.

(* 6. universal over ALL lines (not only conformant layouts): a newline-free line that contains
   a period or a colon always parses (no AttributeError), and the parsed mnemonic never
   contains a period — outside the ~Curves dots special case *)
Theorem C04_total_on_period_lines : forall (line : list N) (is_curves is_param : bool),
  in_str 46 line || in_str 58 line = true ->
  in_str 10 line = false ->
  (is_curves = true -> no_double_dot line = true) ->
  read_header_line line is_curves is_param <> None.
Proof. exact total_on_lines. Qed.

Theorem C04_name_no_period : forall (line : list N) (is_curves is_param : bool) (h : hline),
  (is_curves = true -> no_double_dot line = true) ->
  read_header_line line is_curves is_param = Some h ->
  in_str 46 (h_name h) = false.
Proof. exact name_no_period. Qed.

(* ---- non-vacuity: concrete instances satisfying every hypothesis, and the model's result *)
(* paddings ex_p0 .. ex_p5 (blank/tab mixes) are defined in HeaderLineSpec.v *)

Example C04_ex_main_hyps :
  padding6 ex_p0 ex_p1 ex_p2 ex_p3 ex_p4 ex_p5 = true /\ conf_mnem (s2l "SP GR") = true /\
  conf_unit (s2l "m.s:x") = true /\ conf_text (s2l "12:30 (a)") = true /\
  conf_text (s2l "Top ""depth""") = true /\ value_set_off ex_p2 (s2l "12:30 (a)") = true /\
  in_str 58 (s2l "Top ""depth""") = false /\
  no_double_dot (layout ex_p0 (s2l "SP GR") ex_p1 (s2l "m.s:x") ex_p2 (s2l "12:30 (a)") ex_p3
                   ex_p4 (s2l "Top ""depth""") ex_p5) = true.
Proof. vm_compute. repeat split; reflexivity. Qed.
Example C04_ex_main :
  read_header_line (layout ex_p0 (s2l "SP GR") ex_p1 (s2l "m.s:x") ex_p2 (s2l "12:30 (a)") ex_p3
                      ex_p4 (s2l "Top ""depth""") ex_p5) false false
  = Some (mkhl (s2l "SP GR") (s2l "m.s:x") (s2l "12:30 (a)") (s2l "Top ""depth""")).
Proof. vm_compute. reflexivity. Qed.
Example C04_ex_curves :
  read_header_line (layout ex_p0 (s2l "SP GR") ex_p1 (s2l "m.s:x") ex_p2 (s2l "12:30 (a)") ex_p3
                      ex_p4 (s2l "Top ""depth""") ex_p5) true false
  = Some (mkhl (s2l "SP GR") (s2l "m.s:x") (s2l "12:30 (a)") (s2l "Top ""depth""")).
Proof. vm_compute. reflexivity. Qed.
(* everything empty but the mnemonic, no padding at all: "DEPT.:" (the back-off case) *)
Example C04_ex_empty_hyps :
  padding6 [] [] [] [] [] [] = true /\ conf_mnem (s2l "DEPT") = true /\ conf_unit [] = true /\
  conf_text [] = true /\ value_set_off [] [] = true /\ in_str 58 [] = false.
Proof. vm_compute. repeat split; reflexivity. Qed.
Example C04_ex_empty :
  read_header_line (layout [] (s2l "DEPT") [] [] [] [] [] [] [] []) false false
  = Some (mkhl (s2l "DEPT") [] [] []).
Proof. vm_compute. reflexivity. Qed.
(* unit with a colon directly against the separator: "M.a:b:desc" *)
Example C04_ex_backoff :
  conf_unit (s2l "a:b") = true /\
  read_header_line (layout [] (s2l "M") [] (s2l "a:b") [] [] [] [] (s2l "desc") []) false false
  = Some (mkhl (s2l "M") (s2l "a:b") [] (s2l "desc")).
Proof. vm_compute. split; reflexivity. Qed.

Example C04_ex_np_hyps :
  blanks ex_p0 && blanks ex_p1 && blanks ex_p4 && blanks ex_p5 = true /\
  conf_name_np (s2l "WELL NAME") = true /\ conf_text (s2l "A.1: x") = true /\
  no_double_dot (layout_np ex_p0 (s2l "WELL NAME") ex_p1 ex_p4 (s2l "A.1: x") ex_p5) = true.
Proof. vm_compute. repeat split; reflexivity. Qed.
Example C04_ex_np :
  read_header_line (layout_np ex_p0 (s2l "WELL NAME") ex_p1 ex_p4 (s2l "A.1: x") ex_p5) false true
  = Some (mkhl (s2l "WELL NAME") [] (s2l "A.1: x") []).
Proof. vm_compute. reflexivity. Qed.

Example C04_ex_num_hyps :
  conf_numeric_unit (s2l "1000") 32 (s2l "lbf") = true /\ conf_text [] = true /\
  value_set_off [] [] = true /\ padding6 [] ex_p1 [] ex_p3 ex_p4 [] = true.
Proof. vm_compute. repeat split; reflexivity. Qed.
Example C04_ex_num :
  read_header_line (layout [] (s2l "TENS") ex_p1 (s2l "1000" ++ [32] ++ s2l "lbf") [] [] ex_p3
                      ex_p4 (s2l "Tension") []) false false
  = Some (mkhl (s2l "TENS") (s2l "1000 lbf") [] (s2l "Tension")).
Proof. vm_compute. reflexivity. Qed.

Example C04_ex_time_hyps :
  conf_text (s2l "13:45:07 23-JAN-2001") = true /\ clock_colons (s2l "13:45:07 23-JAN-2001") = true /\
  value_set_off ex_p2 (s2l "13:45:07 23-JAN-2001") = true /\
  negb (is_nil ex_p3) && negb (is_nil ex_p4) = true /\ conf_text (s2l "Time: At Bottom") = true /\
  conf_unit [] = true.
Proof. vm_compute. repeat split; reflexivity. Qed.
Example C04_ex_time :
  read_header_line (layout ex_p0 (s2l "TIME") ex_p1 [] ex_p2 (s2l "13:45:07 23-JAN-2001") ex_p3
                      ex_p4 (s2l "Time: At Bottom") ex_p5) false true
  = Some (mkhl (s2l "TIME") [] (s2l "13:45:07 23-JAN-2001") (s2l "Time: At Bottom")).
Proof. vm_compute. reflexivity. Qed.
(* ~Parameter, separator NOT set off and excused by its look-behind (" 13:"): the time pattern
   fails and the ordinary pattern takes over — same result (C04_param_parse) *)
Example C04_ex_param_blocked :
  sect_ok false true (layout [] (s2l "RUN") [] [] ex_p1 (s2l "13") [] [] (s2l "run number") [])
          [] (s2l "13") [] [] (s2l "run number") = true /\
  read_header_line (layout [] (s2l "RUN") [] [] ex_p1 (s2l "13") [] [] (s2l "run number") []) false true
  = Some (mkhl (s2l "RUN") [] (s2l "13") (s2l "run number")).
Proof. vm_compute. split; reflexivity. Qed.
Example C04_ex_num_param :
  sect_ok false true (layout [] (s2l "TENS") ex_p1 (s2l "1000" ++ [32] ++ s2l "lbf") [] [] ex_p3
                        ex_p4 (s2l "Max: tension") []) (s2l "1000" ++ [32] ++ s2l "lbf") [] ex_p3 ex_p4
          (s2l "Max: tension") = true /\
  read_header_line (layout [] (s2l "TENS") ex_p1 (s2l "1000" ++ [32] ++ s2l "lbf") [] [] ex_p3
                      ex_p4 (s2l "Max: tension") []) false true
  = Some (mkhl (s2l "TENS") (s2l "1000 lbf") [] (s2l "Max: tension")).
Proof. vm_compute. split; reflexivity. Qed.
Example C04_ex_digit_unit :
  conf_digit_unit (s2l "1000") [32; 32] (s2l "12.5") = true /\
  sect_ok_plain true true (layout [] (s2l "TENS") [] (s2l "1000") [32; 32] (s2l "12.5") [] [32] (s2l "max") [])
                (s2l "12.5") (s2l "max") = true /\
  read_header_line (layout [] (s2l "TENS") [] (s2l "1000") [32; 32] (s2l "12.5") [] [32] (s2l "max") []) false true
  = Some (mkhl (s2l "TENS") (s2l "1000") (s2l "12.5") (s2l "max")) /\
  conf_digit_unit (s2l "1000") [] [] = true /\
  read_header_line (layout [] (s2l "TENS") [] (s2l "1000") [] [] [32] [32] (s2l "max") []) false false
  = Some (mkhl (s2l "TENS") (s2l "1000") [] (s2l "max")).
Proof. vm_compute. repeat split; reflexivity. Qed.
(* ~Curves with ".." in the description only *)
Example C04_ex_curves_dd_descr :
  sect_ok true false (layout [] (s2l "GR") [] (s2l "API") [32] (s2l "1") [32] [32] (s2l "see a..b") [])
          (s2l "API") (s2l "1") [32] [32] (s2l "see a..b") = true /\
  read_header_line (layout [] (s2l "GR") [] (s2l "API") [32] (s2l "1") [32] [32] (s2l "see a..b") []) true false
  = Some (mkhl (s2l "GR") (s2l "API") (s2l "1") (s2l "see a..b")).
Proof. vm_compute. split; reflexivity. Qed.
(* neither period nor colon: no pattern matches (why C04_total_on_period_lines needs one) *)
Example C04_ex_no_match : read_header_line (s2l "just words") false false = None.
Proof. vm_compute. reflexivity. Qed.
Example C04_ex_odd_line :
  read_header_line (s2l "a.b.c d:e:f") false true = Some (mkhl (s2l "a") (s2l "b.c") (s2l "d") (s2l "e:f")).
Proof. vm_compute. reflexivity. Qed.
Example C04_ex_sweep_line : l2s (time_line 7 5) = "TIME.  07:05 23-JAN-2001 : Time: At Bottom".
Proof. vm_compute. reflexivity. Qed.

Print Assumptions C04_patterns_current.
Print Assumptions C04_parse_all.
Print Assumptions C04_main_parse.
Print Assumptions C04_curves_parse.
Print Assumptions C04_missing_period.
Print Assumptions C04_numeric_unit.
Print Assumptions C04_digit_unit.
Print Assumptions C04_no_double_dot_plain.
Print Assumptions C04_param_time.
Print Assumptions C04_param_parse.
Print Assumptions C04_param_time_sweep.
Print Assumptions C04_total_on_period_lines.
Print Assumptions C04_name_no_period.

(* ---- pattern selection is the Python's ------------------------------------------------------
   configure_patterns (the function every theorem above is about) equals, for every line and
   every section name, the list of regex ASTs that reader.configure_metadata_patterns builds:
   py_configure_metadata_patterns is re-translated from /repo's source on every run
   (translators/funcs.py -> Gen/Funcs.v), so an edit of the Python branch logic breaks this. *)
Require Import Funcs FuncsPinsLib FuncsPinConfigure.
Theorem C04_selection_current : forall line section_name,
  configure_patterns line (str_eqb section_name name_Curves) (str_eqb section_name name_Parameter)
  = pats_re (py_configure_metadata_patterns line section_name).
Proof. exact configure_patterns_pin. Qed.
Print Assumptions C04_selection_current.

(* ---- the treatment of the matched groups is the Python's ------------------------------------------
   What read_header_line does with the groups of the matching pattern (strip each, drop the periods of
   a unit that ends with one; a group the pattern lacks stays "") equals the loop over m.groupdict()
   re-translated on every run from reader.read_header_line (py_header_line_fields); groupdict g0..g3 is
   the dict of the groups present, hline_dict the dict the function returns. *)
Require Import FuncsPinHeaderLine.
Theorem C04_fields_current : forall g0 g1 g2 g3,
  py_header_line_fields (groupdict g0 g1 g2 g3)
  = Some (hline_dict (mkhl (strip (gv g0)) (fix_unit (gv g1)) (strip (gv g2)) (strip (gv g3)))).
Proof. exact header_fields_pin. Qed.
Theorem C04_fields_composition_current : forall line is_curves is_param,
  read_header_line line is_curves is_param =
  match first_match (configure_patterns line is_curves is_param) line with
  | None => None
  | Some y =>
      Some (mkhl (strip (gv (group_opt 0%nat (caps y)))) (fix_unit (gv (group_opt 1%nat (caps y))))
                 (strip (gv (group_opt 2%nat (caps y)))) (strip (gv (group_opt 3%nat (caps y)))))
  end.
Proof. exact read_header_line_fields. Qed.
Print Assumptions C04_fields_current.
Print Assumptions C04_fields_composition_current.

(* ---- the whole of read_header_line is the Python's ---------------------------------------------------
   C04_fields_current above covers only the loop over the matched groups.  Here the whole function
   body (called with pattern=None, the only way lasio calls it) is re-translated on every run
   (py_read_header_line): the patterns are those of the translated configure_metadata_patterns, they are
   tried in order with re.match until one matches (the loop with `break`), m.groupdict() is the dict of the
   named groups that took part (pyo_groupdict; None: m is None, AttributeError), then the loop over the
   groups.  A change of re.match to another call, of the order of the attempts, or a statement that rewrites
   `line` before matching changes the translation and breaks this theorem (or is refused by the translator). *)
Theorem C04_read_header_line_current : forall line section_name,
  py_read_header_line line None section_name
  = option_map hline_dict (read_header_line line (str_eqb section_name name_Curves) (str_eqb section_name name_Parameter)).
Proof. exact read_header_line_pin. Qed.
Print Assumptions C04_read_header_line_current.
