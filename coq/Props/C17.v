(* Props.C17 — pickle and deepcopy reproduce a LASFile exactly, duplicates included.
   Statements only; proofs in Proofs/ItemsInvProofs.v; model Model/Items.v.

   Reading.  reduce : item -> (class, constructor arguments, state) is HeaderItem.__reduce__;
   rebuild is what pickle / copy do with it: call the class on the arguments, then update the
   object's __dict__ with the state.  A section copies as SectionItems.__reduce__ says: the
   items one by one, SectionItems(list) (list.__init__: no append, no re-suffixing;
   mnemonic_transforms := False), then the __dict__ (mnemonic_transforms) is restored.
   pickle_section and deepcopy_section are that protocol; both pickle (all protocols) and
   copy.deepcopy follow it because the classes define __reduce__ (copyreg / copy._reconstruct).

   PARTIAL BY NATURE (hence the suffix on the section/LASFile theorems): what is proved is the
   lasio logic -- __reduce__, the constructors, the state restore, "no suffix rule on the way".
   Assumed (oracle, exercised by the correspondence run on protocols 0..5 and deepcopy): that
   pickle/copy implement the __reduce__ protocol as documented, copy payload values (str,
   float, numpy arrays with their dtype) faithfully, copy LASFile.__dict__ entry by entry, and
   produce objects that share nothing with the original (independence is by construction in a
   value-semantics model and is checked on the implementation by mutation).

   item_ok: a CurveItem's data is an array, never None (CurveItem.__init__ makes it so; the
   constructor would turn None into an empty array).  It holds in every state built through
   the API (C17_reachable). *)
From Coq Require Import List NArith ZArith Bool String.
Import ListNotations.
Require Import PyStr Items ItemsSpec ItemsProofs ItemsInvProofs.
Open Scope N_scope.

(* an item: all seven observable fields (original and session mnemonic, unit, value, descr,
   data, class) survive -- record equality *)
Theorem C17_item : forall it, item_ok it = true -> rebuild (reduce it) = it.
Proof. exact copy_item_id. Qed.

(* a section: items, their order, their session names (stale suffixes and gaps included) and
   the comparison mode survive; no invariant is needed *)
Theorem C17_pickle_partial : forall s, forallb item_ok (items s) = true -> pickle_section s = s.
Proof. exact pickle_section_id. Qed.
Theorem C17_deepcopy_partial : forall s, forallb item_ok (items s) = true -> deepcopy_section s = s.
Proof. exact deepcopy_section_id. Qed.

(* every section reachable through the API satisfies the hypothesis *)
Theorem C17_reachable_partial : forall tr ops,
  let s := fold_left step ops (empty_section tr) in pickle_section s = s /\ deepcopy_section s = s.
Proof. exact reachable_copy_id. Qed.

(* a LASFile's header sections *)
Theorem C17_lasfile_partial : forall las,
  forallb (fun p => forallb item_ok (items (snd p))) las = true ->
  copy_las pickle_section las = las /\ copy_las deepcopy_section las = las.
Proof. exact lasfile_copy_id. Qed.

(* hence anything computed from the copy -- write() output in particular -- equals what is
   computed from the original *)
Theorem C17_write_partial : forall (W : Type) (write : lasfile -> W) las,
  forallb (fun p => forallb item_ok (items (snd p))) las = true ->
  write (copy_las pickle_section las) = write las /\ write (copy_las deepcopy_section las) = write las.
Proof. exact lasfile_write_same. Qed.

(* ---- the pinned tree --------------------------------------------------------------------- *)
(* F12: __reduce__ handed the SESSION mnemonic to the constructor *)
Definition sflu1 : item := mkItem (s2l "SFLU") (s2l "SFLU:1") (s2l "OHMM") [] (s2l "d") (s2l "D2:1,2") true.
Theorem C17_item_refuted_prefix :
  item_ok sflu1 = true /\ wf_item sflu1 /\ orig (rebuild_prefix (reduce_prefix sflu1)) = s2l "SFLU:1".
Proof. split; [reflexivity|split; [right; exists 1%nat; reflexivity|reflexivity]]. Qed.

(* before 8f04ac3 SectionItems had the default list-subclass protocol: copy.deepcopy re-added
   the items through append(), which re-ran the suffix rule -- a section with a gap in its
   numbering (after a deletion) came back re-numbered although it satisfies the invariant *)
Definition gap_ops : list op :=
  [OpAppend (mkArgs false (s2l "A") [] [] [] none_data); OpAppend (mkArgs false (s2l "A") [] [] [] none_data);
   OpAppend (mkArgs false (s2l "A") [] [] [] none_data); OpDelete (KInt 1)].
Theorem C17_default_deepcopy_refuted :
  let s := fold_left step gap_ops (empty_section false) in
  Inv s /\ keys s = [s2l "A:1"; s2l "A:3"] /\ keys (default_deepcopy_section s) = [s2l "A:1"; s2l "A:2"]
  /\ deepcopy_section s = s.
Proof.
  split; [|split; [|split]].
  - apply inv_reachable. apply colon_free_no_clash. reflexivity.
  - vm_compute. reflexivity.
  - vm_compute. reflexivity.
  - apply (proj2 (C17_reachable_partial false gap_ops)).
Qed.

(* ---- non-vacuity --------------------------------------------------------------------------- *)
Example C17_ex_item : rebuild (reduce sflu1) = sflu1 /\ sess (rebuild (reduce sflu1)) = s2l "SFLU:1"
                      /\ orig (rebuild (reduce sflu1)) = s2l "SFLU".
Proof. repeat split. Qed.
Example C17_ex_section :
  let s := mkSection [sflu1; set_sess sflu1 (s2l "SFLU:3"); mkItem [] (s2l "UNKNOWN") [] [] [] none_data false] true in
  forallb item_ok (items s) = true /\ deepcopy_section s = s /\ transforms (pickle_section s) = true.
Proof. repeat split. Qed.
(* item_ok is needed: a CurveItem whose data was overwritten with None comes back with an empty array *)
Example C17_item_ok_needed :
  let it := mkItem (s2l "X") (s2l "X") [] [] [] none_data true in
  item_ok it = false /\ it_data (rebuild (reduce it)) = empty_array.
Proof. split; reflexivity. Qed.

Print Assumptions C17_item.
Print Assumptions C17_pickle_partial.
Print Assumptions C17_deepcopy_partial.
Print Assumptions C17_reachable_partial.
Print Assumptions C17_lasfile_partial.
Print Assumptions C17_write_partial.
Print Assumptions C17_item_refuted_prefix.
Print Assumptions C17_default_deepcopy_refuted.
