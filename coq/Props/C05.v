(* Props.C05 — every line is attributed to the section whose title precedes it.
   Statements only; proofs in Proofs/SectionsProofs.v and Proofs/ReadProofs.v.

   A file is `pre ++ render bs`: lines before the first title, then blocks, each a title
   line (first non-blank character '~') followed by body lines none of which is a title.
   find_sections / body_lines are the model of find_sections_in_file and of the slice
   [first_line+1 .. last_line] that the header-items loop, the normal engine, the numpy
   engine (islice) and the column sniffer all read (Model/Sections.v, Model/Read.v).

   Proved for every number, order and size of blocks (induction over the block list):
     C05_cut        the section table lists exactly the blocks' titles, in order;
     C05_bodies     the slice read for section i is exactly body i — inner and last
                    sections alike; no line dropped, duplicated or shared;
     C05_type_*     classification depends on the upper-cased letter after the tilde only;
     C05_steering_* only ~V (VERS, WRAP, DLM) and ~W (NULL) can change how later
                    sections and the data are interpreted; other sections never do.
     C05_others / C05_views / C05_read_blocks_congr / C05_steering_read_* (block "read level"
                    at the end of this file): the ~Other loop's text per block, read as a
                    function of the block views, and the steering clause at the level of read.
   C05_steering_only_V_W, C05_steering_W_only_null, C05_steering_V_not_null and
   C05_route_custom_frame are unfolding lemmas (see the block at the end).
   Not proved (covered by the correspondence only): that parse_section of body i yields
   the items a specification would assign (that is C03/C04).  Permutation invariance: see
   C05_views_permutation / C05_view_of_moved_block at the end of the file (at the level of the
   views; what `read` makes of them depends on order only through the steering values). *)
From Coq Require Import List Arith NArith Bool String.
Import ListNotations.
Require Import PyStr Regex Num Sections Read SectionsProofs ReadProofs.
Open Scope string_scope.
Open Scope list_scope.
Open Scope N_scope.

Theorem C05_cut : forall pre bs,
  forallb (fun l => negb (is_title l)) pre = true -> Forall wf_block bs ->
  map sp_title (find_sections (pre ++ render bs)) = map (fun b => strip (fst b)) bs.
Proof. exact titles_exact. Qed.

Theorem C05_bodies : forall pre bs,
  forallb (fun l => negb (is_title l)) pre = true -> Forall wf_block bs ->
  map (body_lines (pre ++ render bs)) (find_sections (pre ++ render bs)) = map snd bs.
Proof. exact bodies_exact. Qed.

Theorem C05_type_data : forall t c rest,
  strip t = 126 :: c :: rest -> ascii_upper c = 65 -> section_type t = TData.
Proof. exact section_type_data. Qed.

Theorem C05_type_other : forall t c rest,
  strip t = 126 :: c :: rest -> ascii_upper c = 79 -> contains (s2l "~Log_Data") (126 :: c :: rest) = false ->
  section_type t = TOther.
Proof. exact section_type_other. Qed.

Theorem C05_type_header : forall t c rest,
  strip t = 126 :: c :: rest -> ascii_upper c <> 65 -> ascii_upper c <> 79 ->
  contains (s2l "~Log_Data") (126 :: c :: rest) = false -> contains (s2l "_Data") (126 :: c :: rest) = false ->
  section_type t = THeader.
Proof. exact section_type_header. Qed.

Theorem C05_steering_only_V_W : forall letter sec ps,
  letter <> 86 -> letter <> 87 -> update_steering letter sec ps = ps.
Proof. exact steering_only_V_W. Qed.

Theorem C05_steering_W_only_null : forall sec ps,
  let ps' := update_steering 87 sec ps in
  p_version ps' = p_version ps /\ p_wrapped ps' = p_wrapped ps /\ p_dlm ps' = p_dlm ps /\
  p_las ps' = p_las ps /\ p_data ps' = p_data ps.
Proof. exact steering_W_only_null. Qed.

Theorem C05_steering_V_not_null : forall sec ps,
  let ps' := update_steering 86 sec ps in
  p_null ps' = p_null ps /\ p_las ps' = p_las ps /\ p_data ps' = p_data ps.
Proof. exact steering_V_not_null. Qed.

Theorem C05_route_custom_frame : forall v3 title letter sec l,
  letter <> 67 -> letter <> 80 -> letter <> 86 -> letter <> 87 ->
  contains (s2l "~Log_Definition") title = false -> contains (s2l "~Log_Parameter") title = false ->
  let l' := route v3 title letter sec l in
  l_version l' = l_version l /\ l_well l' = l_well l /\ l_curves l' = l_curves l /\
  l_params l' = l_params l /\ l_other l' = l_other l.
Proof. exact route_custom_keeps_standard. Qed.

(* non-vacuity: a three-block file with an inner data section *)
Definition ex_blocks : list block :=
  [(s2l "~V", [s2l "VERS. 2.0 : v"; s2l "WRAP. NO : w"]);
   (s2l " ~a data", [s2l "1 2"; s2l ""; s2l "#c"]);
   (s2l "~P", [])].
Example C05_ex_wf : Forall wf_block ex_blocks.
Proof. repeat constructor. Qed.
Example C05_ex_cut :
  map (body_lines (render ex_blocks)) (find_sections (render ex_blocks)) = map snd ex_blocks.
Proof. vm_compute. reflexivity. Qed.
Example C05_ex_type : section_type (s2l " ~a data") = TData.
Proof. vm_compute. reflexivity. Qed.

Print Assumptions C05_cut.
Print Assumptions C05_bodies.
Print Assumptions C05_type_data.
Print Assumptions C05_type_other.
Print Assumptions C05_type_header.
Print Assumptions C05_steering_only_V_W.
Print Assumptions C05_steering_W_only_null.
Print Assumptions C05_steering_V_not_null.
Print Assumptions C05_route_custom_frame.

(* ---- section typing and routing are the Python's ---------------------------------------------
   section_type / route equal the definitions re-translated on every run from
   reader.determine_section_type and from the section-letter chain of LASFile.read
   (translators/funcs.py -> Gen/Funcs.v).  stype_name t is the string the Python returns for t
   (injective: stype_name_inj); store_section key is `self.sections[key] = sct_items` on the
   model's record; titles start with '~'; None = IndexError on the title "~". *)
Require Import Funcs FuncsPinsLib FuncsPinSectionType FuncsPinRoute.
Theorem C05_section_type_current : forall title,
  stype_name (section_type title) = py_determine_section_type title.
Proof. exact section_type_pin. Qed.
Theorem C05_route_current : forall title sec l version_is_3,
  startswith [ch_tilde] title = true ->
  option_map (fun letter => route version_is_3 title letter sec l) (second_upper title)
  = option_map (fun key => store_section key sec l) (py_route_key title version_is_3 false).
Proof. exact route_pin. Qed.
Print Assumptions C05_section_type_current.
Print Assumptions C05_route_current.

(* ---- the steering block is the Python's ---------------------------------------------------------------
   update_steering equals the block of LASFile.read that lets a section's items update the provisional
   VERS / WRAP / DLM / NULL values, re-translated on every run from /repo (translators/funcs.py -> Gen/Funcs.v:
   py_update_steering; the membership test and the attribute access go through the translated
   SectionItems.__contains__ / __getitem__): only a title whose second character is V / v lets VERS, WRAP, DLM
   through, only W / w lets NULL through.  ssection_of / sitem_of (Proofs/FuncsPinSteering.v) show the model's
   section as the object the translated code reads (values wrapped in Some: the provisional NULL may be None). *)
Require Import FuncsPinSteering.
Theorem C05_steering_current : forall title sec ps,
  py_update_steering title (ssection_of sec) (Some (p_version ps)) (Some (p_wrapped ps)) (p_null ps) (Some (p_dlm ps))
  = option_map (fun letter => let ps' := update_steering letter sec ps in
                              (Some (p_version ps'), Some (p_wrapped ps'), p_null ps', Some (p_dlm ps')))
               (second_upper title).
Proof. exact steering_pin. Qed.
Print Assumptions C05_steering_current.

(* ==== BEGIN block "read level" (audit D6) =======================================================
   Correction of the header above: "free text assigned to exactly the section" and the read-level
   composition ARE proved (Proofs/BlocksCongr.v, Proofs/SteeringFrame.v); they are stated here.
   Of the theorems above, C05_steering_only_V_W, C05_steering_W_only_null, C05_steering_V_not_null
   and C05_route_custom_frame are UNFOLDING LEMMAS of update_steering / route (one `if` each);
   the property theorems about the steering clause are C05_steering_first_pass /
   C05_steering_read_frame / C05_steering_read_blocks below.

     C05_others          the ~Other loop: the text stored for section i is exactly the stripped
                         body lines of block i -- wherever the block lies, ~O in the middle of
                         the file included (the loop's own raw-line '~' test stops at the next
                         title); no line dropped, duplicated or taken from a neighbour;
     C05_views           title, body slice and ~Other text of every section at once = those of
                         the blocks, in order;
     C05_read_blocks_congr   Read.read is a function of the sequence of block views only: two
                         texts whose blocks correspond and cannot be told apart by their consumers
                         (header: same parse under every version/case/flag; ~Other: same stored
                         text; data: same sniffing, token stream and genfromtxt rows) read equal,
                         whatever lies before the first title and wherever the line numbers fall;
     C05_read_uses_steering  the only values of the first pass that read consults afterwards are
                         the state's p_dlm, p_wrapped, p_null (read_one_data), p_data/p_las3data
                         and p_las; p_version steers the parsing of the later header sections
                         inside the first pass;
     C05_steering_first_pass / C05_steering_read_frame
                         the steering values (VERS, WRAP, NULL, DLM as the reader holds them) at the
                         end of the first pass are determined by: the titles, the items found under
                         VERS / WRAP / DLM in the ~V-lettered header sections and the item found
                         under NULL in the ~W-lettered ones.  steer_sec asks NOTHING of the bodies of
                         ~C, ~P, custom, ~O and data sections, nothing of NULL in ~V, nothing of
                         VERS / WRAP / DLM in ~W: items of those names there do not steer;
     C05_steering_read_blocks   the same on blocks, syntactically: lines inserted anywhere in header
                         blocks -- any non-title lines in ~C / ~P / custom blocks (items named VERS,
                         WRAP, NULL, DLM included), lines that do not parse to VERS/WRAP/DLM in ~V
                         (NULL allowed), lines that do not parse to NULL in ~W (VERS/WRAP/DLM
                         allowed) -- and ANY change of ~O and data bodies leave the steering values
                         unchanged (whenever both first passes succeed).
     C05_views_permutation / C05_view_of_moved_block / C05_sections_count_perm
                         permutation invariance as one statement: for ANY reordering of the blocks
                         of a file (and any change of the title-free lines before the first title)
                         the multiset of (title, body slice, ~Other text) triples the reader sees
                         is the same -- every moved block is still seen with exactly its own title,
                         body lines and text, and the number of sections is unchanged.  Stated for
                         the views: the result of `read` on a permuted file may differ, but only
                         through the steering values (a ~V after ~W etc.), which the C05_steering
                         theorems characterise. *)
Require Import SectionParse DataRead SectionsProofs JunkProofs JunkSteering ReadCongr BlocksCongr JunkRead SteeringFrame.

Theorem C05_others : forall pre bs, notitles pre -> Forall wf_block bs ->
  map (other_text (pre ++ render bs)) (find_sections (pre ++ render bs)) = map other_of_block bs.
Proof. exact others_exact. Qed.

Theorem C05_views : forall pre bs, notitles pre -> Forall wf_block bs ->
  map (view (pre ++ render bs)) (find_sections (pre ++ render bs)) = map block_view bs.
Proof. exact views_exact. Qed.

Theorem C05_read_blocks_congr : forall fhex fstr numeq o t t' pre bs pre' bs',
  lines_keep t = pre ++ render bs -> lines_keep t' = pre' ++ render bs' ->
  notitles pre -> notitles pre' -> Forall wf_block bs -> Forall wf_block bs' ->
  Forall2 block_equiv bs bs' ->
  read fhex fstr numeq o t = read fhex fstr numeq o t'.
Proof. exact read_blocks_congr. Qed.

Theorem C05_read_uses_steering : forall fhex fstr numeq o text,
  read fhex fstr numeq o text =
  match find_sections (lines_keep text) with
  | [] => RErr ENoSections
  | _ => match first_pass o (lines_keep text) ps_init (find_sections (lines_keep text)) with
         | inr e => RErr e
         | inl ps => match dlm_of (p_dlm ps) with
                     | None => RErr EKey
                     | Some d => if o_ignore_data o then ROk (p_las ps) else
                         match read_data_sections fhex fstr numeq o (lines_keep text) ps d
                                 (match p_data ps with [] => p_las3data ps | x => x end) (p_las ps) with
                         | inl l => ROk l | inr e => RErr e end end end end.
Proof. exact read_uses_steering. Qed.

Theorem C05_steering_first_pass : forall o ls ls' sects sects',
  Forall2 (steer_sec o ls ls') sects sects' ->
  forall ps ps', steer ps = steer ps' ->
  forall qs qs', first_pass o ls ps sects = inl qs -> first_pass o ls' ps' sects' = inl qs' ->
  steer qs = steer qs'.
Proof. exact first_pass_steering. Qed.

Theorem C05_steering_read_frame : forall o t t',
  Forall2 (steer_sec o (lines_keep t) (lines_keep t'))
          (find_sections (lines_keep t)) (find_sections (lines_keep t')) ->
  forall s s', read_steering o t = Some s -> read_steering o t' = Some s' -> s = s'.
Proof. exact read_steering_frame. Qed.

Theorem C05_steering_read_blocks : forall o t t' pre pre' bs bs',
  lines_keep t = pre ++ render bs -> lines_keep t' = pre' ++ render bs' ->
  notitles pre -> notitles pre' -> Forall wf_block bs -> Forall wf_block bs' ->
  Forall2 (steer_ins_block (o_mcase o)) bs bs' ->
  forall s s', read_steering o t = Some s -> read_steering o t' = Some s' -> s = s'.
Proof. exact read_steering_blocks. Qed.

(* definitions used above, spelled out (unfolding lemmas) *)
Theorem C05_steer_sec_unfold : forall o ls ls' p p',
  steer_sec o ls ls' p p' <->
  (sp_title p = sp_title p' /\
   (section_type (sp_title p) = THeader ->
    forall v r r',
      parse_section v (sp_title p) (o_mcase o) (o_ignore_header_errors o) [ch_hash] (body_lines ls p) = POk r ->
      parse_section v (sp_title p) (o_mcase o) (o_ignore_header_errors o) [ch_hash] (body_lines ls' p') = POk r' ->
      let tr := match o_mcase o with CasePreserve => false | _ => true end in
      (second_upper (sp_title p) = Some 86 ->
         sect_find tr (s2l "VERS") r' = sect_find tr (s2l "VERS") r /\
         sect_find tr (s2l "WRAP") r' = sect_find tr (s2l "WRAP") r /\
         sect_find tr (s2l "DLM") r' = sect_find tr (s2l "DLM") r) /\
      (second_upper (sp_title p) = Some 87 ->
         sect_find tr (s2l "NULL") r' = sect_find tr (s2l "NULL") r))).
Proof. reflexivity. Qed.

Theorem C05_steer_ins_block_unfold : forall c b b',
  steer_ins_block c b b' <->
  (fst b = fst b' /\
   (snd b = snd b' \/
    section_type (strip (fst b)) <> THeader \/
    ins_lines (fun j => forall v,
                 startswith [ch_tilde] (strip j) = false /\
                 forall it, parse_line v (kind_of_title (strip (strip (fst b)))) c (strip j) = Some it ->
                   forallb (fun key => negb (mn_compare (tr_of c) (useful (i_orig it)) key))
                           (match second_upper (strip (fst b)) with
                            | Some 86 => [s2l "VERS"; s2l "WRAP"; s2l "DLM"]
                            | Some 87 => [s2l "NULL"]
                            | _ => []
                            end) = true)
              (snd b) (snd b'))).
Proof. reflexivity. Qed.

Theorem C05_read_steering_unfold : forall o text,
  read_steering o text =
  match first_pass o (lines_keep text) ps_init (find_sections (lines_keep text)) with
  | inl ps => Some (p_version ps, p_wrapped ps, p_null ps, p_dlm ps)
  | inr _ => None
  end.
Proof. reflexivity. Qed.

(* non-vacuity: six blocks with ~O in the MIDDLE (ex_base of Proofs/SteeringFrame.v: ~V, ~W, ~O,
   ~C, ~MyCustom, ~A; every line with its "\n") and the file ex_more that adds NULL to ~V, VERS /
   WRAP / DLM to ~W, items named VERS, WRAP, NULL, DLM to ~C and ~MyCustom, replaces the ~O text
   and adds a data line *)
Example C05_ex_middle_other :
  Forall wf_block ex_base /\
  map (other_text (render ex_base)) (find_sections (render ex_base)) = map other_of_block ex_base /\
  nth 2 (map other_of_block ex_base) [] = s2l "free text" /\
  map (body_lines (render ex_base)) (find_sections (render ex_base)) = map snd ex_base.
Proof. split; [exact (proj1 steering_ex_wf)|]. vm_compute. repeat split; reflexivity. Qed.
(* ... and through read: ~Other holds its own line only, ~C its two items, the custom section is
   kept under its title, the data section its two rows *)
Example C05_ex_middle_other_read :
  match read (fun t => Some t) (fun t => t) (fun a b => str_eqb a b) ex_o (ex_text ex_base) with
  | ROk l => l_other l = s2l "free text" /\ map i_orig (s_items (l_curves l)) = [s2l "DEPT"; s2l "A"] /\
             map fst (l_custom l) = [s2l "MyCustom"] /\
             l_data l = [ [CNum (s2l "1"); CNum (s2l "3")]; [CNum (s2l "2"); CNum (s2l "4")] ]
  | RErr _ => False
  end.
Proof. vm_compute. repeat split; reflexivity. Qed.
Example C05_ex_steering_hyps :
  lines_keep (ex_text ex_base) = render ex_base /\ lines_keep (ex_text ex_more) = render ex_more /\
  Forall wf_block ex_base /\ Forall wf_block ex_more /\
  Forall2 (steer_ins_block CasePreserve) ex_base ex_more.
Proof.
  destruct steering_ex_lines as (E1 & E2 & _). destruct steering_ex_wf as (W1 & W2).
  repeat split; try assumption. exact steering_ex_blocks.
Qed.
Example C05_ex_steering_values :
  read_steering ex_o (ex_text ex_base) =
    Some (VFloat (s2l "2.0"), VStr (s2l "NO"), Some (VFloat (s2l "-999.25")), VStr (s2l "SPACE")) /\
  read_steering ex_o (ex_text ex_more) = read_steering ex_o (ex_text ex_base).
Proof. exact steering_ex_values. Qed.
(* negative control: a NULL line added to ~W itself does change the steering values *)
Example C05_ex_steering_negative :
  read_steering ex_o (ex_text ex_bad) <> read_steering ex_o (ex_text ex_base).
Proof. exact steering_ex_negative. Qed.

Print Assumptions C05_others.
Print Assumptions C05_views.
Print Assumptions C05_read_blocks_congr.
Print Assumptions C05_read_uses_steering.
Print Assumptions C05_steering_first_pass.
Print Assumptions C05_steering_read_frame.
Print Assumptions C05_steering_read_blocks.
Print Assumptions C05_steer_sec_unfold.
Print Assumptions C05_steer_ins_block_unfold.
Print Assumptions C05_read_steering_unfold.
(* ---- permutation invariance of the attribution of lines (Proofs/ViewsPerm.v) ---- *)
Require Import Permutation ViewsPerm.

Theorem C05_views_permutation : forall pre pre' bs bs',
  notitles pre -> notitles pre' -> Forall wf_block bs -> Permutation bs bs' ->
  Permutation (map (view (pre ++ render bs)) (find_sections (pre ++ render bs)))
              (map (view (pre' ++ render bs')) (find_sections (pre' ++ render bs'))).
Proof. exact views_permutation. Qed.

Theorem C05_view_of_moved_block : forall pre pre' bs bs' b,
  notitles pre -> notitles pre' -> Forall wf_block bs -> Permutation bs bs' -> In b bs ->
  In (block_view b) (map (view (pre' ++ render bs')) (find_sections (pre' ++ render bs'))).
Proof. exact view_of_moved_block. Qed.

Theorem C05_sections_count_perm : forall pre pre' bs bs',
  notitles pre -> notitles pre' -> Forall wf_block bs -> Permutation bs bs' ->
  List.length (find_sections (pre ++ render bs)) = List.length (find_sections (pre' ++ render bs')).
Proof. exact sections_count_perm. Qed.

(* non-vacuity: the example blocks reversed are a permutation and well-formed *)
Example C05_ex_perm : Permutation ex_base (rev ex_base) /\ Forall wf_block ex_base.
Proof. split; [apply Permutation_rev | exact (proj1 steering_ex_wf)]. Qed.

Print Assumptions C05_views_permutation.
Print Assumptions C05_view_of_moved_block.
Print Assumptions C05_sections_count_perm.
(* ==== END block "read level" (audit D6) ========================================================= *)
