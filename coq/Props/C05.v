(* Props.C05 — every line is attributed to the section whose title precedes it.
   Statements only; proofs in Proofs/SectionsProofs.v and Proofs/ReadProofs.v.

   A file is `pre ++ render bs`: lines before the first title, then blocks, each a title
   line (first non-blank character '~') followed by body lines none of which is a title.
   find_sections / body_lines are the model of find_sections_in_file and of the slice
   [first_line+1 .. last_line] that the header-items loop, the normal engine, the numpy
   engine (islice) and the column sniffer all read (Model/Sections.v, Model/Read.v).

   Proved for every number, order and size of blocks (induction over the block list):
     C05_cut        the section table lists exactly the blocks' titles, in order;
     C05_bodies     the slice read for section i is exactly body i — inner and last
                    sections alike; no line dropped, duplicated or shared;
     C05_type_*     classification depends on the upper-cased letter after the tilde only;
     C05_steering_* only ~V (VERS, WRAP, DLM) and ~W (NULL) can change how later
                    sections and the data are interpreted; other sections never do.
   Not proved (covered by the correspondence only): that parse_section of body i yields
   the items a specification would assign (that is C03/C04), permutation invariance as a
   single statement, and the ~Other loop's raw-line '~' test. *)
From Coq Require Import List Arith NArith Bool String.
Import ListNotations.
Require Import PyStr Regex Num Sections Read SectionsProofs ReadProofs.
Open Scope string_scope.
Open Scope list_scope.
Open Scope N_scope.

Theorem C05_cut : forall pre bs,
  forallb (fun l => negb (is_title l)) pre = true -> Forall wf_block bs ->
  map sp_title (find_sections (pre ++ render bs)) = map (fun b => strip (fst b)) bs.
Proof. exact titles_exact. Qed.

Theorem C05_bodies : forall pre bs,
  forallb (fun l => negb (is_title l)) pre = true -> Forall wf_block bs ->
  map (body_lines (pre ++ render bs)) (find_sections (pre ++ render bs)) = map snd bs.
Proof. exact bodies_exact. Qed.

Theorem C05_type_data : forall t c rest,
  strip t = 126 :: c :: rest -> ascii_upper c = 65 -> section_type t = TData.
Proof. exact section_type_data. Qed.

Theorem C05_type_other : forall t c rest,
  strip t = 126 :: c :: rest -> ascii_upper c = 79 -> contains (s2l "~Log_Data") (126 :: c :: rest) = false ->
  section_type t = TOther.
Proof. exact section_type_other. Qed.

Theorem C05_type_header : forall t c rest,
  strip t = 126 :: c :: rest -> ascii_upper c <> 65 -> ascii_upper c <> 79 ->
  contains (s2l "~Log_Data") (126 :: c :: rest) = false -> contains (s2l "_Data") (126 :: c :: rest) = false ->
  section_type t = THeader.
Proof. exact section_type_header. Qed.

Theorem C05_steering_only_V_W : forall letter sec ps,
  letter <> 86 -> letter <> 87 -> update_steering letter sec ps = ps.
Proof. exact steering_only_V_W. Qed.

Theorem C05_steering_W_only_null : forall sec ps,
  let ps' := update_steering 87 sec ps in
  p_version ps' = p_version ps /\ p_wrapped ps' = p_wrapped ps /\ p_dlm ps' = p_dlm ps /\
  p_las ps' = p_las ps /\ p_data ps' = p_data ps.
Proof. exact steering_W_only_null. Qed.

Theorem C05_steering_V_not_null : forall sec ps,
  let ps' := update_steering 86 sec ps in
  p_null ps' = p_null ps /\ p_las ps' = p_las ps /\ p_data ps' = p_data ps.
Proof. exact steering_V_not_null. Qed.

Theorem C05_route_custom_frame : forall title letter sec l,
  letter <> 67 -> letter <> 80 -> letter <> 86 -> letter <> 87 ->
  contains (s2l "~Log_Definition") title = false -> contains (s2l "~Log_Parameter") title = false ->
  let l' := route title letter sec l in
  l_version l' = l_version l /\ l_well l' = l_well l /\ l_curves l' = l_curves l /\
  l_params l' = l_params l /\ l_other l' = l_other l.
Proof. exact route_custom_keeps_standard. Qed.

(* non-vacuity: a three-block file with an inner data section *)
Definition ex_blocks : list block :=
  [(s2l "~V", [s2l "VERS. 2.0 : v"; s2l "WRAP. NO : w"]);
   (s2l " ~a data", [s2l "1 2"; s2l ""; s2l "#c"]);
   (s2l "~P", [])].
Example C05_ex_wf : Forall wf_block ex_blocks.
Proof. repeat constructor. Qed.
Example C05_ex_cut :
  map (body_lines (render ex_blocks)) (find_sections (render ex_blocks)) = map snd ex_blocks.
Proof. vm_compute. reflexivity. Qed.
Example C05_ex_type : section_type (s2l " ~a data") = TData.
Proof. vm_compute. reflexivity. Qed.

Print Assumptions C05_cut.
Print Assumptions C05_bodies.
Print Assumptions C05_type_data.
Print Assumptions C05_type_other.
Print Assumptions C05_type_header.
Print Assumptions C05_steering_only_V_W.
Print Assumptions C05_steering_W_only_null.
Print Assumptions C05_steering_V_not_null.
Print Assumptions C05_route_custom_frame.

(* ---- section typing and routing are the Python's ---------------------------------------------
   section_type / route equal the definitions re-translated on every run from
   reader.determine_section_type and from the section-letter chain of LASFile.read
   (translators/funcs.py -> Gen/Funcs.v).  stype_name t is the string the Python returns for t
   (injective: stype_name_inj); store_section key is `self.sections[key] = sct_items` on the
   model's record; titles start with '~'; None = IndexError on the title "~". *)
Require Import Funcs FuncsPinsLib FuncsPinSectionType FuncsPinRoute.
Theorem C05_section_type_current : forall title,
  stype_name (section_type title) = py_determine_section_type title.
Proof. exact section_type_pin. Qed.
Theorem C05_route_current : forall title sec l version_is_3,
  startswith [ch_tilde] title = true ->
  option_map (fun letter => route title letter sec l) (second_upper title)
  = option_map (fun key => store_section key sec l) (py_route_key title version_is_3 false).
Proof. exact route_pin. Qed.
Print Assumptions C05_section_type_current.
Print Assumptions C05_route_current.

(* ---- the steering block is the Python's ---------------------------------------------------------------
   update_steering equals the block of LASFile.read that lets a section's items update the provisional
   VERS / WRAP / DLM / NULL values, re-translated on every run from /repo (translators/funcs.py -> Gen/Funcs.v:
   py_update_steering; the membership test and the attribute access go through the translated
   SectionItems.__contains__ / __getitem__): only a title whose second character is V / v lets VERS, WRAP, DLM
   through, only W / w lets NULL through.  ssection_of / sitem_of (Proofs/FuncsPinSteering.v) show the model's
   section as the object the translated code reads (values wrapped in Some: the provisional NULL may be None). *)
Require Import FuncsPinSteering.
Theorem C05_steering_current : forall title sec ps,
  py_update_steering title (ssection_of sec) (Some (p_version ps)) (Some (p_wrapped ps)) (p_null ps) (Some (p_dlm ps))
  = option_map (fun letter => let ps' := update_steering letter sec ps in
                              (Some (p_version ps'), Some (p_wrapped ps'), p_null ps', Some (p_dlm ps')))
               (second_upper title).
Proof. exact steering_pin. Qed.
Print Assumptions C05_steering_current.
