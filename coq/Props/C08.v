(* Props.C08 — header values become numbers only when they are plain decimal literals.
   Statements only; the proofs are in Proofs/NumProofs.v.

   Reading.  The text of a value is first normalised by the documented decimal-comma rule
   (comma_to_dot: a ',' between two digits is the mark).  plain_decimal / plain_integer
   (Model/NumSpec.v) are written from the statement: optional sign, digits, optional
   fraction, optional exponent, ASCII only.  VFloat x means "the double CPython's float()
   assigns to the text x" (oracle); VInt z carries the exact integer. *)
From Coq Require Import List NArith ZArith Bool String.
Import ListNotations.
Require Import PyStr Regex NumLit Regexes Num NumSpec NumProofs HeaderLine Tables SectionParse BuildItemProofs.
Open Scope string_scope. Open Scope N_scope.

(* every text that is not a plain decimal literal is kept verbatim: 15_9, dates, inf, nan,
   hexadecimal, empty, non-ASCII digits, ... — for ALL strings s *)
Theorem C08_verbatim : forall s, ~ plain_decimal (comma_to_dot s) -> num s = VStr s.
Proof. exact num_text. Qed.

(* integer literals that fit 64 bits become that integer *)
Theorem C08_integer : forall s z,
  plain_integer (comma_to_dot s) z -> in_int64 z = true -> num s = VInt z.
Proof. exact num_int. Qed.

(* all other plain decimal literals become floats of exactly that literal text, unless
   the value overflows float64 (then the text is kept: "denoting a finite value") *)
Theorem C08_float : forall s,
  plain_decimal (comma_to_dot s) ->
  (forall z, plain_integer (comma_to_dot s) z -> in_int64 z = false) ->
  exists d, py_float_dec (comma_to_dot s) = Some d /\
            num s = if dec_overflows d then VStr s else VFloat (comma_to_dot s).
Proof. exact num_float. Qed.

(* the guard pattern in the source is the one the proofs are about *)
Theorem C08_guard_current : rx_numeric_literal = guard_ast /\ has_numeric_literal_guard = true.
Proof. exact guard_is_current. Qed.

(* which values reach num() at all (SectionParser.metadata / params / curves):
   items named API or UWI in any case keep their text outside ~Parameter, ~Curves values
   (API codes) are never converted, ~Parameter values always go through num *)
Theorem C08_api_uwi : forall v k h,
  k <> KCurves -> k <> KParameter -> is_number_string (h_name h) = true ->
  i_value (build_item v k h) = VStr (field_for_value v k h).
Proof. exact build_item_api_uwi. Qed.

Theorem C08_api_uwi_any_case : forall n,
  is_number_string n = true <-> upper n = s2l "API" \/ upper n = s2l "UWI".
Proof. exact is_number_string_cases. Qed.

Theorem C08_curves_raw : forall v h, i_value (build_item v KCurves h) = VStr (h_value h).
Proof. exact build_item_curves_raw. Qed.

Theorem C08_parameter_num : forall v h, i_value (build_item v KParameter h) = num (h_value h).
Proof. exact build_item_param_num. Qed.

Theorem C08_other_num : forall v k h,
  k <> KCurves -> k <> KParameter -> is_number_string (h_name h) = false ->
  i_value (build_item v k h) = num (field_for_value v k h).
Proof. exact build_item_other_num. Qed.

Example C08_ex_uwi : i_value (build_item V20 KWell (mkhl (s2l "Uwi") [] (s2l "0012345") (s2l "id"))) = VStr (s2l "0012345").
Proof. vm_compute. reflexivity. Qed.
Example C08_ex_api_param : i_value (build_item V20 KParameter (mkhl (s2l "API") [] (s2l "0012") (s2l "x"))) = VInt 12.
Proof. vm_compute. reflexivity. Qed.

(* non-vacuity and sanity: concrete instances evaluated by the kernel *)
Example C08_ex_underscore : num (s2l "15_9") = VStr (s2l "15_9").
Proof. vm_compute. reflexivity. Qed.
Example C08_ex_int : num (s2l "-0042") = VInt (-42).
Proof. vm_compute. reflexivity. Qed.
Example C08_ex_comma : num (s2l "1,5e3") = VFloat (s2l "1.5e3").
Proof. vm_compute. reflexivity. Qed.
Example C08_ex_big : num (s2l "9223372036854775808") = VFloat (s2l "9223372036854775808").
Proof. vm_compute. reflexivity. Qed.
Example C08_ex_ovf : num (s2l "1e400") = VStr (s2l "1e400").
Proof. vm_compute. reflexivity. Qed.
Example C08_ex_plain : plain_decimal (s2l "+12.5E-3").
Proof.
  exists [43], (s2l "12.5"), (s2l "E-3"). repeat split.
  - right; left; reflexivity.
  - right; left. exists (s2l "12"), (s2l "5"). repeat split.
  - right. exists 69, [45], [51]. repeat split. right; reflexivity. right; right; reflexivity.
Qed.

Print Assumptions C08_verbatim.
Print Assumptions C08_integer.
Print Assumptions C08_float.
Print Assumptions C08_guard_current.
Print Assumptions C08_api_uwi.
Print Assumptions C08_api_uwi_any_case.
Print Assumptions C08_curves_raw.
Print Assumptions C08_parameter_num.
Print Assumptions C08_other_num.

(* ---- num and the three SectionParser methods are the Python's -----------------------------------
   num and build_item equal the definitions re-translated on every run from SectionParser.num /
   curves / params / metadata (translators/funcs.py -> Gen/Funcs.v).  The external calls np.int64,
   np.float64, np.isfinite are the operations of num_hval_ops (Proofs/FuncsPinNum.v: the model's reading
   of int() / float() literal syntax, int64 range and float64 overflow - the oracle assumption of this
   property); self.orders / self.default_order are what SectionParser.__init__ builds from the table entry
   (parser_orders / parser_entry, Proofs/FuncsPinParser.v).  Some: strip_brackets never raises. *)
Require Import Funcs FuncsPinStandardize FuncsPinWriter FuncsPinNum FuncsPinParser.
Theorem C08_num_current : forall fstr fzero s,
  num s = py_num (hval_ops fstr fzero) num_hval_ops s None.
Proof. exact num_pin. Qed.
Theorem C08_curves_current : forall fstr fzero v h,
  py_parser_curves (hval_ops fstr fzero) (keys_of h) = Some (item_of (build_item v KCurves h)).
Proof. exact curves_pin. Qed.
Theorem C08_params_current : forall fstr fzero v h,
  py_parser_params (hval_ops fstr fzero) num_hval_ops (keys_of h) = Some (item_of (build_item v KParameter h)).
Proof. exact params_pin. Qed.
Theorem C08_metadata_current : forall fstr fzero v k h,
  k <> KCurves -> k <> KParameter ->
  py_parser_metadata (hval_ops fstr fzero) num_hval_ops
    (parser_orders (snd (parser_entry v k))) (order_str (fst (parser_entry v k))) (keys_of h)
  = Some (item_of (build_item v k h)).
Proof. exact metadata_pin. Qed.
(* the hypotheses of C08_metadata_current are met: a 1.2 ~Well line whose value and description swap *)
Example C08_metadata_current_nonvacuous :
  KWell <> KCurves /\ KWell <> KParameter /\
  fst (parser_entry V12 KWell) = DescrValue /\ parser_orders (snd (parser_entry V12 KWell)) <> [].
Proof. repeat split; try discriminate. Qed.
Print Assumptions C08_num_current.
Print Assumptions C08_curves_current.
Print Assumptions C08_params_current.
Print Assumptions C08_metadata_current.

(* ---- which parser method a title selects, and with which orders, is the Python's -------------------
   SectionParser.__init__ re-translated on every run as (title, version) -> (func, section_name2,
   default_order, orders) (py_parser_init) chooses the method kind_of_title names and stores the orders
   parser_entry names, for every title that starts with "~" and every version but 3.0; and the parser so
   built, applied to a parsed line (parser_call = __call__), is build_item. *)
Require Import FuncsPinParserInit.
Theorem C08_parser_init_current : forall t v,
  startswith [ch_tilde] t = true -> v <> V30 ->
  py_parser_init t v =
  let k := kind_of_title t in
  Some (func_tag k, name2 k t,
        Some (order_str (fst (parser_entry v k))), Some (parser_orders (snd (parser_entry v k)))).
Proof. exact parser_init_pin. Qed.
Theorem C08_parser_call_current : forall fstr fzero t v h func n2 dflt orders,
  startswith [ch_tilde] t = true -> v <> V30 ->
  py_parser_init t v = Some (func, n2, Some dflt, Some orders) ->
  parser_call fstr fzero func dflt orders (keys_of h) = Some (item_of (build_item v (kind_of_title t) h)).
Proof. exact parser_call_pin. Qed.
(* the hypotheses are met: "~Well" read as 1.2 selects metadata with the swapped default order *)
Example C08_parser_init_nonvacuous :
  let t := s2l "~Well Information" in
  startswith [ch_tilde] t = true /\ V12 <> V30 /\
  exists n2 orders, py_parser_init t V12 = Some (tag_metadata, n2, Some (order_str DescrValue), Some orders) /\ orders <> [].
Proof. repeat split; try discriminate. eexists. eexists. split; [vm_compute; reflexivity|discriminate]. Qed.
Print Assumptions C08_parser_init_current.
Print Assumptions C08_parser_call_current.
