(* Props.C10 — "Result is independent of input channel and encoding; reads are pure".
   Statements only; the proofs are in Proofs/ChannelsProofs.v, the model in Model/Channels.v.

   Reading.  lasio.read(x, **kw) first turns x into a text (reader.open_file) and then parses
   that text; nothing after open_file looks at x again.  So "the same LAS text gives equal
   results whatever the channel" is: every channel DELIVERS the same text t — then any
   function `parse` of the delivered text (the whole reader) gives equal results
   (C10_channels_parse; this is how "lasio.read gives equal results" is expressed without the
   reader model).  `las.encoding` is NOT part of "the result" here: it records the channel by
   design (None for strings and file objects, the codec name for files) and is stated
   separately (second component of open_file's result).

   The world is a set of oracles (Section variables): the file system, Path.absolute, the URL
   test, bytes.decode / str.encode, chardet, the ad-hoc readline probe, the locale encoding,
   universal-newline translation.  The assumptions about them are the two Section hypotheses
   and the per-codec premise `codec_ok`; after `End` every theorem is universally quantified
   over all of them — there are no axioms.

   STRENGTH: PARTIAL BY NATURE.  Proved: dispatch, encoding choice, and that all channels
   deliver the same text.  Assumed (hypotheses below): a codec decodes what it encoded;
   utf-8-sig strips the BOM; text mode maps CR / CRLF / LF line ends to LF.  Also trusted and
   only exercised by the correspondence run: text-mode tell()/seek() cookies under multi-byte
   encodings (the reader's section addresses), chardet's answers, Path.absolute.  Not
   expressible in this model: hidden shared mutable state in the Python heap (module globals,
   default arguments, items shared between LASFile objects) — see C10_pure.  URLs are out of
   scope (the model only says that the URL branch is taken). *)
From Coq Require Import List NArith Bool String.
Import ListNotations.
Require Import PyStr Channels ChannelsProofs.
Open Scope string_scope. Open Scope list_scope. Open Scope N_scope.

Section C10.
  Variable fs : str -> option (list N).                        (* path -> bytes of the file *)
  Variable absolute : str -> str.                              (* str(Path(p).absolute()) *)
  Variable is_url : str -> bool.                               (* URL_REGEXP.match *)
  Variable decode : str -> str -> list N -> option str.        (* enc, errors, bytes *)
  Variable encode : str -> str -> option (list N).             (* enc, text; None = unencodable *)
  Variable chardet_installed : bool.
  Variable chardet_detect : list N -> option str.              (* chardet.detect(raw)["encoding"] *)
  Variable readline_ok : str -> list N -> bool.                (* ad-hoc probe of one codec *)
  Variable locale_encoding : str.
  Variable unl : str -> str.                                   (* newline=None translation *)

  (* decoding with utf-8-sig undoes "BOM + utf-8 encoding" *)
  Hypothesis H_bom : forall errs t b,
    encode enc_utf8 t = Some b -> decode enc_utf8sig errs (BOM_UTF8 ++ b) = Some t.
  (* universal newlines: a CR-free text written with LF, CRLF or CR line ends reads back as is *)
  Hypothesis H_unl : forall n t, no_cr t = true -> unl (with_nl n t) = t.
  (* codec_ok decode encode enc  :=  forall errs t b, encode enc t = Some b -> decode enc errs b = Some t
     is a premise wherever a codec is named with encoding=. *)

  Notation open_file' :=
    (open_file fs absolute is_url decode chardet_installed chardet_detect readline_ok locale_encoding unl).
  Notation py_open' := (py_open fs decode locale_encoding unl).
  Notation dispatch' := (dispatch absolute is_url).
  Notation choose' := (choose_encoding chardet_installed chardet_detect readline_ok).
  Notation via' := (via fs absolute is_url decode chardet_installed chardet_detect readline_ok locale_encoding unl).

  (* (a) Every channel delivers the same text.
     t: a CR-free text with >= 2 splitlines() lines whose first line is not a URL.
     p: a non-empty path string without line-break characters that is not a URL; q: a
     pathlib.Path with str(q.absolute()) = p.  n: the newline style of the file on disk.
       * the string itself and a StringIO / any file object yielding t deliver t, encoding None;
       * a file holding  encode enc (t with line ends n)  read with encoding=enc (whatever
         autodetect_encoding / encoding_errors say) delivers t through the str path, the Path,
         and the caller's own open(p, encoding=enc) — provided the bytes do not begin with
         EF BB BF (true of every text whose first character is ASCII, and of UTF-16 with BOM);
       * a file holding  BOM ++ utf-8 bytes  delivers t with encoding "utf-8-sig" WHATEVER the
         keyword arguments say (the BOM test comes first and overrides encoding=). *)
  Theorem C10_channels : forall t n p q k,
    (2 <= List.length (splitlines t))%nat -> is_url (hd [] (splitlines t)) = false ->
    no_cr t = true ->
    p <> [] -> no_linebreak p = true -> is_url p = false -> absolute q = p ->
    (open_file' (RStr t) k = COk (t, None) /\ open_file' (RObj t) k = COk (t, None))
    /\
    (forall enc b, codec_ok decode encode enc -> enc <> [] ->
       encode enc (with_nl n t) = Some b -> fs p = Some b -> has_bom b = false ->
       kw_encoding k = Some enc ->
       open_file' (RStr p) k = COk (t, Some enc) /\
       open_file' (RPath q) k = COk (t, Some enc) /\
       py_open' p enc = COk t)
    /\
    (forall b, encode enc_utf8 (with_nl n t) = Some b -> fs p = Some (BOM_UTF8 ++ b) ->
       open_file' (RStr p) k = COk (t, Some enc_utf8sig) /\
       open_file' (RPath q) k = COk (t, Some enc_utf8sig) /\
       py_open' p enc_utf8sig = COk t).
  Proof.
    exact (channels_deliver fs absolute is_url decode encode chardet_installed chardet_detect
                            readline_ok locale_encoding unl H_bom H_unl).
  Qed.

  (* Hence, for ANY function parse of the delivered text, all channels give parse t.
     Caveat (last clause): an in-memory CRLF *string* (or StringIO) is delivered untranslated —
     it keeps its CRs; it agrees with the others iff the parser itself is LF<->CRLF invariant,
     which is property C09: that is the named premise C09_crlf_invariance. *)
  Theorem C10_channels_parse : forall (R : Type) (parse : str -> R) t n p q k,
    (2 <= List.length (splitlines t))%nat -> is_url (hd [] (splitlines t)) = false ->
    no_cr t = true ->
    p <> [] -> no_linebreak p = true -> is_url p = false -> absolute q = p ->
    (via' R parse (RStr t) k = Some (parse t) /\ via' R parse (RObj t) k = Some (parse t))
    /\
    (forall enc b, codec_ok decode encode enc -> enc <> [] ->
       encode enc (with_nl n t) = Some b -> fs p = Some b -> has_bom b = false ->
       kw_encoding k = Some enc ->
       via' R parse (RStr p) k = Some (parse t) /\ via' R parse (RPath q) k = Some (parse t))
    /\
    (forall b, encode enc_utf8 (with_nl n t) = Some b -> fs p = Some (BOM_UTF8 ++ b) ->
       via' R parse (RStr p) k = Some (parse t) /\ via' R parse (RPath q) k = Some (parse t))
    /\
    (forall C09_crlf_invariance : parse (with_nl CRLF t) = parse t,
       via' R parse (RStr (with_nl CRLF t)) k = Some (parse t) /\
       via' R parse (RObj (with_nl CRLF t)) k = Some (parse t)).
  Proof.
    exact (channels_parse fs absolute is_url decode encode chardet_installed chardet_detect
                          readline_ok locale_encoding unl H_bom H_unl).
  Qed.

  (* the CRLF string really is delivered with its CRs (no newline translation in memory) *)
  Theorem C10_crlf_string_untranslated : forall t k,
    no_cr t = true ->
    (2 <= List.length (splitlines t))%nat -> is_url (hd [] (splitlines t)) = false ->
    open_file' (RStr (with_nl CRLF t)) k = COk (with_nl CRLF t, None).
  Proof.
    exact (deliver_content_crlf fs absolute is_url decode chardet_installed chardet_detect
                                readline_ok locale_encoding unl).
  Qed.

  (* Which codec is used, as a function of (BOM?, encoding=, autodetect_encoding=, chardet):
     the decision table of open_with_codecs (the model follows the source's three `if` blocks
     over the two mutable locals; this is their closed form, by case analysis). *)
  Theorem C10_encoding_choice : forall k b,
    choose' k b =
      if has_bom b then COk (Some enc_utf8sig)                     (* BOM first: overrides all *)
      else if enc_truthy (kw_encoding k) then COk (kw_encoding k)  (* explicit encoding wins *)
      else if auto_truthy (kw_auto k) then                         (* detection requested *)
        match get_encoding chardet_installed chardet_detect (kw_auto k)
                           (read_n (nbytes_of (kw_nchars k)) b) with
        | CErr x => CErr x
        | COk e => if enc_truthy e then COk e                      (* chardet's answer *)
                   else COk (adhoc_test_encoding readline_ok b)    (* None: ad-hoc list *)
        end
      else COk (adhoc_test_encoding readline_ok b).
  Proof. exact (choose_encoding_table chardet_installed chardet_detect readline_ok). Qed.

  Theorem C10_encoding_choice_detector : forall a raw,
    get_encoding chardet_installed chardet_detect a raw =
      match a with
      | AutoTrue => COk (if chardet_installed then chardet_detect raw else None)
      | AutoStr s =>
          if str_eqb (List.map ascii_lower s) (s2l "chardet") then
            if chardet_installed then COk (chardet_detect raw) else CErr EImportError
          else CErr EUnboundLocalError
      | AutoFalse => CErr EAttributeError
      end.
  Proof. exact (get_encoding_table chardet_installed chardet_detect). Qed.

  Theorem C10_encoding_choice_adhoc : forall b,
    adhoc_test_encoding readline_ok b =
      if readline_ok (s2l "ascii") b then Some (s2l "ascii")
      else if readline_ok (s2l "windows-1252") b then Some (s2l "windows-1252")
      else if readline_ok (s2l "latin-1") b then Some (s2l "latin-1")
      else None.
  Proof. exact (adhoc_table readline_ok). Qed.

  (* the BOM is looked for in the first <= 32 bytes, i.e. at the start of the file *)
  Theorem C10_bom_detection : forall b,
    has_bom b = startswith BOM_UTF8 b /\ has_bom (BOM_UTF8 ++ b) = true.
  Proof. exact (fun b => conj (has_bom_startswith b) (has_bom_prefix b)). Qed.

  (* the rows of the table one reads off most often *)
  Theorem C10_encoding_bom_overrides : forall k b,
    has_bom b = true -> choose' k b = COk (Some enc_utf8sig).
  Proof. exact (choose_bom chardet_installed chardet_detect readline_ok). Qed.

  Theorem C10_encoding_explicit_wins : forall k b enc,
    has_bom b = false -> kw_encoding k = Some enc -> enc <> [] -> choose' k b = COk (Some enc).
  Proof. exact (choose_explicit chardet_installed chardet_detect readline_ok). Qed.

  Theorem C10_encoding_chardet : forall k b enc,
    has_bom b = false -> enc_truthy (kw_encoding k) = false -> kw_auto k = AutoTrue ->
    chardet_installed = true ->
    chardet_detect (read_n (nbytes_of (kw_nchars k)) b) = Some enc -> enc <> [] ->
    choose' k b = COk (Some enc).
  Proof. exact (choose_chardet chardet_installed chardet_detect readline_ok). Qed.

  Theorem C10_encoding_chardet_none : forall k b,
    has_bom b = false -> enc_truthy (kw_encoding k) = false -> kw_auto k = AutoTrue ->
    (chardet_installed = false \/ chardet_detect (read_n (nbytes_of (kw_nchars k)) b) = None) ->
    choose' k b = COk (adhoc_test_encoding readline_ok b).
  Proof. exact (choose_chardet_none chardet_installed chardet_detect readline_ok). Qed.

  Theorem C10_encoding_no_autodetect : forall k b,
    has_bom b = false -> enc_truthy (kw_encoding k) = false -> auto_truthy (kw_auto k) = false ->
    choose' k b = COk (adhoc_test_encoding readline_ok b).
  Proof. exact (choose_no_autodetect chardet_installed chardet_detect readline_ok). Qed.

  (* Which of content / file name / pass-through is chosen, as a function of the argument:
     Path -> str(absolute) and then as a str; a str is split with splitlines(): no line ->
     IndexError, first line a URL -> URL, more than one line -> content (the whole string),
     exactly one line -> that LINE (not the string: a trailing line break is dropped) is the
     file name; anything else is used as it is. *)
  Theorem C10_dispatch : forall r,
    dispatch' r =
      match r with
      | RObj t => ChPassthrough t
      | RPath p => dispatch' (RStr (absolute p))
      | RStr s =>
          match splitlines s with
          | [] => ChIndexError
          | first :: rest =>
              if is_url first then ChUrl first
              else if Nat.leb 2 (List.length (first :: rest)) then ChContent s
              else ChFilename first
          end
      end.
  Proof. exact (dispatch_table absolute is_url). Qed.

  Theorem C10_dispatch_empty : forall s, dispatch' (RStr s) = ChIndexError <-> s = [].
  Proof. exact (dispatch_empty absolute is_url). Qed.

  Theorem C10_dispatch_filename : forall p,
    p <> [] -> no_linebreak p = true -> is_url p = false -> dispatch' (RStr p) = ChFilename p.
  Proof. exact (dispatch_filename absolute is_url). Qed.

  (* (b) Purity.  In a functional model this is immediate: open_file / read_source are
     functions of (world, argument, keyword arguments) and nothing else, so the theorem below
     is just congruence and carries NO weight about the implementation.  What could break
     purity in Python — module-level state, mutable default arguments, default header items
     shared between LASFile objects — is not expressible here; the obligation that carries
     weight is the HISTORY correspondence of harness/props/c10.py (random interleavings of
     reads, mutations of earlier results, writes and re-reads on three live objects, each
     later read compared with the first read of the same text). *)
  Theorem C10_pure : forall r1 r2 k1 k2,
    r1 = r2 -> k1 = k2 ->
    read_source fs absolute is_url decode chardet_installed chardet_detect readline_ok
                locale_encoding unl r1 k1 =
    read_source fs absolute is_url decode chardet_installed chardet_detect readline_ok
                locale_encoding unl r2 k2.
  Proof. exact (fun r1 r2 k1 k2 Hr Hk => f_equal2 _ Hr Hk). Qed.
End C10.

(* ---- non-vacuity: a toy world in which every hypothesis holds ------------------------------ *)
(* toy codec: one byte per code point < 256 (Latin-1-like); "utf-8-sig" strips EF BB BF *)
Definition toy_encode (enc t : list N) : option (list N) :=
  if forallb (fun c => c <? 256) t then Some t else None.
Definition toy_strip_bom (b : list N) : list N :=
  match b with 239 :: 187 :: 191 :: b' => b' | _ => b end.
Definition toy_decode (enc errs b : list N) : option (list N) :=
  Some (if str_eqb enc enc_utf8sig then toy_strip_bom b else b).

Example C10_ex_H_bom : forall errs t b,
  toy_encode enc_utf8 t = Some b -> toy_decode enc_utf8sig errs (BOM_UTF8 ++ b) = Some t.
Proof.
  intros errs t b H. unfold toy_encode in H.
  destruct (forallb (fun c => c <? 256) t); [|discriminate]. injection H as <-. reflexivity.
Qed.
Example C10_ex_H_unl : forall n t, no_cr t = true -> unl_impl (with_nl n t) = t.
Proof. exact unl_impl_spec. Qed.
Example C10_ex_codec : codec_ok toy_decode toy_encode (s2l "latin-1").
Proof.
  intros errs t b H. unfold toy_encode in H.
  destruct (forallb (fun c => c <? 256) t); [|discriminate]. injection H as <-. reflexivity.
Qed.

(* "~V" / "VERS. 2.0 : é" / "~A" / "1 2" *)
Definition ex_text : list N :=
  s2l "~V" ++ [10] ++ s2l "VERS. 2.0 : " ++ [233] ++ [10] ++ s2l "~A" ++ [10] ++ s2l "1 2" ++ [10].
Definition ex_path : list N := s2l "/d/f.las".
Definition ex_fs (content : list N) (p : list N) : option (list N) :=
  if str_eqb p ex_path then Some content else None.
Definition ex_abs (p : list N) : list N := s2l "/d/" ++ p.
Definition ex_kw (e : option (list N)) : kwargs :=
  {| kw_encoding := e; kw_errors := s2l "replace"; kw_auto := AutoTrue; kw_nchars := Some 4000 |}.
Notation ex_open content :=
  (open_file (ex_fs content) ex_abs (fun _ => false) toy_decode true (fun _ => None)
             (fun _ _ => true) (s2l "utf-8") unl_impl).

(* the premises of C10_channels are jointly satisfiable and its conclusions are the concrete
   evaluations: CRLF Latin-1 file read with encoding="latin-1" through a str and a Path *)
Example C10_ex_channels_latin1 :
  let b := with_nl CRLF ex_text in
  toy_encode (s2l "latin-1") (with_nl CRLF ex_text) = Some b /\ has_bom b = false /\
  ex_open b (RStr ex_path) (ex_kw (Some (s2l "latin-1"))) = COk (ex_text, Some (s2l "latin-1")) /\
  ex_open b (RPath (s2l "f.las")) (ex_kw (Some (s2l "latin-1"))) = COk (ex_text, Some (s2l "latin-1")) /\
  ex_open b (RStr ex_text) (ex_kw None) = COk (ex_text, None) /\
  ex_open b (RObj ex_text) (ex_kw None) = COk (ex_text, None).
Proof. vm_compute. repeat split; reflexivity. Qed.

(* the same through the theorem (instantiated with the toy world): non-vacuity of its premises *)
Example C10_ex_channels_via_theorem :
  ex_open (with_nl CR ex_text) (RPath (s2l "f.las")) (ex_kw (Some (s2l "latin-1")))
    = COk (ex_text, Some (s2l "latin-1")).
Proof.
  refine (proj1 (proj2 (proj1 (proj2
    (C10_channels (ex_fs (with_nl CR ex_text)) ex_abs (fun _ => false) toy_decode toy_encode true
       (fun _ => None) (fun _ _ => true) (s2l "utf-8") unl_impl C10_ex_H_bom C10_ex_H_unl
       ex_text CR ex_path (s2l "f.las") (ex_kw (Some (s2l "latin-1")))
       _ _ _ _ _ _ _))
    (s2l "latin-1") (with_nl CR ex_text) C10_ex_codec _ _ _ _ _)));
    try (vm_compute; reflexivity); try discriminate.
  vm_compute. repeat constructor.
Qed.

(* BOM file: CR line ends, no encoding= at all, and even with a contradicting encoding= *)
Example C10_ex_bom :
  let b := BOM_UTF8 ++ with_nl CR ex_text in
  ex_open b (RStr ex_path) (ex_kw None) = COk (ex_text, Some enc_utf8sig) /\
  ex_open b (RStr ex_path) (ex_kw (Some (s2l "latin-1"))) = COk (ex_text, Some enc_utf8sig).
Proof. vm_compute. split; reflexivity. Qed.

(* dispatch: one line (even with a trailing newline) is a file name; empty is IndexError;
   a form feed makes two lines, hence content *)
Example C10_ex_dispatch :
  dispatch ex_abs (fun _ => false) (RStr (s2l "a.las" ++ [10])) = ChFilename (s2l "a.las") /\
  dispatch ex_abs (fun _ => false) (RStr []) = ChIndexError /\
  dispatch ex_abs (fun _ => false) (RStr [97; 12; 98]) = ChContent [97; 12; 98] /\
  dispatch ex_abs (fun _ => false) (RPath (s2l "a.las")) = ChFilename (s2l "/d/a.las").
Proof. vm_compute. repeat split; reflexivity. Qed.

(* encoding choice: chardet says None -> first ad-hoc codec whose probe succeeds *)
Example C10_ex_adhoc :
  choose_encoding true (fun _ => None) (fun e _ => str_eqb e (s2l "windows-1252"))
                  (ex_kw None) (s2l "abc") = COk (Some (s2l "windows-1252")) /\
  choose_encoding true (fun _ => Some (s2l "KOI8-R")) (fun _ _ => true)
                  (ex_kw None) (s2l "abc") = COk (Some (s2l "KOI8-R")) /\
  choose_encoding true (fun _ => Some (s2l "KOI8-R")) (fun _ _ => true)
                  {| kw_encoding := None; kw_errors := []; kw_auto := AutoStr (s2l "bogus"); kw_nchars := None |}
                  (s2l "abc") = CErr EUnboundLocalError.
Proof. vm_compute. repeat split; reflexivity. Qed.

Print Assumptions C10_channels.
Print Assumptions C10_channels_parse.
Print Assumptions C10_crlf_string_untranslated.
Print Assumptions C10_encoding_choice.
Print Assumptions C10_encoding_choice_detector.
Print Assumptions C10_encoding_choice_adhoc.
Print Assumptions C10_bom_detection.
Print Assumptions C10_encoding_bom_overrides.
Print Assumptions C10_encoding_explicit_wins.
Print Assumptions C10_encoding_chardet.
Print Assumptions C10_encoding_chardet_none.
Print Assumptions C10_encoding_no_autodetect.
Print Assumptions C10_dispatch.
Print Assumptions C10_dispatch_empty.
Print Assumptions C10_dispatch_filename.
Print Assumptions C10_pure.

(* ---- the encoding decision of the model IS reader.open_with_codecs as it stands today ---------------
   Model/Channels.open_with_codecs (choose_encoding: the BOM probe on the first min(32, size) bytes, an explicit
   encoding, chardet on the first autodetect_encoding_chars bytes, the ad-hoc list, then io.open with the chosen
   encoding) equals, for every path, keyword arguments and world, the function re-translated on this run from
   /repo (py_open_with_codecs in Gen/Funcs.v) with os.path.getsize / open / get_encoding / adhoc_test_encoding /
   io.open read through the model's world (Proofs/FuncsPinCodecs.v: model_world).  None = the call raises. *)
From Coq Require Import ZArith.
Require Import Funcs FuncsPinCodecs.
Theorem C10_open_with_codecs_current : forall fs decode chardet_installed chardet_detect readline_ok locale_encoding unl p k,
  py_open_with_codecs (model_world fs decode chardet_installed chardet_detect readline_ok locale_encoding unl)
    p (kw_encoding k) (kw_errors k) (pyauto (kw_auto k)) (option_map Z.of_N (kw_nchars k))
  = ok_of (open_with_codecs fs decode chardet_installed chardet_detect readline_ok locale_encoding unl p k).
Proof. exact open_with_codecs_pin. Qed.
Print Assumptions C10_open_with_codecs_current.
