(* Props.C16 — write() is deterministic, leaves data alone, states STRT/STOP/STEP truthfully.
   Statements only; proofs in Proofs/WriteStateProofs.v and Proofs/WriteIdemProofs.v.

   Formal reading.  `write o m` (Model/Writer.v) is writer.write with STRT/STOP/STEP left to
   lasio, as  options -> LASFile (with index_initial) -> WOk text m' | WErr.  Every theorem is
   about a successful call `write o m = WOk text m'` and holds FOR ALL oracles
   fmtv ("f % x"), fmt_diff, fmt_pi, fstr (str(float)), fzero (x == 0), numeq (x == y); the
   only oracle hypothesis is in C16_truth_texts (the index format never prints an empty text).
   STRT/STOP/STEP are printed with the format of the index column, col_fmt o 0 = column_fmt[0]
   or fmt.

   Domain.  The index is las.index = las.curves[0].data (index_of; [] without a curve).
     no curve     index_initial set (read, then every curve deleted): lasio evaluates las.index
                  unguarded and raises IndexError; the model raises too (C16_no_curve_raises), so
                  no theorem about `write o m = WOk ..` speaks of such an object, and the
                  C16_need_changed / C16_need_stop_differs_* statements carry "at least one
                  curve".  index_initial None (LASFile() from scratch): the IndexError is caught
                  in update_start_stop_step and STRT/STOP/STEP are left at None, like an empty
                  index; this is inside every theorem.
     NaN          a NaN first / last cell is printed "nan" (fmt_index_cell); STEP is "nan" as soon
                  as index[0] or index[1] is NaN and the STRT and STOP texts differ (step_text;
                  C16_truth_step_nan), which is the first increment to format precision.
                  C16_truth(_texts) speak of a numeric first and last sample.
     text index   NOT modelled: the index column holds numbers or NaN.  With a text index lasio
                  raises TypeError in update_start_stop_step (`fmt % text`) whenever the refresh
                  is needed, or skips the refresh when STOP holds the text of the last cell; the
                  model does neither (a raising write is outside the statement of C16).

   Proved at full strength
     frame        C16_data_frame      data, index_initial, ~Other, custom sections unchanged
                  C16_curves_frame    curves: number, order, mnemonics (original and session),
                                      value, description unchanged; only curve 0's unit may change
                  C16_params_frame    ~Parameter: exactly `value := standardize value unit`
                  C16_well_frame      ~Well: number, order, mnemonics, descriptions unchanged;
                                      items not registered under STRT/STOP/STEP keep their unit
                                      and get `standardize value unit`
                  C16_version_frame   ~Version unchanged without wrap=; with wrap=b it is
                                      set_item "WRAP" (the documented item)
                  C16_state_depends_on_wrap_only   the resulting object is the same for any two
                                      option sets with the same wrap= and the same index format
                                      (col_fmt o 0, with which STRT/STOP/STEP are printed)
                  C16_version_in_memory  two option sets that differ only in version= leave the
                                      same object: version= never reaches memory
                  C16_vers_untouched  the item found under VERS is the same before and after
                                      (with wrap= given: when WRAP is named at most once, see below)
     determinism  C16_standardize_idem, C16_refresh_idem (update_start_stop_step +
                  update_units_from_index_curve twice = once, no hypothesis),
                  C16_write_text_function_of_state (text = render options (resulting state)),
                  C16_idempotent_nowrap (wrap=None: second write gives byte-identical text and
                  no further change, NO hypothesis)
     truth        C16_truth, C16_truth_texts, C16_units_aligned, C16_need_* (when lasio refreshes)

   Partial
     C16_idempotent_partial : with wrap= given, idempotence needs `named_once WRAP`: at most one
       item of ~Version is named WRAP (useful original mnemonic) and an item is named WRAP exactly
       when it is registered under WRAP (session mnemonic).  The hypothesis is necessary:
       C16_idempotent_refuted_dup_wrap is a concrete object (two WRAP items, sessions WRAP:1 and
       WRAP:2, as the reader builds them from a file with two WRAP lines) on which every
       write(wrap=False) appends one more WRAP item, so two consecutive texts differ.  Real lasio
       behaves the same (set_item compares session mnemonics, finds none, appends).
   Not proved here (correspondence only): that the model's text equals lasio's bytes; the
   truthfulness of the *re-read* output (composition with the reader, C03/C04). *)
From Coq Require Import List NArith ZArith Bool Arith String.
Import ListNotations.
Require Import PyStr Regex NumLit Num Tables SectionParse DataRead Read TextWrap Writer
               WriteStateProofs WriteIdemProofs.
Open Scope string_scope.
Open Scope list_scope.
Open Scope N_scope.

Section C16.
Variable fmtv : list N -> list N -> list N.
Variable fmt_diff : list N -> list N -> list N -> list N.
Variable fmt_pi : list N -> list N.
Variable fstr : list N -> list N.
Variable fzero : list N -> bool.
Variable numeq : list N -> list N -> bool.
Notation write := (write fmtv fmt_diff fmt_pi fstr fzero numeq).

(* ---- frame ---- *)
Theorem C16_data_frame : forall o m text m',
  write o m = WOk text m' ->
  l_data (m_las m') = l_data (m_las m) /\ m_index_initial m' = m_index_initial m /\
  l_other (m_las m') = l_other (m_las m) /\ l_custom (m_las m') = l_custom (m_las m).
Proof. exact (write_data_frame fmtv fmt_diff fmt_pi fstr fzero numeq). Qed.

(* cframe a b: original mnemonic, session mnemonic, value and description of b are a's *)
Theorem C16_curves_frame : forall o m text m',
  write o m = WOk text m' ->
  Forall2 cframe (s_items (l_curves (m_las m))) (s_items (l_curves (m_las m'))) /\
  tl (s_items (l_curves (m_las m'))) = tl (s_items (l_curves (m_las m))) /\
  s_transforms (l_curves (m_las m')) = s_transforms (l_curves (m_las m)).
Proof. exact (write_curves_frame fmtv fmt_diff fmt_pi fstr fzero numeq). Qed.

Theorem C16_params_frame : forall o m text m',
  write o m = WOk text m' ->
  l_params (m_las m') =
  map_section (fun it => set_value it (standardize fzero (i_value it) (i_unit it))) (l_params (m_las m)).
Proof. exact (write_params_frame fmtv fmt_diff fmt_pi fstr fzero numeq). Qed.

(* wframe_n tr a b: b has a's original mnemonic, session mnemonic and description, and if a is
   not registered under STRT/STOP/STEP (comparison of the section) also a's unit, and the
   value standardize (value a) (unit a) *)
Theorem C16_well_frame : forall o m text m',
  write o m = WOk text m' ->
  Forall2 (wframe_n fzero (s_transforms (l_well (m_las m))))
          (s_items (l_well (m_las m))) (s_items (l_well (m_las m'))) /\
  s_transforms (l_well (m_las m')) = s_transforms (l_well (m_las m)).
Proof. exact (write_well_frame fmtv fmt_diff fmt_pi fstr fzero numeq). Qed.

Theorem C16_version_frame : forall o m text m',
  write o m = WOk text m' ->
  match wo_wrap o with
  | None => l_version (m_las m') = l_version (m_las m)
  | Some b => l_version (m_las m') =
              mksect (set_item (s_transforms (l_version (m_las m))) (s2l "WRAP") (wrap_item b)
                               (s_items (l_version (m_las m))))
                     (s_transforms (l_version (m_las m)))
  end.
Proof. exact (write_version_frame fmtv fmt_diff fmt_pi fstr fzero numeq). Qed.

Theorem C16_state_depends_on_wrap_only : forall o1 o2 m t1 t2 m1 m2,
  wo_wrap o1 = wo_wrap o2 -> col_fmt o1 0%nat = col_fmt o2 0%nat ->
  write o1 m = WOk t1 m1 -> write o2 m = WOk t2 m2 -> m1 = m2.
Proof. exact (write_state_wrap_only fmtv fmt_diff fmt_pi fstr fzero numeq). Qed.

Theorem C16_vers_untouched : forall o m text m',
  write o m = WOk text m' ->
  (wo_wrap o <> None ->
   named_once (s_transforms (l_version (m_las m))) (s2l "WRAP") (s_items (l_version (m_las m)))) ->
  s_transforms (l_version (m_las m')) = s_transforms (l_version (m_las m)) /\
  sect_find (s_transforms (l_version (m_las m))) (s2l "VERS") (s_items (l_version (m_las m'))) =
  sect_find (s_transforms (l_version (m_las m))) (s2l "VERS") (s_items (l_version (m_las m))).
Proof. exact (write_vers_untouched fmtv fmt_diff fmt_pi fstr fzero numeq). Qed.

(* ---- determinism ---- *)
Theorem C16_standardize_idem : forall v u,
  standardize fzero (standardize fzero v u) u = standardize fzero v u.
Proof. exact (standardize_idem fzero). Qed.

Theorem C16_refresh_idem : forall f m l,
  refresh_sss fmtv fmt_diff numeq f m = Some l ->
  refresh_sss fmtv fmt_diff numeq f (mkmlas l (m_index_initial m)) = Some l.
Proof. exact (refresh_idem fmtv fmt_diff numeq). Qed.

(* `render` (Proofs/WriteIdemProofs.v) computes the text from the options and the LASFile left
   in memory only *)
Theorem C16_write_text_function_of_state : forall o m text m',
  write o m = WOk text m' -> render fmtv fmt_pi fstr o (m_las m') = Some text.
Proof. exact (write_text_function_of_state fmtv fmt_diff fmt_pi fstr fzero numeq). Qed.

Theorem C16_idempotent_partial : forall o m text m',
  (wo_wrap o <> None ->
   named_once (s_transforms (l_version (m_las m))) (s2l "WRAP") (s_items (l_version (m_las m)))) ->
  write o m = WOk text m' -> write o m' = WOk text m'.
Proof. exact (write_idempotent fmtv fmt_diff fmt_pi fstr fzero numeq). Qed.

Theorem C16_idempotent_nowrap : forall o m text m',
  wo_wrap o = None -> write o m = WOk text m' -> write o m' = WOk text m'.
Proof. exact (write_idempotent_nowrap fmtv fmt_diff fmt_pi fstr fzero numeq). Qed.

(* ---- truthfulness ---- *)
(* need_of f: writer.py's `index_changed or stop_is_different`, f = the format of the index
   column (col_fmt o 0): the file's STOP "disagrees with its data" when it differs from the
   value that f PRINTS for the last index cell, float(f % index_initial[-1]) != STOP.value
   (numeq (fmtv f t) stop), so a format that loses digits refreshes on the first write and the
   header states what the data section shows.  With index_initial set the
   decision reads las.index: the hypothesis "at least one curve" of the next three theorems
   excludes exactly the case where that raises IndexError (C16_no_curve_raises). *)
Theorem C16_need_created : forall f m, m_index_initial m = None -> need_of fmtv numeq f m = Some true.
Proof. exact (need_created fmtv numeq). Qed.

Theorem C16_need_changed : forall f m iv lastc rr svv,
  m_index_initial m = Some iv -> s_items (l_curves (m_las m)) <> [] -> rev iv = lastc :: rr ->
  item_value_by (s_transforms (l_well (m_las m))) (s2l "STOP") (s_items (l_well (m_las m))) = Some svv ->
  cells_equal numeq iv (index_of (m_las m)) = false ->
  need_of fmtv numeq f m = Some true.
Proof. exact (need_changed fmtv numeq). Qed.

Theorem C16_need_stop_differs_int : forall f m iv t rr z,
  m_index_initial m = Some iv -> s_items (l_curves (m_las m)) <> [] -> rev iv = CNum t :: rr ->
  item_value_by (s_transforms (l_well (m_las m))) (s2l "STOP") (s_items (l_well (m_las m))) = Some (VInt z) ->
  numeq (fmtv f t) (z_to_str z) = false ->
  need_of fmtv numeq f m = Some true.
Proof. exact (need_stop_differs_int fmtv numeq). Qed.

Theorem C16_need_stop_differs_float : forall f m iv t rr x,
  m_index_initial m = Some iv -> s_items (l_curves (m_las m)) <> [] -> rev iv = CNum t :: rr ->
  item_value_by (s_transforms (l_well (m_las m))) (s2l "STOP") (s_items (l_well (m_las m))) = Some (VFloat x) ->
  numeq (fmtv f t) x = false ->
  need_of fmtv numeq f m = Some true.
Proof. exact (need_stop_differs_float fmtv numeq). Qed.

(* aligned_unit l: curve 0's unit when it is not empty, else the unit of the item under STRT *)
Theorem C16_units_aligned : forall o m text m',
  write o m = WOk text m' ->
  let trw := s_transforms (l_well (m_las m)) in
  let u := aligned_unit (m_las m) in
  exists s p e,
    sect_find trw (s2l "STRT") (s_items (l_well (m_las m'))) = Some s /\ i_unit s = u /\
    sect_find trw (s2l "STOP") (s_items (l_well (m_las m'))) = Some p /\ i_unit p = u /\
    sect_find trw (s2l "STEP") (s_items (l_well (m_las m'))) = Some e /\ i_unit e = u /\
    (forall c0 rest, s_items (l_curves (m_las m')) = c0 :: rest -> i_unit c0 = u).
Proof. exact (write_units_aligned fmtv fmt_diff fmt_pi fstr fzero numeq). Qed.

(* first sample a, last sample z, f = col_fmt o 0: STRT = f % a, STOP = f % z,
   STEP = step_of f index = f % (second - first) when there are two samples and the STRT and
   STOP texts differ ("nan" when the second sample is NaN), else None; all three then pass
   through standardize (which only matters for an empty text / None: -> 0 with a unit, ""
   without) *)
Theorem C16_truth : forall o m text m' a rest z rr,
  write o m = WOk text m' ->
  need_of fmtv numeq (col_fmt o 0%nat) m = Some true ->
  index_of (m_las m) = CNum a :: rest -> rev (index_of (m_las m)) = CNum z :: rr ->
  let trw := s_transforms (l_well (m_las m)) in
  let u := aligned_unit (m_las m) in
  exists s p e,
    sect_find trw (s2l "STRT") (s_items (l_well (m_las m'))) = Some s /\
    sect_find trw (s2l "STOP") (s_items (l_well (m_las m'))) = Some p /\
    sect_find trw (s2l "STEP") (s_items (l_well (m_las m'))) = Some e /\
    i_value s = standardize fzero (VStr (fmtv (col_fmt o 0%nat) a)) u /\
    i_value p = standardize fzero (VStr (fmtv (col_fmt o 0%nat) z)) u /\
    i_value e = standardize fzero (step_of fmtv fmt_diff (col_fmt o 0%nat) (index_of (m_las m))) u /\
    i_unit s = u /\ i_unit p = u /\ i_unit e = u.
Proof. exact (write_truth fmtv fmt_diff fmt_pi fstr fzero numeq). Qed.

Theorem C16_truth_texts : forall o m text m' a rest z rr,
  (forall t, fmtv (col_fmt o 0%nat) t <> []) ->
  write o m = WOk text m' ->
  need_of fmtv numeq (col_fmt o 0%nat) m = Some true ->
  index_of (m_las m) = CNum a :: rest -> rev (index_of (m_las m)) = CNum z :: rr ->
  let trw := s_transforms (l_well (m_las m)) in
  exists s p e,
    sect_find trw (s2l "STRT") (s_items (l_well (m_las m'))) = Some s /\ i_value s = VStr (fmtv (col_fmt o 0%nat) a) /\
    sect_find trw (s2l "STOP") (s_items (l_well (m_las m'))) = Some p /\ i_value p = VStr (fmtv (col_fmt o 0%nat) z) /\
    sect_find trw (s2l "STEP") (s_items (l_well (m_las m'))) = Some e /\
    (forall b rest', rest = CNum b :: rest' ->
       str_eqb (fmtv (col_fmt o 0%nat) a) (fmtv (col_fmt o 0%nat) z) = false -> fmt_diff (col_fmt o 0%nat) b a <> [] ->
       i_value e = VStr (fmt_diff (col_fmt o 0%nat) b a)) /\
    (rest = [] \/ (exists b rest', rest = CNum b :: rest' /\
                   str_eqb (fmtv (col_fmt o 0%nat) a) (fmtv (col_fmt o 0%nat) z) = true) ->
       i_value e = standardize fzero VNone (aligned_unit (m_las m))).
Proof. exact (write_truth_texts fmtv fmt_diff fmt_pi fstr fzero numeq). Qed.

(* a NaN second sample: the first increment is NaN and STEP says so *)
Theorem C16_truth_step_nan : forall o m text m' a rest z rr,
  write o m = WOk text m' ->
  need_of fmtv numeq (col_fmt o 0%nat) m = Some true ->
  index_of (m_las m) = CNum a :: CNaN :: rest -> rev (index_of (m_las m)) = CNum z :: rr ->
  str_eqb (fmtv (col_fmt o 0%nat) a) (fmtv (col_fmt o 0%nat) z) = false ->
  exists e, sect_find (s_transforms (l_well (m_las m))) (s2l "STEP") (s_items (l_well (m_las m'))) = Some e /\
            i_value e = VStr (s2l "nan").
Proof. exact (write_truth_step_nan fmtv fmt_diff fmt_pi fstr fzero numeq). Qed.

(* read, every curve deleted, write: lasio raises IndexError (las.index), so does the model *)
Theorem C16_no_curve_raises : forall o m iv,
  m_index_initial m = Some iv -> s_items (l_curves (m_las m)) = [] -> exists e, write o m = WErr e.
Proof. exact (write_no_curve_raises fmtv fmt_diff fmt_pi fstr fzero numeq). Qed.

(* ---- the same facts under the names listed in harness/props/c16.py ---- *)
Theorem C16_header_frame : forall o m text m',
  write o m = WOk text m' ->
  (Forall2 cframe (s_items (l_curves (m_las m))) (s_items (l_curves (m_las m'))) /\
   tl (s_items (l_curves (m_las m'))) = tl (s_items (l_curves (m_las m)))) /\
  l_params (m_las m') = map_section (stdf fzero) (l_params (m_las m)) /\
  Forall2 (wframe_n fzero (s_transforms (l_well (m_las m))))
          (s_items (l_well (m_las m))) (s_items (l_well (m_las m'))) /\
  match wo_wrap o with
  | None => l_version (m_las m') = l_version (m_las m)
  | Some b => l_version (m_las m') =
              mksect (set_item (s_transforms (l_version (m_las m))) (s2l "WRAP") (wrap_item b)
                               (s_items (l_version (m_las m))))
                     (s_transforms (l_version (m_las m)))
  end.
Proof. exact (write_header_frame fmtv fmt_diff fmt_pi fstr fzero numeq). Qed.

(* set_wo_version o ver: the option set o with version= replaced by ver *)
Theorem C16_version_in_memory : forall o ver m t1 t2 m1 m2,
  write o m = WOk t1 m1 -> write (set_wo_version o ver) m = WOk t2 m2 -> m1 = m2.
Proof. exact (write_version_in_memory fmtv fmt_diff fmt_pi fstr fzero numeq). Qed.

End C16.

(* ---- non-vacuity: a small LASFile and toy oracles ------------------------------------------------ *)
Definition t_fmtv (f t : list N) : list N := t.
Definition t_fmt_diff (f b a : list N) : list N := s2l "1.00000".
Definition t_fmt_pi (f : list N) : list N := s2l "3.14159".
Definition t_fstr (t : list N) : list N := t.
Definition t_fzero (t : list N) : bool := str_eqb t (s2l "0.0").
Definition t_numeq (a b : list N) : bool := str_eqb a b.
Definition ex_it (name unit : string) (v : hval) (d : string) : hitem :=
  mkitem (s2l name) (s2l name) (s2l unit) v (s2l d).
(* dup = true: ~Version as the reader builds it from a file with two WRAP lines *)
Definition ex_version (dup : bool) : section :=
  mksect ([ex_it "VERS" "" (VFloat (s2l "2.0")) "v"] ++
          (if dup then [mkitem (s2l "WRAP") (s2l "WRAP:1") [] (VStr (s2l "NO")) (s2l "one");
                        mkitem (s2l "WRAP") (s2l "WRAP:2") [] (VStr (s2l "NO")) (s2l "two")]
           else [ex_it "WRAP" "" (VStr (s2l "NO")) "w"])) false.
Definition ex_well : section :=
  mksect [ex_it "STRT" "M" (VFloat (s2l "1.0")) ""; ex_it "STOP" "M" (VFloat (s2l "9.0")) "";
          ex_it "STEP" "M" (VFloat (s2l "1.0")) ""; ex_it "NULL" "" (VFloat (s2l "-999.25")) "";
          ex_it "COMP" "" (VStr (s2l "ACME")) "COMPANY"] false.
Definition ex_curves : section := mksect [ex_it "DEPT" "FT" (VStr []) "depth"; ex_it "A" "V" (VStr []) "a"] false.
Definition ex_params : section := mksect [ex_it "BHT" "DEGC" (VStr []) "temp"] false.
Definition ex_idx : list cell := [CNum (s2l "1.0"); CNum (s2l "2.0"); CNum (s2l "3.0")].
Definition ex_las (dup : bool) : las :=
  mklas (ex_version dup) ex_well ex_curves ex_params [] []
        [ex_idx; [CNum (s2l "5"); CNaN; CNum (s2l "7")]] false.
Definition ex_m (dup : bool) : mlas := mkmlas (ex_las dup) (Some ex_idx).
Definition ex_o (w : option bool) : wopts :=
  mkwopts None w (s2l "%.5f") [] LAuto (s2l " ") (s2l " ") 79 60 (s2l "~ASCII") false.
Definition ex_write := write t_fmtv t_fmt_diff t_fmt_pi t_fstr t_fzero t_numeq.

(* the call succeeds; STOP (9.0 in the header, 3.0 in the data) is refreshed; units follow curve 0 *)
Example C16_ex_write_ok :
  match ex_write (ex_o None) (ex_m false) with
  | WOk _ m' =>
      map i_value (firstn 3 (s_items (l_well (m_las m')))) = [VStr (s2l "1.0"); VStr (s2l "3.0"); VStr (s2l "1.00000")] /\
      map i_unit (firstn 3 (s_items (l_well (m_las m')))) = [s2l "FT"; s2l "FT"; s2l "FT"] /\
      map i_value (s_items (l_params (m_las m'))) = [VInt 0]
  | WErr _ => False
  end.
Proof. vm_compute. repeat split; reflexivity. Qed.

Example C16_ex_need : need_of t_fmtv t_numeq (s2l "%.5f") (ex_m false) = Some true /\
                      index_of (m_las (ex_m false)) = CNum (s2l "1.0") :: tl ex_idx /\
                      rev (index_of (m_las (ex_m false))) = CNum (s2l "3.0") :: tl (rev ex_idx).
Proof. vm_compute. repeat split; reflexivity. Qed.

Example C16_ex_named_once : named_once false (s2l "WRAP") (s_items (l_version (m_las (ex_m false)))).
Proof.
  split; [vm_compute; repeat constructor|].
  intros it [<-|[<-|[]]]; reflexivity.
Qed.

Example C16_ex_idempotent : forall w,
  match ex_write (ex_o w) (ex_m false) with
  | WOk t m' => ex_write (ex_o w) m' = WOk t m'
  | WErr _ => False
  end.
Proof. intros [[|]|]; vm_compute; reflexivity. Qed.

(* the hypothesis of C16_idempotent_partial cannot be dropped: with two WRAP items every
   write(wrap=False) appends another one *)
Example C16_idempotent_refuted_dup_wrap :
  match ex_write (ex_o (Some false)) (ex_m true) with
  | WOk t m' =>
      match ex_write (ex_o (Some false)) m' with
      | WOk t' m'' =>
          t <> t' /\
          List.length (s_items (l_version (m_las (ex_m true)))) = 3%nat /\
          List.length (s_items (l_version (m_las m'))) = 4%nat /\
          List.length (s_items (l_version (m_las m''))) = 5%nat
      | WErr _ => False
      end
  | WErr _ => False
  end.
Proof. vm_compute. repeat split; try reflexivity. discriminate. Qed.

(* index [1.0; nan; 3.0]: STRT 1.0, STOP 3.0, STEP "nan" *)
Definition ex_las_nan : las :=
  mklas (ex_version false) ex_well ex_curves ex_params [] []
        [[CNum (s2l "1.0"); CNaN; CNum (s2l "3.0")]; [CNum (s2l "5"); CNaN; CNum (s2l "7")]] false.
Example C16_ex_step_nan :
  match ex_write (ex_o None) (mkmlas ex_las_nan (Some ex_idx)) with
  | WOk _ m' => map i_value (firstn 3 (s_items (l_well (m_las m')))) = [VStr (s2l "1.0"); VStr (s2l "3.0"); VStr (s2l "nan")]
  | WErr _ => False
  end.
Proof. vm_compute. reflexivity. Qed.

(* a file whose STOP equals its last index value digit for digit: no refresh with a format that
   prints the value as it is, refresh with one that loses digits (toy: keeps three characters) *)
Definition ex_idx2 : list cell := [CNum (s2l "1.00"); CNum (s2l "2.00"); CNum (s2l "3.25")].
Definition ex_las_exact : las :=
  mklas (ex_version false)
        (mksect [ex_it "STRT" "M" (VFloat (s2l "1.00")) ""; ex_it "STOP" "M" (VFloat (s2l "3.25")) "";
                 ex_it "STEP" "M" (VFloat (s2l "1.00")) ""; ex_it "NULL" "" (VFloat (s2l "-999.25")) ""] false)
        ex_curves ex_params [] [] [ex_idx2; [CNum (s2l "5"); CNaN; CNum (s2l "7")]] false.
Example C16_ex_lossy_format :
  need_of t_fmtv t_numeq (s2l "%.5f") (mkmlas ex_las_exact (Some ex_idx2)) = Some false /\
  need_of (fun _ t => firstn 3 t) t_numeq (s2l "%.1f") (mkmlas ex_las_exact (Some ex_idx2)) = Some true /\
  match write (fun _ t => firstn 3 t) t_fmt_diff t_fmt_pi t_fstr t_fzero t_numeq (ex_o None) (mkmlas ex_las_exact (Some ex_idx2)) with
  | WOk _ m' => map i_value (firstn 2 (s_items (l_well (m_las m')))) = [VStr (s2l "1.0"); VStr (s2l "3.2")]
  | WErr _ => False
  end.
Proof. vm_compute. repeat split; reflexivity. Qed.

(* no curve: raises when index_initial is set, STRT/STOP/STEP None -> 0 (unit M) when it is not *)
Definition ex_las_nocurve : las :=
  mklas (ex_version false) ex_well (mksect [] false) ex_params [] [] [] false.
Example C16_ex_no_curve :
  (exists e, ex_write (ex_o None) (mkmlas ex_las_nocurve (Some ex_idx)) = WErr e) /\
  match ex_write (ex_o None) (mkmlas ex_las_nocurve None) with
  | WOk _ m' => map i_value (firstn 3 (s_items (l_well (m_las m')))) = [VInt 0; VInt 0; VInt 0]
  | WErr _ => False
  end.
Proof. split; [eexists|]; vm_compute; reflexivity. Qed.

Print Assumptions C16_data_frame.
Print Assumptions C16_curves_frame.
Print Assumptions C16_params_frame.
Print Assumptions C16_well_frame.
Print Assumptions C16_version_frame.
Print Assumptions C16_state_depends_on_wrap_only.
Print Assumptions C16_vers_untouched.
Print Assumptions C16_standardize_idem.
Print Assumptions C16_refresh_idem.
Print Assumptions C16_write_text_function_of_state.
Print Assumptions C16_idempotent_partial.
Print Assumptions C16_idempotent_nowrap.
Print Assumptions C16_need_created.
Print Assumptions C16_need_changed.
Print Assumptions C16_need_stop_differs_int.
Print Assumptions C16_need_stop_differs_float.
Print Assumptions C16_units_aligned.
Print Assumptions C16_truth.
Print Assumptions C16_truth_texts.
Print Assumptions C16_truth_step_nan.
Print Assumptions C16_no_curve_raises.
Print Assumptions C16_header_frame.
Print Assumptions C16_version_in_memory.
Print Assumptions C16_idempotent_refuted_dup_wrap.

(* ---- standardize is the Python's -----------------------------------------------------------------
   standardize equals the definition re-translated on every run from writer.standardize_value
   (translators/funcs.py -> Gen/Funcs.v); hval_ops reads `not value`, `value != 0`,
   `value is None` through the model's v_falsy / v_is_zero / VNone (and str(value) through vstr). *)
Require Import Funcs FuncsPinStandardize.
Theorem C16_standardize_current : forall fstr fzero value unit,
  standardize fzero value unit = py_standardize_value (hval_ops fstr fzero) value unit.
Proof. exact standardize_pin. Qed.
Print Assumptions C16_standardize_current.
