(* Props.C16 — placeholder; theorems are being added. *)
Require Import PyStr Writer.
