(* Props.C03 — placeholder; theorems are being added. *)
Require Import PyStr Writer.
