(* Props.C03 — header metadata survives write -> read in every section and both versions.
   Statements only; the proofs are in Proofs/WriteHeaderProofs.v (writer side, lifting to
   items and sections), Proofs/OrderTableProofs.v (value/description order tables) and, for
   the parse direction, the header-grammar theorem C04_parse_all (Proofs/HeaderLineProofs.v).

   Reading.  For one section of kind k (KVersion, KWell, KCurves, KParameter) with items
   `items`, the writer (Model/Writer.v section_lines) computes two column widths from ALL
   items, chooses per item the value/description order o from the generated table
   (Gen/Tables.v order_definitions, re-translated from lasio/defaults.py on every run) and
   emits   MNEM pad . UNIT pad+ RHS " : " TAIL   (format_item; rhs/tail = value/description in
   the order o).  The reader (Model/SectionParse.v parse_body) strips each line, parses it
   with read_header_line, maps the mnemonic by mnemonic_case c, and builds the item with the
   order it looks up itself (build_item).

     conf_item fstr k o lw mw it  (written from the property text):
        mnemonic  non-empty, no '.', no ':', no leading/trailing white space (inner blanks ok);
        unit      no white space, does not end with '.', not entirely digits (may be empty);
        rhs, tail stripped, without newline (may be empty; quotes, brackets, punctuation ok);
        outside ~Parameter the field after the colon has no ':';
        in ~Parameter every colon of the field before the colon is a clock colon
           (C04's clock_colons; the description may contain colons) and, when the description
           is empty, the unit has no colon;
        in ~Curves the line contains no ".." (C03_curves_no_double_dot gives the field-wise
           sufficient condition: unit without "..", not starting with '.', value and
           description without "..").
     covers fstr o lw mw it : |mnemonic| <= lw  and  |unit| + 1 + |rhs| <= mw.
     starts_ok cc it : the first character of the mnemonic is neither a comment character of
        the reader (cc) nor '~' (such a line is skipped / ends the section).
     expected_item fstr k c it = new_item (apply_case c mnemonic) (strip_brackets unit)
                                          (read_value k mnemonic (str(value))) description
        where read_value is VStr text in ~Curves and for API/UWI outside ~Parameter, and
        num text otherwise (Model/Num.v; C08).
     meta it = (original mnemonic, unit, value, description); the session mnemonic (":1", ":2"
        suffixes of duplicates) is not part of it — duplicates are therefore allowed.

   PROVED AT FULL STRENGTH (for every item list, both orders, every version, every
   mnemonic_case, every width that covers, every oracle fstr):
     1 C03_widths_cover        the widths section_lines computes cover EVERY item of the
                               section, whichever item is the widest;
     2 C03_format_is_layout    a formatted line is the C04 layout with blank paddings, the one
                               between unit and right-hand field non-empty (C03_padding);
     3 C03_line_roundtrip      read_header_line gives back the four fields (also for the
                               stripped line, C03_stripped_line_roundtrip);
     4 C03_item_roundtrip      parse_line gives expected_item (the orders of writer and reader
                               agree: C03_order_tables_agree, from C12's table lemmas);
       C03_value_text / C03_value_curves / C03_value_number_string / C03_value_int /
       C03_value_roundtrip     the value: text that is not a plain decimal literal comes back
                               verbatim (C08), ~Curves and API/UWI always verbatim; 64-bit
                               integers come back exactly (str(int) is a plain integer
                               literal: Proofs/IntTextProofs.v); floats under the oracle
                               hypothesis Hnum;
       C03_expected_meta       hence, for an unbracketed unit and a value that reads back,
                               meta of the item read = meta of the item written with the
                               mnemonic case-mapped;
     5 C03_section_roundtrip   parse_body of the lines section_lines writes returns, in
                               order, items whose meta are the expected ones (0..n items,
                               duplicates included) — for the four standard sections;
       C03_blank_mnemonic_line / C03_section_roundtrip_blanks
                               the same with items whose mnemonic is empty, on lines with no
                               further period (conf_blank: unit, value, description
                               conformant and period-free): the stripped line ".UNIT VALUE :
                               DESCR" reads back with the empty name (the optional leading
                               period of the name pattern is given back after the dot-free
                               star finds no closing period; Proofs/BlankMnemonicProofs.v);
       C03_written_sections_read_back / C03_other_text_unchanged
                               the four sections as write emits them (steps 1-9 of write:
                               WRAP/VERS items, STRT/STOP/STEP refresh, unit alignment,
                               standardize_value) read back as the expected items of the
                               in-memory file after the call; ~Other is written unchanged;
     6 C03_standardize_idem / C03_standardize_cases   standardize_value is idempotent and
                               changes only None (-> "" without unit) and empty/None values of
                               items with a unit (-> 0): the documented permitted difference.

   NOT PROVED HERE (covered by the correspondence runs of the harness only):
     * blank mnemonics on lines that DO contain a further period (".M  1.5 : d" parses with
       name "M  1"): excluded by the property text; mnemonics made of blanks only (they read
       back as the empty mnemonic);
     * the composition with the file-level reader: cutting the text at the title lines
       (find_sections, C05), the reader's own version detection from the VERS item it reads,
       re-reading ~Other, and the data section are not composed here — the theorems are about
       the lines of each section as parse_body receives them (the reader's version is taken
       equal to the version written); tied by the correspondence runs;
     * units made of digits only, bracketed units, lines on which the ~Curves ".."
       special case triggers: excluded by the property text.

   ORACLE ASSUMPTIONS.  fstr (= str(np.float64(text))) is universally quantified: nothing is
   assumed about it except what conf_item says about the resulting text.  "Numbers compared
   numerically" is the explicit hypothesis Hnum of C03_value_roundtrip:
   val_equiv numeq (num (vstr fstr v)) v.  Case mapping is ASCII (upper/lower of PyStr). *)
From Coq Require Import List NArith ZArith Bool String.
Import ListNotations.
Require Import PyStr Regex NumLit Num NumSpec HeaderLine Tables SectionParse DataRead Read Writer.
Require Import HeaderLineSpec BlankMnemonicProofs ItemsBindProofs OrderTableProofs WriteHeaderProofs
  WriteOptionsProofs WriteReadProofs.
Open Scope string_scope. Open Scope list_scope. Open Scope N_scope.

(* 1. the widths of a section cover every one of its items *)
Theorem C03_widths_cover :
  forall (fstr : list N -> list N) (ord : hitem -> item_order) (items : list hitem) (it : hitem),
  In it items ->
  (List.length (i_orig it) <= sec_lw items)%nat /\
  (List.length (i_unit it) + 1 + List.length (rhs_text fstr (ord it) it) <= sec_mw fstr ord items)%nat.
Proof. exact widths_cover. Qed.

(* ... and sec_lw / sec_mw / sec_ord are what section_lines uses *)
Theorem C03_section_lines_unfold : forall fstr v sect items,
  section_lines fstr v sect items =
  match lookup_order_entry v sect order_definitions with
  | None => None
  | Some _ => Some (map (fun it => format_item fstr (sec_ord v sect it) (sec_lw items)
                                     (sec_mw fstr (sec_ord v sect) items) it) items)
  end.
Proof. exact section_lines_eq. Qed.

(* 2. a formatted line is a layout; all paddings are blanks; the second is non-empty *)
Theorem C03_format_is_layout : forall fstr o lw mw it,
  format_item fstr o lw mw it =
  layout [] (i_orig it) (pad1 lw it) (i_unit it) (pad2 fstr o mw it) (rhs_text fstr o it)
         [32] [32] (tail_text fstr o it) [].
Proof. exact format_is_layout. Qed.

Theorem C03_padding : forall fstr o lw mw it,
  blanks (pad1 lw it) = true /\ blanks (pad2 fstr o mw it) = true /\
  (covers fstr o lw mw it -> (1 <= List.length (pad2 fstr o mw it))%nat).
Proof. exact padding_facts. Qed.

(* 3. one line *)
Theorem C03_line_roundtrip : forall fstr k o lw mw it,
  conf_item fstr k o lw mw it = true -> covers fstr o lw mw it ->
  read_header_line (format_item fstr o lw mw it) (is_curves_of k) (is_param_of k)
  = Some (mkhl (i_orig it) (i_unit it) (rhs_text fstr o it) (tail_text fstr o it)).
Proof. exact line_roundtrip. Qed.

Theorem C03_stripped_line_roundtrip : forall fstr k o lw mw it,
  conf_item fstr k o lw mw it = true -> covers fstr o lw mw it ->
  read_header_line (strip (format_item fstr o lw mw it)) (is_curves_of k) (is_param_of k)
  = Some (mkhl (i_orig it) (i_unit it) (rhs_text fstr o it) (tail_text fstr o it)).
Proof. exact stripped_line_roundtrip. Qed.

(* the ~Curves condition of conf_item from conditions on the fields *)
Theorem C03_curves_no_double_dot : forall fstr o lw mw it,
  conf_mnem (i_orig it) = true -> conf_unit (i_unit it) = true -> covers fstr o lw mw it ->
  curves_fields_ok fstr o it = true ->
  no_double_dot (format_item fstr o lw mw it) = true.
Proof. exact curves_line_ok. Qed.

(* the order the writer lays an item out in is the order the reader reads it back in *)
Theorem C03_order_tables_agree : forall v k c m, is_std k = true ->
  order_of v (sect_table_name k) m = Some (reader_order v k (apply_case c m)).
Proof. exact writer_order_is_reader_order. Qed.

(* 4. one item *)
Theorem C03_item_roundtrip : forall fstr v k c o lw mw it,
  conf_item fstr k o lw mw it = true -> covers fstr o lw mw it ->
  o = reader_order v k (apply_case c (i_orig it)) ->
  parse_line v k c (format_item fstr o lw mw it) = Some (expected_item fstr k c it).
Proof. exact item_roundtrip. Qed.

Theorem C03_expected_item_fields : forall fstr k c it,
  i_orig (expected_item fstr k c it) = apply_case c (i_orig it) /\
  i_unit (expected_item fstr k c it) = strip_brackets (i_unit it) /\
  i_value (expected_item fstr k c it) = read_value k (i_orig it) (vstr fstr (i_value it)) /\
  i_descr (expected_item fstr k c it) = i_descr it.
Proof. exact expected_item_fields. Qed.

Theorem C03_unit_unbracketed : forall u,
  conf_unit u = true -> not_bracketed u = true -> strip_brackets u = u.
Proof. exact strip_brackets_conf. Qed.

(* the value: text that is not a plain decimal literal is kept verbatim in every section *)
Theorem C03_value_text : forall k name s,
  ~ plain_decimal (comma_to_dot s) -> read_value k name s = VStr s.
Proof. exact read_value_text. Qed.
Theorem C03_value_curves : forall name s, read_value KCurves name s = VStr s.
Proof. exact read_value_curves. Qed.
Theorem C03_value_number_string : forall k name s,
  k <> KParameter -> is_number_string name = true -> read_value k name s = VStr s.
Proof. exact read_value_number_string. Qed.
(* numbers: compared numerically, under the oracle hypothesis that str() of the value reads
   back as an equal number *)
Theorem C03_value_roundtrip : forall numeq fstr k name val,
  k <> KCurves -> (k = KParameter \/ is_number_string name = false) ->
  forall Hnum : val_equiv numeq (num (vstr fstr val)) val,
  val_equiv numeq (read_value k name (vstr fstr val)) val.
Proof. exact read_value_numeric. Qed.

(* integers: str(z) reads back as z exactly, for every 64-bit z (no oracle) *)
Theorem C03_value_int : forall fstr k name z,
  k <> KCurves -> (k = KParameter \/ is_number_string name = false) -> in_int64 z = true ->
  read_value k name (vstr fstr (VInt z)) = VInt z.
Proof. exact read_value_int. Qed.

Theorem C03_expected_meta : forall fstr k c it,
  conf_unit (i_unit it) = true -> not_bracketed (i_unit it) = true ->
  read_value k (i_orig it) (vstr fstr (i_value it)) = i_value it ->
  meta (expected_item fstr k c it) = (apply_case c (i_orig it), i_unit it, i_value it, i_descr it).
Proof. exact expected_meta. Qed.

(* 5. one section: the lines section_lines writes are read back in order *)
Theorem C03_section_roundtrip : forall fstr v k c ie cc tr items, is_std k = true ->
  (forall it, In it items ->
     conf_item fstr k (sec_ord v (sect_table_name k) it) (sec_lw items)
               (sec_mw fstr (sec_ord v (sect_table_name k)) items) it = true /\
     starts_ok cc it = true) ->
  exists lines items',
    section_lines fstr v (sect_table_name k) items = Some lines /\
    parse_body v k c ie cc tr lines [] = POk items' /\
    map meta items' = map (fun it => meta (expected_item fstr k c it)) items.
Proof. exact section_roundtrip. Qed.

(* 5a. blank mnemonic, no further period: the stripped line reads back with the empty name *)
Theorem C03_blank_mnemonic_line : forall fstr k o lw mw it,
  conf_blank fstr k o it = true -> covers fstr o lw mw it ->
  strip (format_item fstr o lw mw it) =
    layout_blank (i_unit it) (pad2 fstr o mw it) (rhs_text fstr o it) [32]
                 (pad4 (tail_text fstr o it)) (tail_text fstr o it) [] /\
  read_header_line (strip (format_item fstr o lw mw it)) (is_curves_of k) (is_param_of k)
  = Some (mkhl [] (i_unit it) (rhs_text fstr o it) (tail_text fstr o it)).
Proof. exact blank_mnemonic_line. Qed.

(* the general grammar fact behind it (C04 style): a line that starts with its only period *)
Theorem C03_blank_name_parse : forall (u p2 v p3 p4 d p5 : list N) (ic ip : bool),
  blanks p2 && blanks p3 && blanks p4 && blanks p5 = true ->
  conf_unit u = true -> conf_text v = true -> conf_text d = true ->
  value_set_off p2 v = true ->
  in_str 46 u = false -> in_str 46 v = false -> in_str 46 d = false ->
  sect_ok ic ip (layout_blank u p2 v p3 p4 d p5) u v p3 p4 d = true ->
  read_header_line (layout_blank u p2 v p3 p4 d p5) ic ip = Some (mkhl [] u v d).
Proof. exact blank_name_parse. Qed.

(* 5b. sections in which every item is conformant or has a blank mnemonic and no period *)
Theorem C03_section_roundtrip_blanks : forall fstr v k c ie cc tr items, is_std k = true ->
  (forall it, In it items ->
     (conf_item fstr k (sec_ord v (sect_table_name k) it) (sec_lw items)
                (sec_mw fstr (sec_ord v (sect_table_name k)) items) it = true /\
      starts_ok cc it = true)
     \/ (conf_blank fstr k (sec_ord v (sect_table_name k) it) it = true /\ in_str 46 cc = false)) ->
  exists lines items',
    section_lines fstr v (sect_table_name k) items = Some lines /\
    parse_body v k c ie cc tr lines [] = POk items' /\
    map meta items' = map (fun it => meta (expected_item fstr k c it)) items.
Proof. exact section_roundtrip_blanks. Qed.

(* 5c. the header part of write, section by section: the item lines write emits (write_sections
   is steps 1-9 of write, see C12_write_factors) are read by parse_body as the expected items
   of the sections of the in-memory file AFTER the call (ifmt is the numeric format of the index
   column, with which STRT/STOP/STEP are printed) — i.e. after STRT/STOP/STEP refresh,
   unit alignment and standardize_value, the documented differences — for ~Version of the
   copy in which DLM was set to SPACE and VERS was substituted (hs_vers_items); the ~Other text
   written is the unchanged text *)
Theorem C03_written_sections_read_back :
  forall fmtv fmt_diff fstr fzero numeq ver wrapo ifmt m hs c ie cc tr,
  write_sections fmtv fmt_diff fstr fzero numeq ver wrapo ifmt m = Some hs ->
  section_ok fstr (hs_version hs) KVersion cc (hs_vers_items hs) ->
  section_ok fstr (hs_version hs) KWell cc (s_items (l_well (hs_las hs))) ->
  section_ok fstr (hs_version hs) KCurves cc (s_items (l_curves (hs_las hs))) ->
  section_ok fstr (hs_version hs) KParameter cc (s_items (l_params (hs_las hs))) ->
  reads_back fstr (hs_version hs) KVersion c ie cc tr (hs_lv hs) (hs_vers_items hs) /\
  reads_back fstr (hs_version hs) KWell c ie cc tr (hs_lw hs) (s_items (l_well (hs_las hs))) /\
  reads_back fstr (hs_version hs) KCurves c ie cc tr (hs_lc hs) (s_items (l_curves (hs_las hs))) /\
  reads_back fstr (hs_version hs) KParameter c ie cc tr (hs_lp hs) (s_items (l_params (hs_las hs))).
Proof. exact written_sections_read_back. Qed.

Theorem C03_section_ok_unfold : forall fstr v k cc items,
  section_ok fstr v k cc items <->
  (forall it, In it items ->
    (conf_item fstr k (sec_ord v (sect_table_name k) it) (sec_lw items)
               (sec_mw fstr (sec_ord v (sect_table_name k)) items) it = true /\
     starts_ok cc it = true)
    \/ (conf_blank fstr k (sec_ord v (sect_table_name k) it) it = true /\ in_str 46 cc = false)).
Proof. exact section_ok_unfold. Qed.

Theorem C03_reads_back_unfold : forall fstr v k c ie cc tr lines items,
  reads_back fstr v k c ie cc tr lines items <->
  exists items', parse_body v k c ie cc tr lines [] = POk items' /\
                 map meta items' = map (fun it => meta (expected_item fstr k c it)) items.
Proof. exact reads_back_unfold. Qed.

Theorem C03_other_text_unchanged : forall fmtv fmt_diff fstr fzero numeq ver wrapo ifmt m hs,
  write_sections fmtv fmt_diff fstr fzero numeq ver wrapo ifmt m = Some hs ->
  l_other (hs_las hs) = l_other (m_las m).
Proof. exact write_sections_other. Qed.

(* 6. standardize_value *)
Theorem C03_standardize_idem : forall fzero val u,
  standardize fzero (standardize fzero val u) u = standardize fzero val u.
Proof. exact standardize_idem. Qed.

Theorem C03_standardize_cases : forall fzero val u,
  (standardize fzero val u = val /\ val <> VNone /\ (u = [] \/ val <> VStr []))
  \/ (val = VNone /\ u = [] /\ standardize fzero val u = VStr [])
  \/ (u <> [] /\ (val = VNone \/ val = VStr []) /\ standardize fzero val u = VInt 0).
Proof. exact standardize_cases. Qed.

(* ---- non-vacuity: concrete sections through writer and reader, evaluated by the kernel -- *)
Definition ex_fstr (l : list N) : list N := l.
(* ~Well, 1.2: the unit+value of the first item is the widest while the value of the second
   is empty; duplicate mnemonic; quotes and brackets in the description *)
Definition ex_well : list hitem :=
  [ new_item (s2l "STRT") (s2l "M") (VFloat (s2l "1670.0")) (s2l "START DEPTH");
    new_item (s2l "P1") (s2l "DEGC") (VStr []) (s2l "bht ""max"" [x]");
    new_item (s2l "COMP") [] (VStr (s2l "ANY OIL (1) CO.")) (s2l "COMPANY");
    new_item (s2l "COMP") [] (VStr (s2l "again")) [] ].
Definition ex_curves : list hitem :=
  [ new_item (s2l "DEPT") (s2l "M") (VStr []) (s2l "1 DEPTH");
    new_item (s2l "GR") (s2l "gAPI") (VStr (s2l "7 350 01")) (s2l "gamma") ].
Definition ex_params : list hitem :=
  [ new_item (s2l "TIME") [] (VStr (s2l "13:45 23-JAN")) (s2l "Time: at bottom");
    new_item (s2l "BHT") (s2l "DEGC") (VFloat (s2l "35.5")) [] ].

Example C03_ex_hyps :
  (forall it, In it ex_well ->
     conf_item ex_fstr KWell (sec_ord V12 (sect_table_name KWell) it) (sec_lw ex_well)
               (sec_mw ex_fstr (sec_ord V12 (sect_table_name KWell)) ex_well) it = true /\
     starts_ok (s2l "#") it = true) /\
  (forall it, In it ex_curves ->
     conf_item ex_fstr KCurves (sec_ord V20 (sect_table_name KCurves) it) (sec_lw ex_curves)
               (sec_mw ex_fstr (sec_ord V20 (sect_table_name KCurves)) ex_curves) it = true /\
     starts_ok (s2l "#") it = true) /\
  (forall it, In it ex_params ->
     conf_item ex_fstr KParameter (sec_ord V20 (sect_table_name KParameter) it) (sec_lw ex_params)
               (sec_mw ex_fstr (sec_ord V20 (sect_table_name KParameter)) ex_params) it = true /\
     starts_ok (s2l "#") it = true).
Proof.
  split; [|split]; intros it Hin; cbn [In ex_well ex_curves ex_params] in Hin;
    repeat (destruct Hin as [<-|Hin]; [split; vm_compute; reflexivity|]); destruct Hin.
Qed.

Example C03_ex_well_text :
  option_map (map l2s) (section_lines ex_fstr V12 (s2l "Well") ex_well)
  = Some [ "STRT.M           1670.0 : START DEPTH";
           "P1  .DEGC bht ""max"" [x] : ";
           "COMP.           COMPANY : ANY OIL (1) CO.";
           "COMP.                   : again" ]%string.
Proof. vm_compute. reflexivity. Qed.

Example C03_ex_well_read :
  match section_lines ex_fstr V12 (s2l "Well") ex_well with
  | Some lines =>
      match parse_body V12 KWell CaseLower false (s2l "#") true lines [] with
      | POk items' => map meta items'
      | PErr _ => []
      end
  | None => []
  end
  = [ (s2l "strt", s2l "M", VFloat (s2l "1670.0"), s2l "START DEPTH");
      (s2l "p1", s2l "DEGC", VStr [], s2l "bht ""max"" [x]");
      (s2l "comp", [], VStr (s2l "ANY OIL (1) CO."), s2l "COMPANY");
      (s2l "comp", [], VStr (s2l "again"), []) ].
Proof. vm_compute. reflexivity. Qed.

Example C03_ex_param_read :
  match section_lines ex_fstr V20 (s2l "Parameter") ex_params with
  | Some lines =>
      match parse_body V20 KParameter CasePreserve false (s2l "#") false lines [] with
      | POk items' => map meta items'
      | PErr _ => []
      end
  | None => []
  end = map meta ex_params.
Proof. vm_compute. reflexivity. Qed.

(* blank mnemonics (twice) between named items, ~Parameter *)
Definition ex_blank : list hitem :=
  [ new_item (s2l "RUN") [] (VInt 1) (s2l "run");
    new_item [] (s2l "M") (VStr (s2l "12:30 x")) (s2l "no name: here");
    new_item [] [] (VStr []) [];
    new_item (s2l "LONGNAME") (s2l "OHMM") (VStr (s2l "a")) (s2l "b") ].
Example C03_ex_blank_hyps :
  forall it, In it ex_blank ->
     (conf_item ex_fstr KParameter (sec_ord V20 (sect_table_name KParameter) it) (sec_lw ex_blank)
                (sec_mw ex_fstr (sec_ord V20 (sect_table_name KParameter)) ex_blank) it = true /\
      starts_ok (s2l "#") it = true)
     \/ (conf_blank ex_fstr KParameter (sec_ord V20 (sect_table_name KParameter) it) it = true /\
         in_str 46 (s2l "#") = false).
Proof.
  intros it Hin. cbn [In ex_blank] in Hin.
  destruct Hin as [<-|Hin]; [left; split; vm_compute; reflexivity|].
  destruct Hin as [<-|Hin]; [right; split; vm_compute; reflexivity|].
  destruct Hin as [<-|Hin]; [right; split; vm_compute; reflexivity|].
  destruct Hin as [<-|Hin]; [left; split; vm_compute; reflexivity|]. destruct Hin.
Qed.
Example C03_ex_blank_read :
  option_map (map l2s) (section_lines ex_fstr V20 (s2l "Parameter") ex_blank)
  = Some [ "RUN     .        1 : run"; "        .M 12:30 x : no name: here"; "        .          : ";
           "LONGNAME.OHMM    a : b" ]%string /\
  match section_lines ex_fstr V20 (s2l "Parameter") ex_blank with
  | Some lines =>
      match parse_body V20 KParameter CasePreserve false (s2l "#") false lines [] with
      | POk items' => map meta items'
      | PErr _ => []
      end
  | None => []
  end = map meta ex_blank.
Proof. vm_compute. split; reflexivity. Qed.

(* a whole in-memory file through the header part of write (2.0 file written as 1.2) *)
Definition ex_m : mlas :=
  mkmlas (mklas (mksect [new_item (s2l "VERS") [] (VFloat (s2l "2.0")) (s2l "v"); new_item (s2l "WRAP") [] (VStr (s2l "NO")) []] false)
                (mksect [new_item (s2l "STRT") (s2l "M") (VFloat (s2l "1.0")) []; new_item (s2l "STOP") (s2l "M") (VFloat (s2l "2.0")) [];
                         new_item (s2l "STEP") (s2l "M") (VFloat (s2l "1.0")) []; new_item (s2l "NULL") [] (VFloat (s2l "-999.25")) [];
                         new_item (s2l "BHT") (s2l "DEGC") (VStr []) (s2l "empty value with unit") ] false)
                (mksect [new_item (s2l "DEPT") (s2l "M") (VStr []) []; new_item (s2l "GR") [] (VStr []) []] false)
                (mksect ex_params false) (s2l "free text") [] [[CNum (s2l "1.0"); CNum (s2l "2.0")]; [CNum (s2l "5"); CNaN]] true)
         None.
Example C03_ex_written_hyps :
  match write_sections (fun f t => t) (fun f a b => a) ex_fstr (fun _ => false) (fun a b => str_eqb a b)
                       (Some W12) None (s2l "%.5f") ex_m with
  | Some hs =>
      section_okb ex_fstr (hs_version hs) KVersion (s2l "#") (hs_vers_items hs) &&
      section_okb ex_fstr (hs_version hs) KWell (s2l "#") (s_items (l_well (hs_las hs))) &&
      section_okb ex_fstr (hs_version hs) KCurves (s2l "#") (s_items (l_curves (hs_las hs))) &&
      section_okb ex_fstr (hs_version hs) KParameter (s2l "#") (s_items (l_params (hs_las hs))) &&
      (* the documented difference is visible: the empty BHT value became 0 *)
      match nth_error (s_items (l_well (hs_las hs))) 4 with Some it => match i_value it with VInt 0 => true | _ => false end | None => false end
  | None => false
  end = true.
Proof. vm_compute. reflexivity. Qed.
Theorem C03_section_okb_ok : forall fstr v k cc items,
  section_okb fstr v k cc items = true -> section_ok fstr v k cc items.
Proof. exact section_okb_ok. Qed.

Example C03_ex_standardize :
  standardize (fun _ => false) (VStr []) (s2l "M") = VInt 0 /\
  standardize (fun _ => false) VNone [] = VStr [] /\
  standardize (fun _ => false) (VStr []) [] = VStr [].
Proof. repeat split. Qed.

Print Assumptions C03_widths_cover.
Print Assumptions C03_section_lines_unfold.
Print Assumptions C03_format_is_layout.
Print Assumptions C03_padding.
Print Assumptions C03_line_roundtrip.
Print Assumptions C03_stripped_line_roundtrip.
Print Assumptions C03_curves_no_double_dot.
Print Assumptions C03_order_tables_agree.
Print Assumptions C03_item_roundtrip.
Print Assumptions C03_expected_item_fields.
Print Assumptions C03_unit_unbracketed.
Print Assumptions C03_value_text.
Print Assumptions C03_value_curves.
Print Assumptions C03_value_number_string.
Print Assumptions C03_value_roundtrip.
Print Assumptions C03_value_int.
Print Assumptions C03_expected_meta.
Print Assumptions C03_section_roundtrip.
Print Assumptions C03_blank_mnemonic_line.
Print Assumptions C03_blank_name_parse.
Print Assumptions C03_section_roundtrip_blanks.
Print Assumptions C03_written_sections_read_back.
Print Assumptions C03_section_ok_unfold.
Print Assumptions C03_reads_back_unfold.
Print Assumptions C03_section_okb_ok.
Print Assumptions C03_other_text_unchanged.
Print Assumptions C03_standardize_idem.
Print Assumptions C03_standardize_cases.

(* ====================================================================================== *)
(* FILE LEVEL (appended).  Proofs in Proofs/FileRoundTrip*.v.                               *)
(* ====================================================================================== *)
(* The composition that the header of this file lists as "NOT PROVED HERE" — cutting the text
   at the title lines, the reader's own version detection, re-reading ~Other — is proved here
   at the level of the WHOLE FILE: Model/Read.v read (its first pass first_pass, then read
   itself) applied to the text returned by Model/Writer.v write.

   Reading.  write o m = WOk text m'.  hs (Proofs/WriteOptionsProofs.v write_sections) is the
   written form of the header: version written, ~Version items with VERS substituted, item
   lines of the four sections, in-memory file after the call (hs_las hs = m_las m').  dl is the
   line that opens the data section (dsh_of), rts the printed rows.

     C03_written_text_lines   lines_keep text (the physical lines, terminators kept, as the
                              reader iterates over them) is the rendering of SIX blocks
                              (C05: title line + body lines), every line followed by "\n":
                              ~Version, ~Well, ~Curve Information, ~Params, ~Other (splitlines
                              of the text), data section — when no written line contains "\n";
     C03_written_blocks_wf    the six blocks are well formed when no body line is a title
                              and data_section_header starts with "~A"/"~a";
     C03_written_sections_found   hence (C05_cut, C05_bodies, views_exact) find_sections lists
                              exactly six sections whose titles, bodies and (~Other) stripped
                              lines are the written ones;
     C03_title_types          the five fixed titles are classified header x4 (letters V, W,
                              C, P, no underscore) and ~Other, for EVERY header_width;
     C03_lines_from_items     "no written item line is a title / contains a newline" follows
                              from section_ok (this file, item 5) and newline-free mnemonics;
     C03_file_first_pass      = the first pass on the written text (hypotheses on lines);
     C03_file_roundtrip       THE FILE-LEVEL STATEMENT: under
                                header_hyps  (section_ok of the four sections with the reader's
                                             comment character '#'; version written is 1.2 or
                                             2.0; fstr "1.2" = "1.2", fstr "2.0" = "2.0"
                                             (ORACLE: str(np.float64(1.2)) = "1.2"); exactly
                                             one ~Version item in the name class of VERS as
                                             the reader compares names (in_class: mnemonic
                                             case-mapped, compared case-insensitively unless
                                             mnemonic_case = preserve); DLM absent or SPACE),
                                text_hyps    (mnemonics newline-free; no ~Other line starts,
                                             stripped, with '~'; data_section_header "~A..."
                                             newline-free; session mnemonics of the curves
                                             newline-free — they are printed on the ~A line
                                             with mnemonics_header),
                                the C01 token hypotheses (wr_tok, spacers white space) and
                                data_text_hyps (spacers newline-free, no token contains '~'),
                              the first pass succeeds and gives: the four sections with
                              map meta = the expected metas (header_read_back; mnemonic
                              case-mapped, unit strip_brackets, value read_value of
                              str(value)), l_other = the text with every line stripped,
                              no custom section; THE VERSION THE READER DERIVES from the VERS
                              item it read back (through num and version_of) IS THE VERSION
                              WRITTEN and it is the version used to parse ~Well, ~Curves,
                              ~Parameter (~Version itself is parsed under the provisional
                              2.0: the ~Version order table is the same for every version,
                              order_for_version); DLM is SPACE; NULL is the value of the
                              unique ~Well item of class NULL read back (null_read); with
                              WRAP written YES the reader holds WRAP YES; exactly one data
                              section is queued; with ignore_data the whole read returns
                              this file.
     C03_file_hyps_unfold / C03_header_read_back_unfold / C03_text_hyps_unfold   definitions.
   The data part of the whole read is C01_file_roundtrip (Props/C01.v).
   Still not proved (correspondence only): versions other than 1.2/2.0 (the writer then does
   not substitute VERS), duplicated VERS/WRAP/NULL mnemonics, DLM other than SPACE,
   comment characters other than '#'. *)
Require Import Sections SectionsProofs BlocksCongr WriteDataTextProofs
  FileRoundTripText FileRoundTripBlocks FileRoundTripFind FileRoundTripFirstPass FileRoundTripHeader
  FileRoundTripData FileRoundTripLines FileRoundTrip FileRoundTripMain FileRoundTripCheck.

Theorem C03_written_text_lines : forall fmtv fmt_diff fmt_pi fstr fzero numeq o m text m',
  write fmtv fmt_diff fmt_pi fstr fzero numeq o m = WOk text m' ->
  exists hs dl rts,
    write_sections fmtv fmt_diff fstr fzero numeq (wo_version o) (wo_wrap o) (col_fmt o 0%nat) m = Some hs /\
    m' = mkmlas (hs_las hs) (m_index_initial m) /\
    dsh_of fmtv fmt_pi fstr o hs = Some dl /\
    opt_all (map (row_text fmtv fmt_pi o (las_null_text fstr (hs_las hs)) 0%nat) (las_rows (hs_las hs))) = Some rts /\
    text = flat_map add_nl (render (written_blocks o hs dl (data_lines_of o hs rts))) /\
    (lines_nlfree o hs dl (data_lines_of o hs rts) ->
     lines_keep text = render (map nl_block (written_blocks o hs dl (data_lines_of o hs rts)))).
Proof. exact written_text_lines. Qed.

Theorem C03_written_blocks_unfold : forall o hs dl dls,
  written_blocks o hs dl dls =
  [ (title_line (wo_header_width o) (s2l "~Version "), hs_lv hs);
    (title_line (wo_header_width o) (s2l "~Well "), hs_lw hs);
    (title_line (wo_header_width o) (s2l "~Curve Information "), hs_lc hs);
    (title_line (wo_header_width o) (s2l "~Params "), hs_lp hs);
    (title_line (wo_header_width o) (s2l "~Other "), splitlines (l_other (hs_las hs)));
    (dl, dls) ].
Proof. reflexivity. Qed.

Theorem C03_written_blocks_wf : forall o hs dl dls rest,
  dl = wo_data_section_header o ++ 32 :: rest -> data_header_ok (wo_data_section_header o) ->
  bodies_notitle hs dls -> Forall wf_block (written_blocks o hs dl dls).
Proof. exact written_blocks_wf. Qed.

Theorem C03_data_line_shape : forall fmtv fmt_pi fstr o hs dl,
  dsh_of fmtv fmt_pi fstr o hs = Some dl -> exists rest, dl = wo_data_section_header o ++ 32 :: rest.
Proof. exact dsh_of_shape. Qed.

Theorem C03_written_sections_found : forall ls o hs dl dls rest,
  ls = render (map nl_block (written_blocks o hs dl dls)) ->
  dl = wo_data_section_header o ++ 32 :: rest -> data_header_ok (wo_data_section_header o) ->
  bodies_notitle hs dls ->
  let hw := wo_header_width o in
  map (view ls) (find_sections ls) =
  [ (stitle hw t_version, map add_nl (hs_lv hs), join [ch_nl] (map strip (hs_lv hs)));
    (stitle hw t_well, map add_nl (hs_lw hs), join [ch_nl] (map strip (hs_lw hs)));
    (stitle hw t_curves, map add_nl (hs_lc hs), join [ch_nl] (map strip (hs_lc hs)));
    (stitle hw t_params, map add_nl (hs_lp hs), join [ch_nl] (map strip (hs_lp hs)));
    (stitle hw t_other, map add_nl (splitlines (l_other (hs_las hs))),
       join [ch_nl] (map strip (splitlines (l_other (hs_las hs)))));
    (strip (add_nl dl), map add_nl dls, join [ch_nl] (map strip dls)) ].
Proof. exact written_sections_found. Qed.

Theorem C03_title_types : forall hw,
  (exists r, stitle hw t_version = 126 :: 86 :: r /\ section_type (stitle hw t_version) = THeader /\ in_str 95 (stitle hw t_version) = false) /\
  (exists r, stitle hw t_well = 126 :: 87 :: r /\ section_type (stitle hw t_well) = THeader /\ in_str 95 (stitle hw t_well) = false) /\
  (exists r, stitle hw t_curves = 126 :: 67 :: r /\ section_type (stitle hw t_curves) = THeader /\ in_str 95 (stitle hw t_curves) = false) /\
  (exists r, stitle hw t_params = 126 :: 80 :: r /\ section_type (stitle hw t_params) = THeader /\ in_str 95 (stitle hw t_params) = false) /\
  (exists r, stitle hw t_other = 126 :: 79 :: r /\ section_type (stitle hw t_other) = TOther).
Proof.
  exact (fun hw => conj (stitle_version hw) (conj (stitle_well hw) (conj (stitle_curves hw) (conj (stitle_params hw) (stitle_other hw))))).
Qed.

Theorem C03_data_title_type : forall h rest, data_header_ok h ->
  exists c r, strip (add_nl (h ++ 32 :: rest)) = 126 :: c :: r /\
              section_type (strip (add_nl (h ++ 32 :: rest))) = TData.
Proof. exact data_title_type. Qed.

Theorem C03_lines_from_items : forall fmtv fmt_diff fstr fzero numeq ver wrapo ifmt m hs cc,
  write_sections fmtv fmt_diff fstr fzero numeq ver wrapo ifmt m = Some hs ->
  section_ok fstr (hs_version hs) KVersion cc (hs_vers_items hs) ->
  section_ok fstr (hs_version hs) KWell cc (s_items (l_well (hs_las hs))) ->
  section_ok fstr (hs_version hs) KCurves cc (s_items (l_curves (hs_las hs))) ->
  section_ok fstr (hs_version hs) KParameter cc (s_items (l_params (hs_las hs))) ->
  (notitles (hs_lv hs) /\ notitles (hs_lw hs) /\ notitles (hs_lc hs) /\ notitles (hs_lp hs)) /\
  (mnemonics_nlfree (hs_vers_items hs) -> mnemonics_nlfree (s_items (l_well (hs_las hs))) ->
   mnemonics_nlfree (s_items (l_curves (hs_las hs))) -> mnemonics_nlfree (s_items (l_params (hs_las hs))) ->
   Forall nlfree (hs_lv hs) /\ Forall nlfree (hs_lw hs) /\ Forall nlfree (hs_lc hs) /\ Forall nlfree (hs_lp hs)).
Proof.
  exact (fun fmtv fmt_diff fstr fzero numeq ver wrapo ifmt m hs cc Hs a b c d =>
    conj (written_header_notitles fmtv fmt_diff fstr fzero numeq ver wrapo ifmt m hs cc Hs a b c d)
         (written_header_nlfree fmtv fmt_diff fstr fzero numeq ver wrapo ifmt m hs cc Hs a b c d)).
Qed.

(* sect_find on a section just parsed, by name class (the duplicate-suffix rule renames only
   inside classes with two or more members) *)
Theorem C03_find_read_back : forall fstr v k c cc ig key lines items items',
  in_str ch_colon key = false ->
  parse_body v k c ig cc (trc c) lines [] = POk items' ->
  map meta items' = map (fun it => meta (expected_item fstr k c it)) items ->
  (forall it0, filter (in_class c key) items = [it0] ->
     exists x, sect_find (trc c) key items' = Some x /\ meta x = meta (expected_item fstr k c it0)) /\
  (filter (in_class c key) items = [] -> sect_find (trc c) key items' = None).
Proof.
  exact (fun fstr v k c cc ig key lines items items' Hk Hp Hm =>
    conj (fun it0 => read_back_find_unique fstr v k c cc ig key Hk lines items items' it0 Hp Hm)
         (read_back_find_absent fstr v k c cc ig key Hk lines items items' Hp Hm)).
Qed.

(* the version the reader derives from the VERS item read back is the version written *)
Theorem C03_reader_version : forall fmtv fmt_diff fstr fzero numeq c vit hs ver wrapo ifmt m,
  write_sections fmtv fmt_diff fstr fzero numeq ver wrapo ifmt m = Some hs ->
  std_version (hs_version hs) -> fstr_vers_ok fstr ->
  filter (in_class c (s2l "VERS")) (hs_vers_items hs) = [vit] ->
  version_of (i_value (expected_item fstr KVersion c vit)) = Some (hs_version hs).
Proof. exact reader_version. Qed.

Theorem C03_version_section_any_version : forall v v' c ie cc tr lines acc,
  parse_body v KVersion c ie cc tr lines acc = parse_body v' KVersion c ie cc tr lines acc.
Proof. exact parse_body_version. Qed.

Theorem C03_file_first_pass : forall fmtv fmt_diff fmt_pi fstr fzero numeq fhex ro o m text m' hs dl rts vit,
  write fmtv fmt_diff fmt_pi fstr fzero numeq o m = WOk text m' ->
  write_sections fmtv fmt_diff fstr fzero numeq (wo_version o) (wo_wrap o) (col_fmt o 0%nat) m = Some hs ->
  dsh_of fmtv fmt_pi fstr o hs = Some dl ->
  opt_all (map (row_text fmtv fmt_pi o (las_null_text fstr (hs_las hs)) 0%nat) (las_rows (hs_las hs))) = Some rts ->
  data_header_ok (wo_data_section_header o) ->
  lines_nlfree o hs dl (data_lines_of o hs rts) -> bodies_notitle hs (data_lines_of o hs rts) ->
  header_hyps fstr ro hs vit ->
  exists ps p6 l,
    find_sections (lines_keep text) <> [] /\
    first_pass ro (lines_keep text) ps0 (find_sections (lines_keep text)) = inl ps /\
    p_las ps = l /\ header_read_back fstr ro hs l /\ l_data l = [] /\
    version_of (p_version ps) = Some (hs_version hs) /\
    dlm_of (p_dlm ps) = Some DSpace /\
    null_read fstr ro hs (p_null ps) /\
    (wrap_ok fstr (o_mcase ro) hs -> hs_wrap hs = true ->
       hval_is_str (p_wrapped ps) (s2l "YES") = true /\ ReadCongr.wrap_decl l = true) /\
    p_data ps = [p6] /\ p_las3data ps = [] /\
    body_lines (lines_keep text) p6 = map add_nl (data_lines_of o hs rts) /\
    (o_ignore_data ro = true -> read fhex fstr numeq ro text = ROk l).
Proof. exact read_written_header_lines. Qed.

Theorem C03_file_roundtrip : forall fmtv fmt_diff fmt_pi fstr fzero numeq fhex ro o m text m' hs dl rts vit nt,
  write fmtv fmt_diff fmt_pi fstr fzero numeq o m = WOk text m' ->
  write_sections fmtv fmt_diff fstr fzero numeq (wo_version o) (wo_wrap o) (col_fmt o 0%nat) m = Some hs ->
  dsh_of fmtv fmt_pi fstr o hs = Some dl ->
  las_null_text fstr (hs_las hs) = Some nt ->
  opt_all (map (row_text fmtv fmt_pi o (Some nt) 0%nat) (las_rows (hs_las hs))) = Some rts ->
  header_hyps fstr ro hs vit -> text_hyps o hs ->
  Forall (Forall (WriteDataProofs.wr_tok fhex)) (WriteDataProofs.tok_matrix fmtv o nt (las_rows (hs_las hs))) ->
  forallb is_space (wo_lhs_spacer o) = true -> forallb is_space (wo_spacer o) = true ->
  data_text_hyps fmtv o nt (las_rows (hs_las hs)) ->
  exists ps l,
    find_sections (lines_keep text) <> [] /\
    first_pass ro (lines_keep text) ps0 (find_sections (lines_keep text)) = inl ps /\
    p_las ps = l /\ header_read_back fstr ro hs l /\ l_data l = [] /\
    version_of (p_version ps) = Some (hs_version hs) /\
    dlm_of (p_dlm ps) = Some DSpace /\
    null_read fstr ro hs (p_null ps) /\
    (wrap_ok fstr (o_mcase ro) hs -> hs_wrap hs = true ->
       hval_is_str (p_wrapped ps) (s2l "YES") = true /\ ReadCongr.wrap_decl l = true) /\
    List.length (p_data ps) = 1%nat /\ p_las3data ps = [] /\
    (o_ignore_data ro = true -> read fhex fstr numeq ro text = ROk l).
Proof. exact read_written_header. Qed.

Theorem C03_file_hyps_unfold : forall fstr ro hs vit,
  header_hyps fstr ro hs vit <->
  (section_ok fstr (hs_version hs) KVersion [ch_hash] (hs_vers_items hs) /\
   section_ok fstr (hs_version hs) KWell [ch_hash] (s_items (l_well (hs_las hs))) /\
   section_ok fstr (hs_version hs) KCurves [ch_hash] (s_items (l_curves (hs_las hs))) /\
   section_ok fstr (hs_version hs) KParameter [ch_hash] (s_items (l_params (hs_las hs))) /\
   (hs_version hs = V12 \/ hs_version hs = V20) /\
   (fstr (s2l "1.2") = s2l "1.2" /\ fstr (s2l "2.0") = s2l "2.0") /\
   filter (in_class (o_mcase ro) (s2l "VERS")) (hs_vers_items hs) = [vit] /\
   match filter (in_class (o_mcase ro) (s2l "DLM")) (hs_vers_items hs) with
   | [] => True
   | [dit] => vstr fstr (i_value dit) = s2l "SPACE"
   | _ => False
   end).
Proof. reflexivity. Qed.

Theorem C03_in_class_unfold : forall c key it,
  in_class c key it =
  mn_compare (match c with CasePreserve => false | _ => true end) (useful (apply_case c (i_orig it))) key.
Proof. reflexivity. Qed.

Theorem C03_text_hyps_unfold : forall o hs,
  text_hyps o hs <->
  ((forall it, In it (hs_vers_items hs) -> in_str 10 (i_orig it) = false) /\
   (forall it, In it (s_items (l_well (hs_las hs))) -> in_str 10 (i_orig it) = false) /\
   (forall it, In it (s_items (l_curves (hs_las hs))) -> in_str 10 (i_orig it) = false) /\
   (forall it, In it (s_items (l_params (hs_las hs))) -> in_str 10 (i_orig it) = false) /\
   forallb (fun l => negb (startswith [ch_tilde] (strip l))) (splitlines (l_other (hs_las hs))) = true /\
   (exists c r, wo_data_section_header o = 126 :: c :: r /\ ascii_upper c = 65) /\
   in_str 10 (wo_data_section_header o) = false /\
   (forall it, In it (s_items (l_curves (hs_las hs))) -> in_str 10 (i_sess it) = false)).
Proof. reflexivity. Qed.

Theorem C03_header_read_back_unfold : forall fstr ro hs l,
  header_read_back fstr ro hs l <->
  (let c := o_mcase ro in
   map meta (s_items (l_version l)) = map (fun it => meta (expected_item fstr KVersion c it)) (hs_vers_items hs) /\
   map meta (s_items (l_well l)) = map (fun it => meta (expected_item fstr KWell c it)) (s_items (l_well (hs_las hs))) /\
   map meta (s_items (l_curves l)) = map (fun it => meta (expected_item fstr KCurves c it)) (s_items (l_curves (hs_las hs))) /\
   map meta (s_items (l_params l)) = map (fun it => meta (expected_item fstr KParameter c it)) (s_items (l_params (hs_las hs))) /\
   l_other l = join [ch_nl] (map strip (splitlines (l_other (hs_las hs)))) /\
   l_custom l = [] /\
   s_transforms (l_version l) = trc c /\ s_transforms (l_well l) = trc c /\
   s_transforms (l_curves l) = trc c /\ s_transforms (l_params l) = trc c).
Proof. reflexivity. Qed.

Theorem C03_null_read_unfold : forall fstr ro hs pn,
  null_read fstr ro hs pn <->
  match filter (in_class (o_mcase ro) (s2l "NULL")) (s_items (l_well (hs_las hs))) with
  | [] => pn = None
  | [nit] => pn = Some (i_value (expected_item fstr KWell (o_mcase ro) nit))
  | _ => True
  end.
Proof. reflexivity. Qed.

Theorem C03_wrap_ok_unfold : forall fstr c hs,
  wrap_ok fstr c hs <->
  (hs_wrap hs = true ->
   exists wit, filter (in_class c (s2l "WRAP")) (hs_vers_items hs) = [wit] /\ vstr fstr (i_value wit) = s2l "YES").
Proof. reflexivity. Qed.

(* the hypotheses as one executable predicate (Proofs/FileRoundTripCheck.v) *)
Theorem C03_file_hypsb_ok : forall fmtv fmt_pi fstr fhex ro o hs nt,
  file_hypsb fmtv fmt_pi fstr fhex ro o hs nt = true ->
  (exists vit, header_hyps fstr ro hs vit) /\ text_hyps o hs /\ wrap_ok fstr (o_mcase ro) hs /\
  data_hyps fmtv fmt_pi fhex o nt (las_rows (hs_las hs)) (List.length (s_items (l_curves (hs_las hs)))) /\
  data_text_hyps fmtv o nt (las_rows (hs_las hs)).
Proof.
  intros fmtv fmt_pi fstr fhex ro o hs nt H. unfold file_hypsb in H.
  do 4 (apply andb_true_iff in H as [H ?]).
  split; [apply header_hypsb_ok; assumption|]. split; [apply text_hypsb_ok; assumption|].
  split; [apply wrap_okb_ok; assumption|]. split; [apply data_hypsb_ok; assumption|].
  apply data_text_hypsb_ok; assumption.
Qed.

(* ---- non-vacuity: ex_m (above) through write and read, at file level ---------------------- *)
Definition fx_fmtv (f t : list N) : list N := t.
Definition fx_fmt_diff (f a b : list N) : list N := a.
Definition fx_fmt_pi (f : list N) : list N := s2l "3.14159".
Definition fx_fzero (t : list N) : bool := false.
Definition fx_numeq (a b : list N) : bool := str_eqb a b.
Definition fx_fhex (t : list N) : option (list N) := match py_float_dec t with Some _ => Some t | None => None end.
Definition fx_o : wopts := mkwopts (Some W12) None [] [] LAuto [32] [32] 79 60 (s2l "~ASCII") false.
Definition fx_ro (c : mcase) (ignore_data : bool) : ropts := mkropts false c true true ignore_data.
Definition fx_write := write fx_fmtv fx_fmt_diff fx_fmt_pi ex_fstr fx_fzero fx_numeq fx_o ex_m.
Definition fx_text : list N := match fx_write with WOk t _ => t | WErr _ => [] end.
Definition fx_hs : hdr_sections :=
  match write_sections fx_fmtv fx_fmt_diff ex_fstr fx_fzero fx_numeq (Some W12) None [] ex_m with
  | Some hs => hs
  | None => mkhs false V20 [] [] [] [] [] empty_las
  end.

Example C03_ex_file_text :
  l2s fx_text =
"~Version ---------------------------------------------------
VERS. 1.2 : CWLS LOG ASCII STANDARD - VERSION 1.2
WRAP.  NO : 
~Well ------------------------------------------------------
STRT.M                      1.0 : 
STOP.M                      2.0 : 
STEP.M                      2.0 : 
NULL.                   -999.25 : 
BHT .DEGC empty value with unit : 0
~Curve Information -----------------------------------------
DEPT.M  : 
GR  .   : 
~Params ----------------------------------------------------
TIME. 13:45 23-JAN : Time: at bottom
BHT .DEGC     35.5 : 
~Other -----------------------------------------------------
free text
~ASCII -----------------------------------------------------
        1.0          5
        2.0    -999.25
"%string.
Proof. vm_compute. reflexivity. Qed.

(* every hypothesis of C03_file_roundtrip / C01_file_roundtrip holds for it, for the three
   mnemonic_case settings *)
Example C03_ex_file_domain : forall c,
  write_sections fx_fmtv fx_fmt_diff ex_fstr fx_fzero fx_numeq (wo_version fx_o) (wo_wrap fx_o) (col_fmt fx_o 0%nat) ex_m = Some fx_hs /\
  file_hypsb fx_fmtv fx_fmt_pi ex_fstr fx_fhex (fx_ro c false) fx_o fx_hs (s2l "-999.25") = true.
Proof. intros [| |]; split; vm_compute; reflexivity. Qed.

(* what read returns on the written text, computed: the 1.2 ~Well order was undone by the
   reader with the version IT derived from "VERS. 1.2"; "free text" came back; mnemonics lower-cased *)
Example C03_ex_file_read :
  match read fx_fhex ex_fstr fx_numeq (fx_ro CaseLower true) fx_text with
  | ROk l => (map meta (s_items (l_well l)), l2s (l_other l), l_custom l, l_data l)
  | RErr _ => ([], ""%string, [], [[CStr []]])
  end =
  ([ (s2l "strt", s2l "M", VFloat (s2l "1.0"), []); (s2l "stop", s2l "M", VFloat (s2l "2.0"), []);
     (s2l "step", s2l "M", VFloat (s2l "2.0"), []); (s2l "null", [], VFloat (s2l "-999.25"), []);
     (s2l "bht", s2l "DEGC", VInt 0, s2l "empty value with unit") ], "free text"%string, [], []).
Proof. vm_compute. reflexivity. Qed.

(* the theorem applied to it (every hypothesis discharged by computation): the first pass is as
   the theorem describes, for every mnemonic_case *)
Definition fx_dl : list N := match dsh_of fx_fmtv fx_fmt_pi ex_fstr fx_o fx_hs with Some d => d | None => [] end.
Definition fx_rts : list (list N) :=
  match opt_all (map (row_text fx_fmtv fx_fmt_pi fx_o (Some (s2l "-999.25")) 0%nat) (las_rows (hs_las fx_hs))) with
  | Some r => r | None => [] end.

Example C03_ex_file_theorem : forall c,
  exists ps l,
    first_pass (fx_ro c true) (lines_keep fx_text) ps0 (find_sections (lines_keep fx_text)) = inl ps /\
    p_las ps = l /\ header_read_back ex_fstr (fx_ro c true) fx_hs l /\
    version_of (p_version ps) = Some (hs_version fx_hs) /\
    read fx_fhex ex_fstr fx_numeq (fx_ro c true) fx_text = ROk l.
Proof.
  intros c.
  assert (Hw : write fx_fmtv fx_fmt_diff fx_fmt_pi ex_fstr fx_fzero fx_numeq fx_o ex_m = WOk fx_text (mkmlas (hs_las fx_hs) None))
    by (vm_compute; reflexivity).
  assert (Hs : write_sections fx_fmtv fx_fmt_diff ex_fstr fx_fzero fx_numeq (wo_version fx_o) (wo_wrap fx_o) (col_fmt fx_o 0%nat) ex_m = Some fx_hs)
    by (vm_compute; reflexivity).
  assert (Hdl : dsh_of fx_fmtv fx_fmt_pi ex_fstr fx_o fx_hs = Some fx_dl) by (vm_compute; reflexivity).
  assert (Hnt : las_null_text ex_fstr (hs_las fx_hs) = Some (s2l "-999.25")) by (vm_compute; reflexivity).
  assert (Hrts : opt_all (map (row_text fx_fmtv fx_fmt_pi fx_o (Some (s2l "-999.25")) 0%nat) (las_rows (hs_las fx_hs))) = Some fx_rts)
    by (vm_compute; reflexivity).
  assert (Hb : file_hypsb fx_fmtv fx_fmt_pi ex_fstr fx_fhex (fx_ro c true) fx_o fx_hs (s2l "-999.25") = true)
    by (destruct c; vm_compute; reflexivity).
  destruct (C03_file_hypsb_ok _ _ _ _ _ _ _ _ Hb) as ((vit & Hh) & Ht & _ & (_ & _ & _ & Hwr & Hl & Hsp & _) & Hd).
  destruct (C03_file_roundtrip fx_fmtv fx_fmt_diff fx_fmt_pi ex_fstr fx_fzero fx_numeq fx_fhex (fx_ro c true) fx_o ex_m
              fx_text (mkmlas (hs_las fx_hs) None) fx_hs fx_dl fx_rts vit (s2l "-999.25")
              Hw Hs Hdl Hnt Hrts Hh Ht Hwr Hl Hsp Hd)
    as (ps & l & _ & Hfp & Hl0 & Hrb & _ & Hv & _ & _ & _ & _ & _ & Hread).
  exists ps, l. split; [exact Hfp|]. split; [exact Hl0|]. split; [exact Hrb|]. split; [exact Hv|].
  apply Hread. reflexivity.
Qed.

(* ---- C12 at file level: 1.2 and 2.0 renderings of the same object read back alike ------------ *)
(* The same object written with version=1.2 and with version=2.0, all other options equal
   (set_wversion), both inside the file-level domain: the two texts (whose ~Well lines differ:
   value and description change places) are read back with the same ~Well / ~Curves / ~Parameter
   metadata, ~Other text and data — each text being parsed with the version the reader derives
   from its own VERS line.  (NULL named at most once, so that both reads hold the same NULL.) *)
Require Import FileRoundTripVersion.
Theorem C03_file_version_independent :
  forall fmtv fmt_diff fmt_pi fstr fzero numeq fhex ro o m v1 v2 t1 m1 t2 m2 hs1 hs2 dl1 dl2 rts1 rts2 nt,
  let o1 := set_wversion o (Some v1) in
  let o2 := set_wversion o (Some v2) in
  write fmtv fmt_diff fmt_pi fstr fzero numeq o1 m = WOk t1 m1 ->
  write fmtv fmt_diff fmt_pi fstr fzero numeq o2 m = WOk t2 m2 ->
  write_sections fmtv fmt_diff fstr fzero numeq (Some v1) (wo_wrap o) (col_fmt o 0%nat) m = Some hs1 ->
  write_sections fmtv fmt_diff fstr fzero numeq (Some v2) (wo_wrap o) (col_fmt o 0%nat) m = Some hs2 ->
  dsh_of fmtv fmt_pi fstr o1 hs1 = Some dl1 -> dsh_of fmtv fmt_pi fstr o2 hs2 = Some dl2 ->
  las_null_text fstr (hs_las hs1) = Some nt ->
  opt_all (map (row_text fmtv fmt_pi o1 (Some nt) 0%nat) (las_rows (hs_las hs1))) = Some rts1 ->
  opt_all (map (row_text fmtv fmt_pi o2 (Some nt) 0%nat) (las_rows (hs_las hs2))) = Some rts2 ->
  file_hypsb fmtv fmt_pi fstr fhex ro o1 hs1 nt = true -> file_hypsb fmtv fmt_pi fstr fhex ro o2 hs2 nt = true ->
  (List.length (filter (in_class (o_mcase ro) (s2l "NULL")) (s_items (l_well (hs_las hs1)))) <= 1)%nat ->
  o_ignore_data ro = false ->
  exists l1 l2,
    read fhex fstr numeq ro t1 = ROk l1 /\ read fhex fstr numeq ro t2 = ROk l2 /\
    map meta (s_items (l_well l1)) = map meta (s_items (l_well l2)) /\
    map meta (s_items (l_curves l1)) = map meta (s_items (l_curves l2)) /\
    map meta (s_items (l_params l1)) = map meta (s_items (l_params l2)) /\
    l_other l1 = l_other l2 /\ l_custom l1 = l_custom l2 /\ l_data l1 = l_data l2.
Proof. exact file_version_independent. Qed.

(* hs carries the file in memory after the call *)
Theorem C03_written_state : forall fmtv fmt_diff fmt_pi fstr fzero numeq o m text m' hs,
  write fmtv fmt_diff fmt_pi fstr fzero numeq o m = WOk text m' ->
  write_sections fmtv fmt_diff fstr fzero numeq (wo_version o) (wo_wrap o) (col_fmt o 0%nat) m = Some hs ->
  m' = mkmlas (hs_las hs) (m_index_initial m).
Proof. exact written_state_is_hs_las. Qed.

Theorem C03_set_wversion_unfold : forall o v,
  set_wversion o v =
  mkwopts v (wo_wrap o) (wo_fmt o) (wo_column_fmt o) (wo_len_numeric_field o) (wo_lhs_spacer o) (wo_spacer o)
          (wo_data_width o) (wo_header_width o) (wo_data_section_header o) (wo_mnemonics_header o).
Proof. reflexivity. Qed.

(* computed on ex_m: the two texts differ in ~Well, the two reads agree *)
Definition fx_text_v (v : wver) : list N :=
  match write fx_fmtv fx_fmt_diff fx_fmt_pi ex_fstr fx_fzero fx_numeq (set_wversion fx_o (Some v)) ex_m with
  | WOk t _ => t | WErr _ => [] end.
Example C03_ex_file_versions :
  fx_text_v W12 <> fx_text_v W20 /\
  match read fx_fhex ex_fstr fx_numeq (fx_ro CasePreserve false) (fx_text_v W12),
        read fx_fhex ex_fstr fx_numeq (fx_ro CasePreserve false) (fx_text_v W20) with
  | ROk l1, ROk l2 =>
      map meta (s_items (l_well l1)) = map meta (s_items (l_well l2)) /\
      map meta (s_items (l_curves l1)) = map meta (s_items (l_curves l2)) /\
      map meta (s_items (l_params l1)) = map meta (s_items (l_params l2)) /\
      l_data l1 = l_data l2 /\ l_data l1 = [[CNum (s2l "1.0"); CNum (s2l "2.0")]; [CNum (s2l "5"); CNaN]]
  | _, _ => False
  end.
Proof. split; [vm_compute; discriminate|vm_compute; repeat split; reflexivity]. Qed.

Print Assumptions C03_written_text_lines.
Print Assumptions C03_written_blocks_unfold.
Print Assumptions C03_written_blocks_wf.
Print Assumptions C03_data_line_shape.
Print Assumptions C03_written_sections_found.
Print Assumptions C03_title_types.
Print Assumptions C03_data_title_type.
Print Assumptions C03_lines_from_items.
Print Assumptions C03_find_read_back.
Print Assumptions C03_reader_version.
Print Assumptions C03_version_section_any_version.
Print Assumptions C03_file_first_pass.
Print Assumptions C03_file_roundtrip.
Print Assumptions C03_file_hyps_unfold.
Print Assumptions C03_in_class_unfold.
Print Assumptions C03_text_hyps_unfold.
Print Assumptions C03_header_read_back_unfold.
Print Assumptions C03_null_read_unfold.
Print Assumptions C03_wrap_ok_unfold.
Print Assumptions C03_file_hypsb_ok.
Print Assumptions C03_file_version_independent.
Print Assumptions C03_set_wversion_unfold.
Print Assumptions C03_written_state.

(* ---- the small parser functions are the Python's ----------------------------------------------
   strip_brackets / useful / mn_compare equal the definitions re-translated on every run from
   SectionParser.strip_brackets, HeaderItem.useful_mnemonic and SectionItems.mnemonic_compare
   (translators/funcs.py -> Gen/Funcs.v).  Some: x[0] / x[-1] never raise IndexError. *)
Require Import Funcs FuncsPinSectionParse.
Theorem C03_strip_brackets_current : forall x, Some (strip_brackets x) = py_strip_brackets x.
Proof. exact strip_brackets_pin. Qed.
Theorem C03_useful_current : forall orig, SectionParse.useful orig = py_useful_mnemonic orig.
Proof. exact useful_pin. Qed.
Theorem C03_compare_current : forall transforms one two,
  SectionParse.mn_compare transforms one two = py_mnemonic_compare transforms one two.
Proof. exact mn_compare_pin. Qed.
Print Assumptions C03_strip_brackets_current.
Print Assumptions C03_useful_current.
Print Assumptions C03_compare_current.

(* ---- the writer's header-line layout is the Python's ----------------------------------------------
   order_of, format_item and the two column widths of Model/Writer.section_lines equal the definitions
   re-translated on every run from writer.get_section_order_function, get_formatter_function and
   get_section_widths (and HeaderItem.__getitem__, which get_section_widths calls); item_of shows a model
   item as the Python object the translated functions read (unit / descr are str, the value is any
   header value, str(value) = vstr).  None in C03_order_current: (version, section) is not a key of
   ORDER_DEFINITIONS (KeyError). *)
Require Import FuncsPinStandardize FuncsPinWriter.
Theorem C03_order_current : forall v sect m,
  option_map order_str (order_of v sect m) = py_get_section_order_function sect v order_definitions m.
Proof. exact order_of_pin. Qed.
Theorem C03_format_current : forall fstr fzero o lw mw it,
  Some (format_item fstr o lw mw it)
  = py_get_formatter_function (hval_ops fstr fzero) (order_str o) (Some (Z.of_nat lw)) (Some (Z.of_nat mw)) (item_of it).
Proof. exact format_item_pin. Qed.
Theorem C03_widths_current : forall fstr fzero (ordf : list N -> item_order) items,
  py_get_section_widths (hval_ops fstr fzero) (List.map item_of items) (fun m => order_str (ordf m))
  = Some (match items with
          | [] => [(key_left_width, None); (key_middle_width, None)]
          | _ => [(key_left_width, Some (Z.of_nat (widths_left items)));
                  (key_middle_width, Some (Z.of_nat (widths_middle fstr (fun it => ordf (i_orig it)) items)))]
          end).
Proof. exact widths_pin. Qed.
Theorem C03_layout_composition_current : forall fstr v sect items,
  section_lines fstr v sect items =
  match lookup_order_entry v sect order_definitions with
  | None => None
  | Some _ =>
      let ord it := match order_of v sect (i_orig it) with Some o => o | None => ValueDescr end in
      Some (List.map (fun it => format_item fstr (ord it) (widths_left items) (widths_middle fstr ord items) it) items)
  end.
Proof. exact section_lines_unfold. Qed.
Print Assumptions C03_order_current.
Print Assumptions C03_format_current.
Print Assumptions C03_widths_current.
Print Assumptions C03_layout_composition_current.

(* ==== BEGIN block "against the ORIGINAL object" (audit D7) ======================================
   Every round trip above (C03_written_sections_read_back, C03_file_first_pass, C03_file_roundtrip)
   compares what is read back with hs_las hs = the in-memory file AFTER write returned
   (C03_written_state); only C03_other_text_unchanged relates it to the file BEFORE the call.  A
   writer that rewrote every item before printing would satisfy them.  C03_roundtrip_vs_original
   composes C03_file_roundtrip with the frame of write (C16_header_frame, C16_data_frame =
   Proofs/WriteIdemProofs.v write_header_frame / write_data_frame; Proofs/RoundTripOriginal.v):
   under the hypotheses of C03_file_roundtrip, what the reader returns for the written text equals,
   item by item and in order, the items of the ORIGINAL object m (never hs_las hs, never m') read
   through expected_item (mnemonic case-mapped, unit strip_brackets, value re-read from its text,
   description) up to EXACTLY these differences:
     ~Curves     only the unit of curve 0 may differ (alignment with STRT's unit); curves 1.. are
                 the original's;
     ~Parameter  every value is standardize_value (value, unit) of the original's (stdf): unchanged
                 unless the value is empty/None (-> 0 on an item with a unit, "" without);
     ~Well       every item NOT registered under STRT / STOP / STEP (is_sss false) is the original's
                 with standardize_value; the three refreshed items keep mnemonic and description
                 (unit and value are the documented refresh: C16_truth);
     ~Version    the original items after the documented edits of the written copy: WRAP set when
                 wrap= is given (set_item), the value of DLM replaced by SPACE, VERS substituted by
                 the 1.2 / 2.0 item (written_version_items);
     ~Other      the original text, every line stripped (other_read); no custom section.
   C03_written_version_items says what hs_vers_items is, in terms of the ~Version items in memory.

   EXCLUSION named (it is in section_ok through starts_ok, see the header and C03_section_ok_unfold,
   and was missing from DESIGN 9.4's list): the hypotheses header_hyps exclude every item whose
   MNEMONIC STARTS WITH '#' (a comment character of the reader) OR WITH '~': write prints such an
   item as a line which the reader skips as a comment, resp. takes for a section title -- the item
   does not come back.  The property text ("LAS-conformant fields: mnemonic without '.' or ':'")
   does not exclude such mnemonics; for them C03 is decided by the harness runs only. *)
Require Import WriteStateProofs WriteIdemProofs RoundTripOriginal.

Theorem C03_written_version_items : forall fmtv fmt_diff fstr fzero numeq ver wrapo ifmt m hs,
  write_sections fmtv fmt_diff fstr fzero numeq ver wrapo ifmt m = Some hs ->
  hs_vers_items hs =
  written_version_items (s_transforms (l_version (m_las m))) (hs_version hs) (s_items (l_version (hs_las hs))).
Proof. exact write_sections_vers_items. Qed.

Theorem C03_roundtrip_vs_original :
  forall fmtv fmt_diff fmt_pi fstr fzero numeq fhex ro o m text m' hs dl rts vit nt,
  write fmtv fmt_diff fmt_pi fstr fzero numeq o m = WOk text m' ->
  write_sections fmtv fmt_diff fstr fzero numeq (wo_version o) (wo_wrap o) (col_fmt o 0%nat) m = Some hs ->
  dsh_of fmtv fmt_pi fstr o hs = Some dl ->
  las_null_text fstr (hs_las hs) = Some nt ->
  opt_all (map (row_text fmtv fmt_pi o (Some nt) 0%nat) (las_rows (hs_las hs))) = Some rts ->
  header_hyps fstr ro hs vit -> text_hyps o hs ->
  Forall (Forall (WriteDataProofs.wr_tok fhex)) (WriteDataProofs.tok_matrix fmtv o nt (las_rows (hs_las hs))) ->
  forallb is_space (wo_lhs_spacer o) = true -> forallb is_space (wo_spacer o) = true ->
  data_text_hyps fmtv o nt (las_rows (hs_las hs)) ->
  exists ps l,
    find_sections (lines_keep text) <> [] /\
    first_pass ro (lines_keep text) ps0 (find_sections (lines_keep text)) = inl ps /\
    p_las ps = l /\
    (o_ignore_data ro = true -> read fhex fstr numeq ro text = ROk l) /\
    let c := o_mcase ro in
    let M := m_las m in
    Forall2 (fun a r => exists u, r = meta (expected_item fstr KCurves c (set_unit a u)))
            (s_items (l_curves M)) (map meta (s_items (l_curves l))) /\
    map meta (tl (s_items (l_curves l))) =
      map (fun a => meta (expected_item fstr KCurves c a)) (tl (s_items (l_curves M))) /\
    map meta (s_items (l_params l)) =
      map (fun a => meta (expected_item fstr KParameter c (stdf fzero a))) (s_items (l_params M)) /\
    Forall2 (fun a r =>
               (is_sss (s_transforms (l_well M)) (i_sess a) = false ->
                r = meta (expected_item fstr KWell c (stdf fzero a))) /\
               exists u v, r = meta (expected_item fstr KWell c (mkitem (i_orig a) (i_sess a) u v (i_descr a))))
            (s_items (l_well M)) (map meta (s_items (l_well l))) /\
    map meta (s_items (l_version l)) =
      map (fun a => meta (expected_item fstr KVersion c a))
          (written_version_items (s_transforms (l_version M)) (hs_version hs)
             (match wo_wrap o with
              | None => s_items (l_version M)
              | Some b => set_item (s_transforms (l_version M)) (s2l "WRAP") (WriteIdemProofs.wrap_item b)
                                   (s_items (l_version M))
              end)) /\
    l_other l = other_read (l_other M) /\ l_custom l = [].
Proof. exact roundtrip_vs_original. Qed.

(* definitions used in the statement (unfolding lemmas) *)
Theorem C03_stdf_unfold : forall fzero it,
  stdf fzero it = mkitem (i_orig it) (i_sess it) (i_unit it) (standardize fzero (i_value it) (i_unit it)) (i_descr it).
Proof. reflexivity. Qed.
Theorem C03_is_sss_unfold : forall tr s,
  is_sss tr s = mn_compare tr s (s2l "STRT") || mn_compare tr s (s2l "STOP") || mn_compare tr s (s2l "STEP").
Proof. reflexivity. Qed.
Theorem C03_other_read_unfold : forall txt, other_read txt = join [ch_nl] (map strip (splitlines txt)).
Proof. reflexivity. Qed.

(* non-vacuity: the hypotheses are met by ex_m / fx_text (the file of C03_ex_file_theorem), and the
   conclusion shows a documented difference on it: the ORIGINAL ~Well item BHT.DEGC has the empty
   value, what is read back under its name has the value 0 *)
Example C03_ex_vs_original : forall c,
  exists l,
    read fx_fhex ex_fstr fx_numeq (fx_ro c true) fx_text = ROk l /\
    map meta (tl (s_items (l_curves l))) =
      map (fun a => meta (expected_item ex_fstr KCurves c a)) (tl (s_items (l_curves (m_las ex_m)))) /\
    map meta (s_items (l_params l)) =
      map (fun a => meta (expected_item ex_fstr KParameter c (stdf fx_fzero a))) (s_items (l_params (m_las ex_m))) /\
    Forall2 (fun a r =>
               is_sss (s_transforms (l_well (m_las ex_m))) (i_sess a) = false ->
               r = meta (expected_item ex_fstr KWell c (stdf fx_fzero a)))
            (s_items (l_well (m_las ex_m))) (map meta (s_items (l_well l))) /\
    l_other l = s2l "free text".
Proof.
  intros c.
  assert (Hw : write fx_fmtv fx_fmt_diff fx_fmt_pi ex_fstr fx_fzero fx_numeq fx_o ex_m = WOk fx_text (mkmlas (hs_las fx_hs) None))
    by (vm_compute; reflexivity).
  assert (Hs : write_sections fx_fmtv fx_fmt_diff ex_fstr fx_fzero fx_numeq (wo_version fx_o) (wo_wrap fx_o) (col_fmt fx_o 0%nat) ex_m = Some fx_hs)
    by (vm_compute; reflexivity).
  assert (Hdl : dsh_of fx_fmtv fx_fmt_pi ex_fstr fx_o fx_hs = Some fx_dl) by (vm_compute; reflexivity).
  assert (Hnt : las_null_text ex_fstr (hs_las fx_hs) = Some (s2l "-999.25")) by (vm_compute; reflexivity).
  assert (Hrts : opt_all (map (row_text fx_fmtv fx_fmt_pi fx_o (Some (s2l "-999.25")) 0%nat) (las_rows (hs_las fx_hs))) = Some fx_rts)
    by (vm_compute; reflexivity).
  assert (Hb : file_hypsb fx_fmtv fx_fmt_pi ex_fstr fx_fhex (fx_ro c true) fx_o fx_hs (s2l "-999.25") = true)
    by (destruct c; vm_compute; reflexivity).
  destruct (C03_file_hypsb_ok _ _ _ _ _ _ _ _ Hb) as ((vit & Hh) & Ht & _ & (_ & _ & _ & Hwr & Hl & Hsp & _) & Hd).
  destruct (C03_roundtrip_vs_original fx_fmtv fx_fmt_diff fx_fmt_pi ex_fstr fx_fzero fx_numeq fx_fhex (fx_ro c true) fx_o ex_m
              fx_text (mkmlas (hs_las fx_hs) None) fx_hs fx_dl fx_rts vit (s2l "-999.25")
              Hw Hs Hdl Hnt Hrts Hh Ht Hwr Hl Hsp Hd)
    as (ps & l & _ & _ & _ & Hread & _ & Hc & Hp & Hwl & _ & Ho & _).
  exists l. split; [apply Hread; reflexivity|]. split; [exact Hc|]. split; [exact Hp|]. split.
  - revert Hwl. generalize (s_items (l_well (m_las ex_m))) (map meta (s_items (l_well l))).
    induction 1 as [|a r la lr (H1 & _) _ IH]; constructor; [exact H1|exact IH].
  - rewrite Ho. vm_compute. reflexivity.
Qed.
Example C03_ex_vs_original_difference :
  map i_value (s_items (l_well (m_las ex_m))) =
    [VFloat (s2l "1.0"); VFloat (s2l "2.0"); VFloat (s2l "1.0"); VFloat (s2l "-999.25"); VStr []] /\
  i_value (expected_item ex_fstr KWell CasePreserve (stdf fx_fzero (nth 4 (s_items (l_well (m_las ex_m))) (new_item [] [] VNone []))))
    = VInt 0.
Proof. vm_compute. split; reflexivity. Qed.

Print Assumptions C03_written_version_items.
Print Assumptions C03_roundtrip_vs_original.
Print Assumptions C03_stdf_unfold.
Print Assumptions C03_is_sss_unfold.
Print Assumptions C03_other_read_unfold.
(* ==== END block "against the ORIGINAL object" (audit D7) ======================================== *)
