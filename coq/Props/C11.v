(* Props.C11 — lasio's own output is a fixed point of read -> write.
   Statements only; proofs in Proofs/FixedPointProofs.v, Proofs/WriteIdemProofs.v,
   Proofs/WriteStateProofs.v.

   Formal reading.  W o x = write (read x) o, R = read; for every x that lasio reads and writes
   and every o:  R (W o (W o x)) ~ R (W o x)  (header items with numeric values compared
   numerically, curve data), hence  R (W o^k x) ~ R (W o x)  for all k >= 1.

   What is proved here is the WRITER side, for all oracles unless stated:
     C11_second_write_same_text_partial / _nowrap
                          the object left in memory by a write, written again with the same
                          options, gives byte-identical text and stays the same object
                          (= C16 idempotence).  `_partial`: with wrap= given it needs WRAP to be
                          named at most once in ~Version; the hypothesis is necessary
                          (Props/C16.v, C16_idempotent_refuted_dup_wrap: one more WRAP item —
                          WRAP:3, WRAP:4, ... — per cycle: a growing suffix).
     C11_values_fixed     every ~Well/~Parameter value left in memory is a fixed point of
                          standardize_value; C11_standardize_idem; C11_refreshed_is_text: what
                          update_start_stop_step stores is a text; C11_refresh_idem_values:
                          refresh, normalise, refresh, normalise = refresh, normalise.
     C11_data_tokens_fixed, C11_cell_text_fixed, C11_column_text_cycles
                          under the ORACLE hypothesis  Hfix : fmtv f (fmtv f t) = fmtv f t
                          (printing a printed number with the same format gives the same text),
                          a column printed, read back as the printed tokens and printed again —
                          any number of times — gives the same texts: no accumulating loss.
     C11_iter             abstract induction over the number of cycles.  Instance meant:
                          X := file texts, F x := write (read x) o, P x := x is read and written
                          without error, R x y := canon (read x) = canon (read y); then
                          F_fix is the one-step statement C11_fix and the conclusion is the
                          property for cycle counts 2..k.
   The composition through the reader is in the two appended parts of this file:
     FILE LEVEL       C11_reread_fixed_point_partial: reading the written text is described by the
                      object m' the write left in memory (C01 + C03 at file level);
     THE SECOND CYCLE C11_second_cycle, C11_cycles_same_text, C11_cycles_iter: write applied to the
                      object READ BACK returns the same text, for any number of cycles, on the
                      decidable domain cycle_hypsb (the first written form is already in normal
                      form: every header item, every data token is stable under one read; the
                      STRT/STOP/STEP refresh is not triggered).
                      C11_second_cycle_content_partial: outside that domain (typically: the first
                      write refreshed STRT/STOP/STEP, "1670.00000" becomes "1670.0"), under the
                      weaker decidable domain cycle_whypsb and the premise that the second written
                      form satisfies the C01/C03 domain, the object read after the second cycle has
                      the data of the first re-read and header items equal up to numeric equality
                      (content_okb, decidable per file).
   NOT proved (covered by the correspondence runs of harness/props/c11.py only): the closure of the
   C01/C03 domain under one cycle (a premise above), the numeric oracle facts num(str(x)) ~ x for
   all values (checked per file), files where the second write refreshes STRT/STOP/STEP again.  See
   the comment of THE SECOND CYCLE for the list.  F15/F25 (a ~Curves unit starting with '.', a
   mnemonic ending with '.') and the nested-bracket unit (lasio fix b7a2e2d, found while proving the
   second cycle) were places where lasio itself drifted. *)
From Coq Require Import List NArith ZArith Bool Arith String.
Import ListNotations.
Require Import PyStr Regex NumLit Num Tables SectionParse DataRead Read TextWrap Writer
               WriteStateProofs WriteIdemProofs FixedPointProofs.
Open Scope string_scope.
Open Scope list_scope.
Open Scope N_scope.

Section C11.
Variable fmtv : list N -> list N -> list N.
Variable fmt_diff : list N -> list N -> list N -> list N.
Variable fmt_pi : list N -> list N.
Variable fstr : list N -> list N.
Variable fzero : list N -> bool.
Variable numeq : list N -> list N -> bool.
Notation write := (write fmtv fmt_diff fmt_pi fstr fzero numeq).

Theorem C11_second_write_same_text_partial : forall o m text m',
  (wo_wrap o <> None ->
   named_once (s_transforms (l_version (m_las m))) (s2l "WRAP") (s_items (l_version (m_las m)))) ->
  write o m = WOk text m' -> write o m' = WOk text m'.
Proof. exact (write_idempotent fmtv fmt_diff fmt_pi fstr fzero numeq). Qed.

Theorem C11_second_write_same_text_nowrap : forall o m text m',
  wo_wrap o = None -> write o m = WOk text m' -> write o m' = WOk text m'.
Proof. exact (write_idempotent_nowrap fmtv fmt_diff fmt_pi fstr fzero numeq). Qed.

Theorem C11_standardize_idem : forall v u,
  standardize fzero (standardize fzero v u) u = standardize fzero v u.
Proof. exact (standardize_idem fzero). Qed.

(* value_fixed it :  standardize (value it) (unit it) = value it *)
Theorem C11_values_fixed : forall o m text m',
  write o m = WOk text m' ->
  Forall (value_fixed fzero) (s_items (l_well (m_las m'))) /\
  Forall (value_fixed fzero) (s_items (l_params (m_las m'))).
Proof. exact (write_values_fixed fmtv fmt_diff fmt_pi fstr fzero numeq). Qed.

Theorem C11_refreshed_is_text : forall f c, exists s, fmt_index_cell fmtv f c = VStr s.
Proof. exact (refreshed_is_text fmtv). Qed.

Theorem C11_refreshed_shapes : forall f idx,
  (strt_of fmtv f idx = VNone \/ exists s, strt_of fmtv f idx = VStr s) /\
  (stop_of fmtv f idx = VNone \/ exists s, stop_of fmtv f idx = VStr s) /\
  (step_of fmtv fmt_diff f idx = VNone \/ exists s, step_of fmtv fmt_diff f idx = VStr s).
Proof. exact (fun f idx => conj (strt_of_shape fmtv f idx) (conj (stop_of_shape fmtv f idx) (step_of_shape fmtv fmt_diff f idx))). Qed.

(* norm_las: the in-place normalisation of ~Well and ~Parameter values *)
Theorem C11_refresh_idem_values : forall f m l2,
  refresh_sss fmtv fmt_diff numeq f m = Some l2 ->
  exists l2', refresh_sss fmtv fmt_diff numeq f (mkmlas (norm_las fzero l2) (m_index_initial m)) = Some l2' /\
              norm_las fzero l2' = norm_las fzero l2.
Proof. exact (fun f => refresh_std_idem fmtv fmt_diff numeq f fzero). Qed.

Section Tokens.
Hypothesis Hfix : forall f t, fmtv f (fmtv f t) = fmtv f t.

Theorem C11_data_tokens_fixed : forall f toks, map (fmtv f) (map (fmtv f) toks) = map (fmtv f) toks.
Proof. exact (tokens_fixed fmtv Hfix). Qed.

(* reprint_cell f c: the cell read back from what `f % c` printed *)
Theorem C11_cell_text_fixed : forall f nt col,
  map (cell_text fmtv f nt) (map (reprint_cell fmtv f) col) = map (cell_text fmtv f nt) col.
Proof. exact (column_text_fixed fmtv Hfix). Qed.

Theorem C11_column_text_cycles : forall f nt col k,
  map (cell_text fmtv f nt) (Nat.iter k (map (reprint_cell fmtv f)) col) = map (cell_text fmtv f nt) col.
Proof. exact (column_text_cycles fmtv Hfix). Qed.
End Tokens.

End C11.

Theorem C11_iter : forall (X : Type) (F : X -> X) (R : X -> X -> Prop) (P : X -> Prop),
  (forall x, R x x) -> (forall x y z, R x y -> R y z -> R x z) ->
  (forall x y, R x y -> R (F x) (F y)) ->
  (forall x, P x -> R (F (F x)) (F x)) ->
  forall x k, P x -> (1 <= k)%nat -> R (Nat.iter k F x) (F x).
Proof. exact cycles_fixed. Qed.

Theorem C11_iter_from_fix : forall (X : Type) (F : X -> X) (R : X -> X -> Prop) (P : X -> Prop),
  (forall x, R x x) -> (forall x y z, R x y -> R y z -> R x z) ->
  (forall x y, R x y -> R (F x) (F y)) ->
  (forall x, P x -> R (F (F x)) (F x)) ->
  forall x k, P x -> (1 <= k)%nat -> R (Nat.iter k F x) (F x).
Proof. exact cycles_fixed. Qed.

(* ---- non-vacuity ---------------------------------------------------------------------------------- *)
Definition t_fmtv (f t : list N) : list N := match t with [] => s2l "0.00000" | _ => t end.
Definition t_fmt_diff (f b a : list N) : list N := s2l "1.00000".
Definition t_fmt_pi (f : list N) : list N := s2l "3.14159".
Definition t_fstr (t : list N) : list N := t.
Definition t_fzero (t : list N) : bool := str_eqb t (s2l "0.0").
Definition t_numeq (a b : list N) : bool := str_eqb a b.
Definition ex_it (name unit : string) (v : hval) (d : string) : hitem :=
  mkitem (s2l name) (s2l name) (s2l unit) v (s2l d).
Definition ex_idx : list cell := [CNum (s2l "1.0"); CNum []; CNum (s2l "3.0")].
Definition ex_las : las :=
  mklas (mksect [ex_it "VERS" "" (VFloat (s2l "2.0")) "v"; ex_it "WRAP" "" (VStr (s2l "NO")) "w"] false)
        (mksect [ex_it "STRT" "M" (VFloat (s2l "1.0")) ""; ex_it "STOP" "M" (VFloat (s2l "3.0")) "";
                 ex_it "STEP" "M" (VFloat (s2l "1.0")) ""; ex_it "NULL" "" (VFloat (s2l "-999.25")) "";
                 ex_it "EKB" "M" VNone "elevation"] false)
        (mksect [ex_it "DEPT" "M" (VStr []) "depth"; ex_it "A" "V" (VStr []) "a"] false)
        (mksect [ex_it "BHT" "DEGC" (VStr []) "temp"] false)
        [] [] [ex_idx; [CNum (s2l "5"); CNaN; CNum (s2l "7")]] false.
Definition ex_m : mlas := mkmlas ex_las (Some ex_idx).
Definition ex_o (w : option bool) : wopts :=
  mkwopts None w (s2l "%.5f") [] LAuto (s2l " ") (s2l " ") 79 60 (s2l "~ASCII") false.
Definition ex_write := write t_fmtv t_fmt_diff t_fmt_pi t_fstr t_fzero t_numeq.

Example C11_ex_Hfix : forall f t, t_fmtv f (t_fmtv f t) = t_fmtv f t.
Proof. intros f [|c t]; reflexivity. Qed.

(* the second write of the object the first write left behind: same text, same object;
   empty-with-unit values went to 0 the first time and stay *)
Example C11_ex_second_write : forall w,
  match ex_write (ex_o w) ex_m with
  | WOk t m' => ex_write (ex_o w) m' = WOk t m' /\
                map i_value (s_items (l_params (m_las m'))) = [VInt 0] /\
                map i_value (skipn 4 (s_items (l_well (m_las m')))) = [VInt 0]
  | WErr _ => False
  end.
Proof. intros [[|]|]; vm_compute; repeat split; reflexivity. Qed.

Example C11_ex_column :
  map (cell_text t_fmtv (s2l "%.5f") None) (Nat.iter 3 (map (reprint_cell t_fmtv (s2l "%.5f"))) ex_idx)
  = [Some (s2l "1.0"); Some (s2l "0.00000"); Some (s2l "3.0")].
Proof. vm_compute. reflexivity. Qed.

Example C11_ex_iter : Nat.iter 5 (fun n => Nat.min n 3) 10%nat = (fun n => Nat.min n 3) 10%nat.
Proof.
  apply (C11_iter nat (fun n => Nat.min n 3) eq (fun _ => True)).
  - reflexivity.
  - intros; congruence.
  - intros; congruence.
  - intros x _. rewrite <- Nat.min_assoc, Nat.min_id. reflexivity.
  - exact I.
  - repeat constructor.
Qed.

Print Assumptions C11_second_write_same_text_partial.
Print Assumptions C11_second_write_same_text_nowrap.
Print Assumptions C11_standardize_idem.
Print Assumptions C11_values_fixed.
Print Assumptions C11_refreshed_is_text.
Print Assumptions C11_refreshed_shapes.
Print Assumptions C11_refresh_idem_values.
Print Assumptions C11_data_tokens_fixed.
Print Assumptions C11_cell_text_fixed.
Print Assumptions C11_column_text_cycles.
Print Assumptions C11_iter.
Print Assumptions C11_iter_from_fix.

(* ====================================================================================== *)
(* FILE LEVEL (appended).  Proofs in Proofs/FileRoundTrip*.v, Proofs/WriteIdemProofs.v.     *)
(* ====================================================================================== *)
(* The reader side of the fixed point, composed with the writer side above.

     C11_reread_fixed_point_partial
        write o m = WOk text m'  (m any file in memory, e.g. the result of a read) and the
        file-level domain hypotheses on the written form hs of m' (file_hypsb: Props/C03.v
        C03_file_hypsb_ok, Props/C01.v) give:
          (a) write o m' = WOk text m'          — m' is a fixed point of write, the second,
              third, ... write of the object lasio holds print the SAME text (C16), so
              read (W^k) = read (W) for all k >= 1 trivially;
          (b) read text = ROk l                  — lasio reads its own output without error;
          (c) l IS the object m' left in memory by the write, as far as the property looks:
              header items with the metadata C03 expects (header_read_back: values through
              str() and num(), mnemonics case-mapped), ~Other with its lines stripped, no
              custom section, data = the printed tokens of m' through the NULL rule
              (C01_file_roundtrip; C01_file_cell_num / C01_file_cell_nan).
        Hence R (W o m) is a function of the fixed point m' of the writer: the information the
        first cycle keeps is exactly what m' holds; nothing further can be lost by writing
        again WITHOUT re-reading.
     `_partial`: this theorem stops at the re-read; what write does with the object READ BACK
     (R (W o (R (W o m))) vs R (W o m)) is THE SECOND CYCLE below (C11_second_cycle): proved on the
     decidable domain cycle_hypsb; outside it (text changes once, content numerically the same)
     and for the closure of the domain the correspondence runs of harness/props/c11.py are the
     only evidence. *)
Require Import Sections WriteOptionsProofs WriteHeaderProofs WriteReadProofs WriteDataProofs WriteDataTextProofs ItemsBindProofs
  FileRoundTripText FileRoundTripBlocks FileRoundTripFind FileRoundTripFirstPass FileRoundTripHeader
  FileRoundTripData FileRoundTripLines FileRoundTrip FileRoundTripMain FileRoundTripCheck.

Theorem C11_reread_fixed_point_partial :
  forall fmtv fmt_diff fmt_pi fstr fzero numeq fhex ro o m text m' hs dl rts nt,
  write fmtv fmt_diff fmt_pi fstr fzero numeq o m = WOk text m' ->
  (wo_wrap o <> None ->
   named_once (s_transforms (l_version (m_las m))) (s2l "WRAP") (s_items (l_version (m_las m)))) ->
  write_sections fmtv fmt_diff fstr fzero numeq (wo_version o) (wo_wrap o) (col_fmt o 0%nat) m = Some hs ->
  dsh_of fmtv fmt_pi fstr o hs = Some dl ->
  las_null_text fstr (hs_las hs) = Some nt ->
  opt_all (map (row_text fmtv fmt_pi o (Some nt) 0%nat) (las_rows (hs_las hs))) = Some rts ->
  file_hypsb fmtv fmt_pi fstr fhex ro o hs nt = true -> o_ignore_data ro = false ->
  write fmtv fmt_diff fmt_pi fstr fzero numeq o m' = WOk text m' /\
  m_las m' = hs_las hs /\
  exists l pn,
    read fhex fstr numeq ro text = ROk l /\
    header_read_back fstr ro hs l /\ null_read fstr ro hs pn /\
    l_data l = data_result fhex numeq ro pn (List.length (s_items (l_curves (hs_las hs))))
                 (tok_matrix fmtv o nt (las_rows (hs_las hs))).
Proof.
  intros fmtv fmt_diff fmt_pi fstr fzero numeq fhex ro o m text m' hs dl rts nt Hw Hn Hs Hdl Hnt Hrts Hb Hig.
  split; [exact (write_idempotent fmtv fmt_diff fmt_pi fstr fzero numeq o m text m' Hn Hw)|].
  split.
  - destruct (write_ok_inv fmtv fmt_diff fmt_pi fstr fzero numeq o m text m' Hw) as (hs0 & d & Hs0 & _ & _ & ->).
    rewrite Hs in Hs0. injection Hs0 as <-. reflexivity.
  - exact (read_written_file_checked fmtv fmt_diff fmt_pi fstr fzero numeq fhex ro o m text m' hs dl rts nt
             Hw Hs Hdl Hnt Hrts Hb Hig).
Qed.

(* ---- non-vacuity: ex_m (above), for wrap = None / True / False ------------------------------- *)
Definition t_fhex (t : list N) : option (list N) := match py_float_dec t with Some _ => Some t | None => None end.
Definition t_ro : ropts := mkropts false CasePreserve true true false.
Definition t_hs (w : option bool) : hdr_sections :=
  match write_sections t_fmtv t_fmt_diff t_fstr t_fzero t_numeq None w (col_fmt (ex_o w) 0%nat) ex_m with
  | Some hs => hs
  | None => mkhs false V20 [] [] [] [] [] empty_las
  end.
Definition t_text (w : option bool) : list N := match ex_write (ex_o w) ex_m with WOk t _ => t | WErr _ => [] end.

Example C11_ex_file_domain : forall w,
  write_sections t_fmtv t_fmt_diff t_fstr t_fzero t_numeq (wo_version (ex_o w)) (wo_wrap (ex_o w)) (col_fmt (ex_o w) 0%nat) ex_m
    = Some (t_hs w) /\
  file_hypsb t_fmtv t_fmt_pi t_fstr t_fhex t_ro (ex_o w) (t_hs w) (s2l "-999.25") = true /\
  named_once (s_transforms (l_version (m_las ex_m))) (s2l "WRAP") (s_items (l_version (m_las ex_m))).
Proof.
  intros w. split; [destruct w as [[|]|]; vm_compute; reflexivity|].
  split; [destruct w as [[|]|]; vm_compute; reflexivity|].
  split; [vm_compute; apply le_n|].
  intros it Hin. cbn [ex_m m_las ex_las l_version s_items In] in Hin.
  destruct Hin as [<-|[<-|[]]]; reflexivity.
Qed.

(* one full cycle more, computed: read the written text, write what was read (index_initial =
   the index column read), read again — the same header metadata and the same data *)
Definition t_canon (l : las) :=
  (map meta (s_items (l_version l)), map meta (s_items (l_well l)), map meta (s_items (l_curves l)),
   map meta (s_items (l_params l)), l_other l, l_data l).
Example C11_ex_two_cycles : forall w,
  match read t_fhex t_fstr t_numeq t_ro (t_text w) with
  | ROk l1 =>
      match ex_write (ex_o w) (mkmlas l1 (Some (nth 0%nat (l_data l1) []))) with
      | WOk t2 _ =>
          match read t_fhex t_fstr t_numeq t_ro t2 with
          | ROk l2 => t_canon l2 = t_canon l1 /\ t2 = t_text w
          | RErr _ => False
          end
      | WErr _ => False
      end
  | RErr _ => False
  end.
Proof. intros [[|]|]; vm_compute; split; reflexivity. Qed.

Print Assumptions C11_reread_fixed_point_partial.

(* ====================================================================================== *)
(* THE SECOND CYCLE (appended).  Proofs in Proofs/SecondCycle*.v.                           *)
(* ====================================================================================== *)
(* write applied to the object READ BACK (l with index_initial = its index column, as
   LASFile.read leaves it: reread_index = the pipeline interpreter's index_initial_of).

     C11_read_canonical   every header section of a read result is what appending its own items
                          (plain session mnemonics) to an empty section gives: the session
                          mnemonics of a read result are a function of the original mnemonics
                          (any text, any option).  Hence the object read back from a written text
                          is DETERMINED by header_read_back (reb: canon_is_reb).
     C11_second_header    (step 1, with step 3 inside) hs = first written form, l = the object
                          read back from it.  When every item of hs is stable under one read
                          (stable_item: reading its line back — mnemonic case-mapped, unit
                          through strip_brackets, value through str() and num() — and normalising
                          the value as the writer does prints the same mnemonic, unit and value
                          text), WRAP / VERS / STRT / STOP / STEP name one item each, the units of
                          STRT/STOP/STEP and of the first curve agree and the STRT/STOP/STEP
                          refresh is not triggered (need_of = Some false), write_sections applied
                          to l gives the SAME item lines, wrap flag and version, and leaves l
                          (values normalised) in memory: the refresh and the WRAP step change
                          nothing on an object lasio has written and read back.
     C11_refresh_not_triggered  (step 3) need_of = Some false from: the STOP value read back equals
                          (numeq oracle) what the index format prints for the last index value
                          read back, no index value is NaN.
     C11_back_okb_of_Hfix, C11_second_data_tokens, C11_second_data_lines   (step 2) under the
                          oracle hypothesis Hfix, when every cell comes back as the same kind of
                          cell (a number not read as NaN and — outside the index column — not equal
                          to NULL; NaN through the NULL text as NaN), every printed token is a
                          fixed point of read-then-print (back_okb); then the token matrix of the
                          second write is that of the first, and with it the data lines and the ~A
                          line (mnemonics_header: the curves' session mnemonics are those the
                          reader assigns).
     C11_second_cycle     (step 4)  write o m = WOk text m'  and the domain
                            file_hypsb (C01/C03 file round trip) + cycle_hypsb (decidable, on hs)
                          give  read ro text = ROk l  and
                            write o (mkmlas l (reread_index l)) = WOk text (l normalised):
                          the second write returns the SAME TEXT, so the next read returns the same
                          l, and so on:
     C11_cycle_fixed, C11_cycles_same_text, C11_cycles_iter (C11_iter instantiated with X = texts,
                          R = equality of texts — finer than equality of content, so that the
                          respects-R premise is trivial —, F = one load/save cycle): for every k the
                          text after k cycles is the text of the first write.

     C11_second_cycle_content_partial, C11_content_okb_ok   OUTSIDE that domain, at the level of
                          CONTENT (statement further down): when only mnemonic and unit of every
                          item survive one read (cycle_whypsb) the second write succeeds, prints the
                          same data lines, and the object read from its text has the data and the
                          ~Other text of l and the header items E (E a) where those of l are E a;
                          E (E a) ~ E a (float values compared with the numeq oracle) is a decidable
                          check on the items (content_okb).  This is the common case: the first
                          write refreshed STRT/STOP/STEP and printed "1670.00000", the second prints
                          "1670.0" (72 of 96 chains of the quick tier; C11_second_text_refuted,
                          C11_ex_content).

   WHAT IS STILL MISSING (named):
     (a) closure of the C01/C03 domain: that the SECOND written form satisfies file_hypsb is a
         premise of C11_second_cycle_content_partial (conformance of the value texts str(num(.))
         prints; decidable on the concrete second form, proved by computation in C11_ex_content),
         and E (E a) ~ E a is checked per file (content_okb), not proved for all items — it would
         need the numeric oracle facts num(str(x)) ~ x for every value;
     (b) files where the second write DOES refresh STRT/STOP/STEP (need_of = Some true on the
         object read back: the STOP value read back differs from the last index value read back),
         a data value that the format rounds onto NULL (printed "-999.25000", read back NaN, printed
         "-999.25"), a unit in brackets "(M)", mixed-case mnemonics under mnemonic_case upper/lower,
         unstripped ~Other lines (these three change on the FIRST read only; strip_brackets is
         idempotent since lasio fix b7a2e2d — before it a unit in three pairs of brackets lost one
         pair per cycle, a genuine drift found while proving C11_second_header): outside both
         domains, correspondence runs only;
     (c) harness/props/c11.py evaluates file_hypsb && cycle_hypsb on every chain of the run
         (Proofs/SecondCycleCheck.v) and checks on the real lasio that each chain in the domain
         writes the same text twice. *)
Require Import JunkProofs SecondCycleRead SecondCycleItems SecondCycleHeader SecondCycleData SecondCycle SecondCycleContent WriteShow.

Theorem C11_read_canonical : forall fhex fstr numeq ro text l,
  read fhex fstr numeq ro text = ROk l -> canon_las l.
Proof. exact read_canon. Qed.

Theorem C11_canonical_determined : forall fstr ro k items (s : section),
  canon_sect s -> s_transforms s = trc (o_mcase ro) ->
  map meta (s_items s) = map (fun it => meta (expected_item fstr k (o_mcase ro) it)) items ->
  s = mksect (reb fstr ro k items) (trc (o_mcase ro)).
Proof. exact canon_is_reb. Qed.

Theorem C11_second_header :
  forall fmtv fmt_diff (fmt_pi : list N -> list N) fstr fzero numeq ro ver wrapo ifmt m hs,
  write_sections fmtv fmt_diff fstr fzero numeq ver wrapo ifmt m = Some hs ->
  forall l,
  l_version l = mksect (reb fstr ro KVersion (hs_vers_items hs)) (trc (o_mcase ro)) ->
  l_well l = mksect (reb fstr ro KWell (s_items (l_well (hs_las hs)))) (trc (o_mcase ro)) ->
  l_curves l = mksect (reb fstr ro KCurves (s_items (l_curves (hs_las hs)))) (trc (o_mcase ro)) ->
  l_params l = mksect (reb fstr ro KParameter (s_items (l_params (hs_las hs)))) (trc (o_mcase ro)) ->
  Forall (wstable_item fstr ro KVersion) (hs_vers_items hs) ->
  Forall (wstable_item fstr ro KWell) (s_items (l_well (hs_las hs))) ->
  Forall (wstable_item fstr ro KCurves) (s_items (l_curves (hs_las hs))) ->
  forall wit vit,
  filter (in_class (o_mcase ro) k_wrap) (hs_vers_items hs) = [wit] ->
  (forall b, wrapo = Some b -> expected_item fstr KVersion (o_mcase ro) wit = wrap_item b) ->
  filter (in_class (o_mcase ro) k_vers) (hs_vers_items hs) = [vit] ->
  std_version (hs_version hs) -> fstr_vers_ok fstr -> dlm_ok fstr (o_mcase ro) hs ->
  forall sit pit eit c0 crest,
  filter (in_class (o_mcase ro) k_strt) (s_items (l_well (hs_las hs))) = [sit] ->
  filter (in_class (o_mcase ro) k_stop) (s_items (l_well (hs_las hs))) = [pit] ->
  filter (in_class (o_mcase ro) k_step) (s_items (l_well (hs_las hs))) = [eit] ->
  s_items (l_curves (hs_las hs)) = c0 :: crest ->
  i_unit sit = i_unit c0 -> i_unit pit = i_unit c0 -> i_unit eit = i_unit c0 ->
  forall ii, need_of fmtv numeq ifmt (mkmlas l ii) = Some false ->
  exists vsw2 lv2 lw2 lc2 lp2,
    write_sections fmtv fmt_diff fstr fzero numeq ver wrapo ifmt (mkmlas l ii) =
    Some (mkhs (hs_wrap hs) (hs_version hs) vsw2 lv2 lw2 lc2 lp2 (norm_las fzero l)) /\
    map (pm fstr) vsw2 = map (pm fstr) (reb fstr ro KVersion (hs_vers_items hs)) /\
    section_lines fstr (hs_version hs) (s2l "Version") vsw2 = Some lv2 /\
    section_lines fstr (hs_version hs) (s2l "Well") (map (post fzero true) (reb fstr ro KWell (s_items (l_well (hs_las hs))))) = Some lw2 /\
    section_lines fstr (hs_version hs) (s2l "Curves") (reb fstr ro KCurves (s_items (l_curves (hs_las hs)))) = Some lc2 /\
    section_lines fstr (hs_version hs) (s2l "Parameter") (map (post fzero true) (reb fstr ro KParameter (s_items (l_params (hs_las hs))))) = Some lp2.
Proof. exact second_write_sections_gen. Qed.

Theorem C11_second_header_same_lines :
  forall fmtv fmt_diff (fmt_pi : list N -> list N) fstr fzero numeq ro ver wrapo ifmt m hs,
  write_sections fmtv fmt_diff fstr fzero numeq ver wrapo ifmt m = Some hs ->
  forall l,
  l_version l = mksect (reb fstr ro KVersion (hs_vers_items hs)) (trc (o_mcase ro)) ->
  l_well l = mksect (reb fstr ro KWell (s_items (l_well (hs_las hs)))) (trc (o_mcase ro)) ->
  l_curves l = mksect (reb fstr ro KCurves (s_items (l_curves (hs_las hs)))) (trc (o_mcase ro)) ->
  l_params l = mksect (reb fstr ro KParameter (s_items (l_params (hs_las hs)))) (trc (o_mcase ro)) ->
  Forall (wstable_item fstr ro KVersion) (hs_vers_items hs) ->
  Forall (wstable_item fstr ro KWell) (s_items (l_well (hs_las hs))) ->
  Forall (wstable_item fstr ro KCurves) (s_items (l_curves (hs_las hs))) ->
  forall wit vit,
  filter (in_class (o_mcase ro) k_wrap) (hs_vers_items hs) = [wit] ->
  (forall b, wrapo = Some b -> expected_item fstr KVersion (o_mcase ro) wit = wrap_item b) ->
  filter (in_class (o_mcase ro) k_vers) (hs_vers_items hs) = [vit] ->
  std_version (hs_version hs) -> fstr_vers_ok fstr -> dlm_ok fstr (o_mcase ro) hs ->
  forall sit pit eit c0 crest,
  filter (in_class (o_mcase ro) k_strt) (s_items (l_well (hs_las hs))) = [sit] ->
  filter (in_class (o_mcase ro) k_stop) (s_items (l_well (hs_las hs))) = [pit] ->
  filter (in_class (o_mcase ro) k_step) (s_items (l_well (hs_las hs))) = [eit] ->
  s_items (l_curves (hs_las hs)) = c0 :: crest ->
  i_unit sit = i_unit c0 -> i_unit pit = i_unit c0 -> i_unit eit = i_unit c0 ->
  forall ii, need_of fmtv numeq ifmt (mkmlas l ii) = Some false ->
  Forall (stable_item fstr fzero ro KVersion false) (hs_vers_items hs) ->
  Forall (stable_item fstr fzero ro KWell true) (s_items (l_well (hs_las hs))) ->
  Forall (stable_item fstr fzero ro KCurves false) (s_items (l_curves (hs_las hs))) ->
  Forall (stable_item fstr fzero ro KParameter true) (s_items (l_params (hs_las hs))) ->
  exists vsw2,
    write_sections fmtv fmt_diff fstr fzero numeq ver wrapo ifmt (mkmlas l ii) =
    Some (mkhs (hs_wrap hs) (hs_version hs) vsw2 (hs_lv hs) (hs_lw hs) (hs_lc hs) (hs_lp hs) (norm_las fzero l)).
Proof. exact second_write_sections. Qed.

Theorem C11_stable_itemb_ok : forall fstr fzero ro k std it,
  stable_itemb fstr fzero ro k std it = true -> stable_item fstr fzero ro k std it.
Proof. exact stable_itemb_ok. Qed.

(* f = the format of the index column.  Since the lossy-format repair of writer.write the
   refresh decision compares STOP with the value f PRINTS for the last index value
   (float(f % index_initial[-1]) != STOP.value): stop_agreesb and need_of take f and say
   exactly that (numeq (fmtv f t) stop). *)
Theorem C11_refresh_not_triggered : forall fmtv fstr numeq fhex ro f hs l pit c pn T,
  l_well l = mksect (reb fstr ro KWell (s_items (l_well (hs_las hs)))) (trc (o_mcase ro)) ->
  l_data l = data_result fhex numeq ro pn c T -> (0 < c)%nat ->
  filter (in_class (o_mcase ro) k_stop) (s_items (l_well (hs_las hs))) = [pit] ->
  stop_agreesb fmtv fstr numeq fhex ro f pit T = true -> index_reflb numeq fhex T = true ->
  (* added with audit item A5: the writer model now raises (IndexError of `las.index`) when
     index_initial is set and there is no curve; the hypothesis excludes exactly that case *)
  s_items (l_curves l) <> [] ->
  need_of fmtv numeq f (mkmlas l (Some (nth 0%nat (l_data l) []))) = Some false.
Proof. exact second_need. Qed.

Theorem C11_back_okb_of_Hfix : forall fmtv fhex numeq ro pn o nt,
  (forall f t, fmtv f (fmtv f t) = fmtv f t) ->
  forall rows, forallb (row_backb fmtv fhex numeq ro pn o nt 0) rows = true ->
  back_okb fmtv fhex numeq ro pn o nt (tok_matrix fmtv o nt rows) = true.
Proof. exact back_okb_of_Hfix. Qed.

Theorem C11_second_data_tokens :
  forall fmtv (fmt_pi : list N -> list N) fhex (fstr : list N -> list N) numeq ro pn o nt c T,
  (0 < c)%nat -> Forall (fun toks : list (list N) => List.length toks = c) T ->
  back_okb fmtv fhex numeq ro pn o nt T = true ->
  forall l', l_data l' = data_result fhex numeq ro pn c T -> List.length (s_items (l_curves l')) = c ->
  tok_matrix fmtv o nt (las_rows l') = T.
Proof. exact second_tok_matrix. Qed.

Theorem C11_second_data_lines : forall fmtv fmt_pi fstr o nt hs1 hs2,
  las_null_text fstr (hs_las hs1) = Some nt -> las_null_text fstr (hs_las hs2) = Some nt ->
  tok_matrix fmtv o nt (las_rows (hs_las hs2)) = tok_matrix fmtv o nt (las_rows (hs_las hs1)) ->
  hs_wrap hs2 = hs_wrap hs1 ->
  (wo_mnemonics_header o = true ->
   map i_sess (s_items (l_curves (hs_las hs2))) = map i_sess (s_items (l_curves (hs_las hs1)))) ->
  write_data fmtv fmt_pi fstr o hs2 = write_data fmtv fmt_pi fstr o hs1.
Proof. exact write_data_same. Qed.

Theorem C11_second_cycle :
  forall fmtv fmt_diff fmt_pi fstr fzero numeq fhex ro o m text m' hs dl rts nt,
  write fmtv fmt_diff fmt_pi fstr fzero numeq o m = WOk text m' ->
  write_sections fmtv fmt_diff fstr fzero numeq (wo_version o) (wo_wrap o) (col_fmt o 0%nat) m = Some hs ->
  dsh_of fmtv fmt_pi fstr o hs = Some dl ->
  las_null_text fstr (hs_las hs) = Some nt ->
  opt_all (map (row_text fmtv fmt_pi o (Some nt) 0%nat) (las_rows (hs_las hs))) = Some rts ->
  file_hypsb fmtv fmt_pi fstr fhex ro o hs nt = true -> o_ignore_data ro = false ->
  cycle_hypsb fmtv fstr fzero numeq fhex ro o hs nt = true ->
  exists l,
    read fhex fstr numeq ro text = ROk l /\
    write fmtv fmt_diff fmt_pi fstr fzero numeq o (mkmlas l (reread_index l))
      = WOk text (mkmlas (norm_las fzero l) (reread_index l)).
Proof. exact second_cycle. Qed.

Theorem C11_cycle_fixed :
  forall fmtv fmt_diff fmt_pi fstr fzero numeq fhex ro o m text m' hs dl rts nt,
  write fmtv fmt_diff fmt_pi fstr fzero numeq o m = WOk text m' ->
  write_sections fmtv fmt_diff fstr fzero numeq (wo_version o) (wo_wrap o) (col_fmt o 0%nat) m = Some hs ->
  dsh_of fmtv fmt_pi fstr o hs = Some dl ->
  las_null_text fstr (hs_las hs) = Some nt ->
  opt_all (map (row_text fmtv fmt_pi o (Some nt) 0%nat) (las_rows (hs_las hs))) = Some rts ->
  file_hypsb fmtv fmt_pi fstr fhex ro o hs nt = true -> o_ignore_data ro = false ->
  cycle_hypsb fmtv fstr fzero numeq fhex ro o hs nt = true ->
  cycle fmtv fmt_diff fmt_pi fstr fzero numeq fhex ro o text = Some text.
Proof. exact cycle_fixed. Qed.

Theorem C11_cycles_same_text :
  forall fmtv fmt_diff fmt_pi fstr fzero numeq fhex ro o m text m' hs dl rts nt,
  write fmtv fmt_diff fmt_pi fstr fzero numeq o m = WOk text m' ->
  write_sections fmtv fmt_diff fstr fzero numeq (wo_version o) (wo_wrap o) (col_fmt o 0%nat) m = Some hs ->
  dsh_of fmtv fmt_pi fstr o hs = Some dl ->
  las_null_text fstr (hs_las hs) = Some nt ->
  opt_all (map (row_text fmtv fmt_pi o (Some nt) 0%nat) (las_rows (hs_las hs))) = Some rts ->
  file_hypsb fmtv fmt_pi fstr fhex ro o hs nt = true -> o_ignore_data ro = false ->
  cycle_hypsb fmtv fstr fzero numeq fhex ro o hs nt = true ->
  forall k, Nat.iter k (cycle_opt fmtv fmt_diff fmt_pi fstr fzero numeq fhex ro o) (Some text) = Some text.
Proof. exact cycles_same_text. Qed.

(* C11_iter instantiated: X = texts (None: a cycle failed), F = one load/save cycle, R = equality
   of texts, P = "is the text of the first write" *)
Theorem C11_cycles_iter :
  forall fmtv fmt_diff fmt_pi fstr fzero numeq fhex ro o m text m' hs dl rts nt,
  write fmtv fmt_diff fmt_pi fstr fzero numeq o m = WOk text m' ->
  write_sections fmtv fmt_diff fstr fzero numeq (wo_version o) (wo_wrap o) (col_fmt o 0%nat) m = Some hs ->
  dsh_of fmtv fmt_pi fstr o hs = Some dl ->
  las_null_text fstr (hs_las hs) = Some nt ->
  opt_all (map (row_text fmtv fmt_pi o (Some nt) 0%nat) (las_rows (hs_las hs))) = Some rts ->
  file_hypsb fmtv fmt_pi fstr fhex ro o hs nt = true -> o_ignore_data ro = false ->
  cycle_hypsb fmtv fstr fzero numeq fhex ro o hs nt = true ->
  forall k, (1 <= k)%nat ->
    Nat.iter k (cycle_opt fmtv fmt_diff fmt_pi fstr fzero numeq fhex ro o) (Some text)
    = cycle_opt fmtv fmt_diff fmt_pi fstr fzero numeq fhex ro o (Some text).
Proof.
  intros fmtv fmt_diff fmt_pi fstr fzero numeq fhex ro o m text m' hs dl rts nt Hw Hs Hdl Hnt Hrts Hf Hig Hc k Hk.
  pose proof (cycle_fixed fmtv fmt_diff fmt_pi fstr fzero numeq fhex ro o m text m' hs dl rts nt Hw Hs Hdl Hnt Hrts Hf Hig Hc) as Hfix.
  apply (C11_iter (option (list N)) (cycle_opt fmtv fmt_diff fmt_pi fstr fzero numeq fhex ro o) eq (fun x => x = Some text)).
  - reflexivity.
  - intros x y z -> ->. reflexivity.
  - intros x y ->. reflexivity.
  - intros x ->. cbn [cycle_opt]. rewrite Hfix. cbn [cycle_opt]. rewrite Hfix. reflexivity.
  - reflexivity.
  - exact Hk.
Qed.

(* ---- the second cycle at the level of CONTENT (the second text may differ) -------------------------
   cycle_whypsb: as cycle_hypsb, but only mnemonic and unit of every item must survive one read
   (the NULL item must be fully stable: its text is printed into the data).  The second write
   then succeeds, prints the same data lines, and reading its text gives l2 with the data and the
   ~Other text of l and the header items  E (E a)  where those of l are  E a  (E1, E2; a: items of
   the first written form).  `_partial`: the C01/C03 domain hypothesis on the SECOND written form
   (file_hypsb hs2) is a premise, not derived from the first. *)
Theorem C11_second_cycle_content_partial :
  forall fmtv fmt_diff fmt_pi fstr fzero numeq fhex ro o m text m' hs dl rts nt l,
  write fmtv fmt_diff fmt_pi fstr fzero numeq o m = WOk text m' ->
  write_sections fmtv fmt_diff fstr fzero numeq (wo_version o) (wo_wrap o) (col_fmt o 0%nat) m = Some hs ->
  dsh_of fmtv fmt_pi fstr o hs = Some dl ->
  las_null_text fstr (hs_las hs) = Some nt ->
  opt_all (map (row_text fmtv fmt_pi o (Some nt) 0%nat) (las_rows (hs_las hs))) = Some rts ->
  file_hypsb fmtv fmt_pi fstr fhex ro o hs nt = true -> o_ignore_data ro = false ->
  cycle_whypsb fmtv fstr fzero numeq fhex ro o hs nt = true ->
  read fhex fstr numeq ro text = ROk l ->
  (forall hs2, write_sections fmtv fmt_diff fstr fzero numeq (wo_version o) (wo_wrap o) (col_fmt o 0%nat)
                 (mkmlas l (reread_index l)) = Some hs2 ->
               file_hypsb fmtv fmt_pi fstr fhex ro o hs2 nt = true) ->
  exists text2 l2,
    write fmtv fmt_diff fmt_pi fstr fzero numeq o (mkmlas l (reread_index l))
      = WOk text2 (mkmlas (norm_las fzero l) (reread_index l)) /\
    read fhex fstr numeq ro text2 = ROk l2 /\
    map meta (s_items (l_version l2)) = map (fun a => meta (E2 fstr fzero ro KVersion false a)) (hs_vers_items hs) /\
    map meta (s_items (l_well l2)) = map (fun a => meta (E2 fstr fzero ro KWell true a)) (s_items (l_well (hs_las hs))) /\
    map meta (s_items (l_curves l2)) = map (fun a => meta (E2 fstr fzero ro KCurves false a)) (s_items (l_curves (hs_las hs))) /\
    map meta (s_items (l_params l2)) = map (fun a => meta (E2 fstr fzero ro KParameter true a)) (s_items (l_params (hs_las hs))) /\
    l_data l2 = l_data l /\ l_other l2 = l_other l /\ l_custom l2 = [].
Proof. exact second_cycle_content. Qed.

(* E (E a) is E a up to numeric equality of float values (numeq: float(x) == float(y)): decidable
   item by item; with header_read_back (the items of l are E a) this is "the same header items
   (numeric values compared numerically) as the first re-read" *)
Theorem C11_content_okb_ok : forall fstr fzero numeq ro k std A,
  forallb (item_contentb fstr fzero numeq ro k std) A = true ->
  Forall2 (meta_equiv numeq) (map (fun a => meta (E2 fstr fzero ro k std a)) A) (map (fun a => meta (E1 fstr ro k a)) A).
Proof. exact section_content_ok. Qed.

(* reread_index is what the pipeline interpreter of the correspondence gives a LASFile after read *)
Example C11_reread_index_is_pipeline : forall l, reread_index l = index_initial_of l.
Proof. reflexivity. Qed.

(* ---- non-vacuity ------------------------------------------------------------------------------------ *)
(* ex_m (above), wrap = None / True / False: in the domain; the theorem's conclusion, computed *)
Example C11_ex_cycle_domain : forall w,
  cycle_hypsb t_fmtv t_fstr t_fzero t_numeq t_fhex t_ro (ex_o w) (t_hs w) (s2l "-999.25") = true.
Proof. intros [[|]|]; vm_compute; reflexivity. Qed.

Example C11_ex_cycle : forall w k,
  Nat.iter k (cycle_opt t_fmtv t_fmt_diff t_fmt_pi t_fstr t_fzero t_numeq t_fhex t_ro (ex_o w)) (Some (t_text w)) = Some (t_text w).
Proof.
  intros w k.
  assert (Hw : exists m', ex_write (ex_o w) ex_m = WOk (t_text w) m') by (destruct w as [[|]|]; eexists; vm_compute; reflexivity).
  destruct Hw as (m' & Hw). destruct (C11_ex_file_domain w) as (Hs & Hf & _).
  assert (Hd : exists dl rts, dsh_of t_fmtv t_fmt_pi t_fstr (ex_o w) (t_hs w) = Some dl /\
             opt_all (map (row_text t_fmtv t_fmt_pi (ex_o w) (Some (s2l "-999.25")) 0%nat) (las_rows (hs_las (t_hs w)))) = Some rts)
    by (destruct w as [[|]|]; eexists; eexists; split; vm_compute; reflexivity).
  destruct Hd as (dl & rts & Hdl & Hrts).
  apply (C11_cycles_same_text t_fmtv t_fmt_diff t_fmt_pi t_fstr t_fzero t_numeq t_fhex t_ro (ex_o w) ex_m (t_text w) m'
           (t_hs w) dl rts (s2l "-999.25") Hw Hs Hdl); [|exact Hrts|exact Hf|reflexivity|apply C11_ex_cycle_domain].
  destruct w as [[|]|]; vm_compute; reflexivity.
Qed.

(* a richer file: read with mnemonic_case upper (case-insensitive look-ups), written with
   version=2.0, wrap=True (data_width 30), mnemonics_header=True; duplicated curve mnemonic
   (session mnemonics A:1, A:2), API kept as text, an integer parameter, NaN in two columns,
   ~Other text *)
Definition x_it (name sess unit : string) (v : hval) (d : string) : hitem :=
  mkitem (s2l name) (s2l sess) (s2l unit) v (s2l d).
Definition x_las : las :=
  mklas (mksect [ex_it "VERS" "" (VFloat (s2l "2.0")) "v"; ex_it "WRAP" "" (VStr (s2l "NO")) "w"] true)
        (mksect [ex_it "STRT" "M" (VFloat (s2l "1.0")) ""; ex_it "STOP" "M" (VFloat (s2l "3.0")) "";
                 ex_it "STEP" "M" (VFloat (s2l "1.0")) ""; ex_it "NULL" "" (VFloat (s2l "-999.25")) "";
                 ex_it "API" "" (VStr (s2l "007")) "api number"; ex_it "LOC" "" (VStr (s2l "12-3 W")) "location"] true)
        (mksect [ex_it "DEPT" "M" (VStr []) "depth"; x_it "A" "A:1" "V" (VStr []) "first";
                 x_it "A" "A:2" "V" (VStr []) "second"] true)
        (mksect [ex_it "BHT" "DEGC" (VFloat (s2l "35.5")) "temp"; ex_it "RUN" "" (VInt 2) "run"] true)
        (s2l "note 1" ++ [10] ++ s2l "note 2") [] [ex_idx; [CNum (s2l "5"); CNaN; CNum (s2l "7")]; [CNum (s2l "0.5"); CNum (s2l "1.5"); CNaN]] false.
Definition x_m : mlas := mkmlas x_las (Some ex_idx).
Definition x_o : wopts := mkwopts (Some W20) (Some true) (s2l "%.5f") [] LAuto (s2l " ") (s2l " ") 30 60 (s2l "~ASCII") true.
Definition x_ro : ropts := mkropts false CaseUpper true true false.
Definition x_hs : hdr_sections :=
  match write_sections t_fmtv t_fmt_diff t_fstr t_fzero t_numeq (wo_version x_o) (wo_wrap x_o) (col_fmt x_o 0%nat) x_m with
  | Some hs => hs | None => mkhs false V20 [] [] [] [] [] empty_las end.
Definition x_text : list N := match ex_write x_o x_m with WOk t _ => t | WErr _ => [] end.

Example C11_ex2_domain :
  write_sections t_fmtv t_fmt_diff t_fstr t_fzero t_numeq (wo_version x_o) (wo_wrap x_o) (col_fmt x_o 0%nat) x_m = Some x_hs /\
  file_hypsb t_fmtv t_fmt_pi t_fstr t_fhex x_ro x_o x_hs (s2l "-999.25") = true /\
  cycle_hypsb t_fmtv t_fstr t_fzero t_numeq t_fhex x_ro x_o x_hs (s2l "-999.25") = true /\
  map i_sess (s_items (l_curves (hs_las x_hs))) = [s2l "DEPT"; s2l "A:1"; s2l "A:2"] /\
  cycle t_fmtv t_fmt_diff t_fmt_pi t_fstr t_fzero t_numeq t_fhex x_ro x_o x_text = Some x_text.
Proof. repeat split; vm_compute; reflexivity. Qed.

(* ---- outside the domain: the text changes once, the content does not -------------------------------- *)
(* oracles with a genuine "%.5f" and str():  1.0 -> "1.00000",  str(float("1.00000")) = "1.0" *)
Definition r_tab : list (list N * list N) :=
  [(s2l "1.0", s2l "1.00000"); (s2l "2.0", s2l "2.00000"); (s2l "3.0", s2l "3.00000")].
Fixpoint r_fwd (t : list (list N * list N)) (x : list N) : list N :=
  match t with [] => x | (a, b) :: t' => if str_eqb x a then b else r_fwd t' x end.
Fixpoint r_bwd (t : list (list N * list N)) (x : list N) : list N :=
  match t with [] => x | (a, b) :: t' => if str_eqb x b then a else r_bwd t' x end.
Definition r_fmtv (f t : list N) : list N := r_fwd r_tab t.
Definition r_fstr (t : list N) : list N := r_bwd r_tab t.
Definition r_numeq (a b : list N) : bool := str_eqb (r_fstr a) (r_fstr b).
(* a file whose STRT/STOP/STEP are stale (0): the first write refreshes them *)
Definition r_las : las :=
  mklas (mksect [ex_it "VERS" "" (VFloat (s2l "2.0")) "v"; ex_it "WRAP" "" (VStr (s2l "NO")) "w"] false)
        (mksect [ex_it "STRT" "M" (VFloat (s2l "0")) ""; ex_it "STOP" "M" (VFloat (s2l "0")) "";
                 ex_it "STEP" "M" (VFloat (s2l "0")) ""; ex_it "NULL" "" (VFloat (s2l "-999.25")) ""] false)
        (mksect [ex_it "DEPT" "M" (VStr []) "depth"; ex_it "A" "V" (VStr []) "a"] false)
        (mksect [] false)
        [] [] [[CNum (s2l "1.0"); CNum (s2l "2.0"); CNum (s2l "3.0")]; [CNum (s2l "5"); CNaN; CNum (s2l "7")]] false.
Definition r_idx : list cell := [CNum (s2l "1.0"); CNum (s2l "2.0"); CNum (s2l "3.0")].
Definition r_m : mlas := mkmlas r_las (Some r_idx).
Definition r_o := ex_o None.
Definition r_wsec := write_sections r_fmtv t_fmt_diff r_fstr t_fzero r_numeq None None (col_fmt r_o 0%nat).
Definition r_cycle := cycle r_fmtv t_fmt_diff t_fmt_pi r_fstr t_fzero r_numeq t_fhex t_ro r_o.

Example C11_second_text_refuted :
  match write r_fmtv t_fmt_diff t_fmt_pi r_fstr t_fzero r_numeq r_o r_m, r_wsec r_m with
  | WOk t1 _, Some hs1 =>
      file_hypsb r_fmtv t_fmt_pi r_fstr t_fhex t_ro r_o hs1 (s2l "-999.25") = true /\
      cycle_hypsb r_fmtv r_fstr t_fzero r_numeq t_fhex t_ro r_o hs1 (s2l "-999.25") = false /\
      match read t_fhex r_fstr r_numeq t_ro t1 with
      | ROk l1 =>
          match r_cycle t1, r_wsec (mkmlas l1 (reread_index l1)) with
          | Some t2, Some hs2 =>
              t2 <> t1 /\ r_cycle t2 = Some t2 /\
              file_hypsb r_fmtv t_fmt_pi r_fstr t_fhex t_ro r_o hs2 (s2l "-999.25") = true /\
              cycle_hypsb r_fmtv r_fstr t_fzero r_numeq t_fhex t_ro r_o hs2 (s2l "-999.25") = true /\
              match read t_fhex r_fstr r_numeq t_ro t2 with
              | ROk l2 => l_data l2 = l_data l1 /\
                          map i_value (firstn 3 (s_items (l_well l1))) = [VFloat (s2l "1.00000"); VFloat (s2l "3.00000"); VFloat (s2l "1.00000")] /\
                          map i_value (firstn 3 (s_items (l_well l2))) = [VFloat (s2l "1.0"); VFloat (s2l "3.0"); VFloat (s2l "1.0")]
              | RErr _ => False
              end
          | _, _ => False
          end
      | RErr _ => False
      end
  | _, _ => False
  end.
Proof. vm_compute. repeat split; try reflexivity. discriminate. Qed.

(* the same file r_m is in the domain of the content-level theorem: its conclusion, instantiated *)
Definition r_text : list N := match write r_fmtv t_fmt_diff t_fmt_pi r_fstr t_fzero r_numeq r_o r_m with WOk t _ => t | WErr _ => [] end.
Definition r_hs : hdr_sections := match r_wsec r_m with Some hs => hs | None => mkhs false V20 [] [] [] [] [] empty_las end.
Definition r_l1 : las := match read t_fhex r_fstr r_numeq t_ro r_text with ROk l => l | RErr _ => empty_las end.

Example C11_ex_content_domain :
  cycle_whypsb r_fmtv r_fstr t_fzero r_numeq t_fhex t_ro r_o r_hs (s2l "-999.25") = true /\
  content_okb r_fstr t_fzero r_numeq t_ro r_hs = true /\
  cycle_hypsb r_fmtv r_fstr t_fzero r_numeq t_fhex t_ro r_o r_hs (s2l "-999.25") = false.
Proof. repeat split; vm_compute; reflexivity. Qed.

Example C11_ex_content :
  exists text2 l2,
    write r_fmtv t_fmt_diff t_fmt_pi r_fstr t_fzero r_numeq r_o (mkmlas r_l1 (reread_index r_l1))
      = WOk text2 (mkmlas (norm_las t_fzero r_l1) (reread_index r_l1)) /\
    read t_fhex r_fstr r_numeq t_ro text2 = ROk l2 /\
    Forall2 (meta_equiv r_numeq) (map meta (s_items (l_well l2))) (map meta (s_items (l_well r_l1))) /\
    l_data l2 = l_data r_l1.
Proof.
  assert (Hw : exists m', write r_fmtv t_fmt_diff t_fmt_pi r_fstr t_fzero r_numeq r_o r_m = WOk r_text m')
    by (eexists; vm_compute; reflexivity).
  destruct Hw as (m' & Hw).
  assert (Hs : write_sections r_fmtv t_fmt_diff r_fstr t_fzero r_numeq (wo_version r_o) (wo_wrap r_o) (col_fmt r_o 0%nat) r_m = Some r_hs)
    by (vm_compute; reflexivity).
  assert (Hd : exists dl rts, dsh_of r_fmtv t_fmt_pi r_fstr r_o r_hs = Some dl /\
             opt_all (map (row_text r_fmtv t_fmt_pi r_o (Some (s2l "-999.25")) 0%nat) (las_rows (hs_las r_hs))) = Some rts)
    by (eexists; eexists; split; vm_compute; reflexivity).
  destruct Hd as (dl & rts & Hdl & Hrts).
  destruct (C11_second_cycle_content_partial r_fmtv t_fmt_diff t_fmt_pi r_fstr t_fzero r_numeq t_fhex t_ro r_o r_m r_text m'
              r_hs dl rts (s2l "-999.25") r_l1 Hw Hs Hdl) as (text2 & l2 & H1 & H2 & _ & HW & _ & _ & HD & _).
  - vm_compute; reflexivity.
  - exact Hrts.
  - vm_compute; reflexivity.
  - reflexivity.
  - vm_compute; reflexivity.
  - vm_compute; reflexivity.
  - intros hs2 H. vm_compute in H. injection H as <-. vm_compute. reflexivity.
  - exists text2, l2. split; [exact H1|]. split; [exact H2|]. split; [|exact HD].
    rewrite HW.
    assert (E : map meta (s_items (l_well r_l1)) = map (fun a => meta (E1 r_fstr t_ro KWell a)) (s_items (l_well (hs_las r_hs))))
      by (vm_compute; reflexivity).
    rewrite E. apply C11_content_okb_ok. vm_compute. reflexivity.
Qed.

Print Assumptions C11_read_canonical.
Print Assumptions C11_canonical_determined.
Print Assumptions C11_second_header.
Print Assumptions C11_second_header_same_lines.
Print Assumptions C11_stable_itemb_ok.
Print Assumptions C11_refresh_not_triggered.
Print Assumptions C11_back_okb_of_Hfix.
Print Assumptions C11_second_data_tokens.
Print Assumptions C11_second_data_lines.
Print Assumptions C11_second_cycle.
Print Assumptions C11_cycle_fixed.
Print Assumptions C11_cycles_same_text.
Print Assumptions C11_cycles_iter.
Print Assumptions C11_second_cycle_content_partial.
Print Assumptions C11_content_okb_ok.

(* ---- the header sections of the model ARE the blocks of writer.write that emit them today -------------
   For each of ~Version, ~Well, ~Curve Information and ~Params: the title line, then (for ~Well and ~Params)
   every value normalised by standardize_value BEFORE the column widths are measured, then one line per item:
   Writer.title_line followed by Writer.section_lines over the Writer.standardize-d items equals, for every
   input, the block of statements re-translated on this run from /repo (py_write_*_section in Gen/Funcs.v).
   Any other statement inside one of the blocks - seed C11_3 moved las.update_units_from_index_curve() between the
   normalisation loop and get_section_widths - is refused by the translator.  Proofs/FuncsPinWriteHeader.v. *)
Require Import Funcs FuncsPinStandardize FuncsPinWriter FuncsPinWriteHeader.
Theorem C11_well_section_current : forall fstr fzero v hw lines items,
  py_write_well_section (hval_ops fstr fzero) (List.map item_of items) v (Z.of_nat hw) lines
  = match section_lines fstr v (s2l "Well") (List.map (std_item fzero) items) with
    | Some ls => Some (List.map item_of (List.map (std_item fzero) items), lines ++ [title_line hw (s2l "~Well ")] ++ ls)
    | None => None
    end.
Proof. exact well_section_pin. Qed.
Theorem C11_params_section_current : forall fstr fzero v hw lines items,
  py_write_params_section (hval_ops fstr fzero) (List.map item_of items) v (Z.of_nat hw) lines
  = match section_lines fstr v (s2l "Parameter") (List.map (std_item fzero) items) with
    | Some ls => Some (List.map item_of (List.map (std_item fzero) items), lines ++ [title_line hw (s2l "~Params ")] ++ ls)
    | None => None
    end.
Proof. exact params_section_pin. Qed.
Theorem C11_version_section_current : forall fstr fzero v hw lines items,
  py_write_version_section (hval_ops fstr fzero) (List.map item_of items) v (Z.of_nat hw) lines
  = match section_lines fstr v (s2l "Version") items with
    | Some ls => Some (List.map item_of items, lines ++ [title_line hw (s2l "~Version ")] ++ ls)
    | None => None
    end.
Proof. exact version_section_pin. Qed.
Theorem C11_curves_section_current : forall fstr fzero v hw lines items,
  py_write_curves_section (hval_ops fstr fzero) (List.map item_of items) v (Z.of_nat hw) lines
  = match section_lines fstr v (s2l "Curves") items with
    | Some ls => Some (List.map item_of items, lines ++ [title_line hw (s2l "~Curve Information ")] ++ ls)
    | None => None
    end.
Proof. exact curves_section_pin. Qed.
Print Assumptions C11_well_section_current.
Print Assumptions C11_params_section_current.
Print Assumptions C11_version_section_current.
Print Assumptions C11_curves_section_current.
