(* Props.C11 — lasio's own output is a fixed point of read -> write.
   Statements only; proofs in Proofs/FixedPointProofs.v, Proofs/WriteIdemProofs.v,
   Proofs/WriteStateProofs.v.

   Formal reading.  W o x = write (read x) o, R = read; for every x that lasio reads and writes
   and every o:  R (W o (W o x)) ~ R (W o x)  (header items with numeric values compared
   numerically, curve data), hence  R (W o^k x) ~ R (W o x)  for all k >= 1.

   What is proved here is the WRITER side, for all oracles unless stated:
     C11_second_write_same_text_partial / _nowrap
                          the object left in memory by a write, written again with the same
                          options, gives byte-identical text and stays the same object
                          (= C16 idempotence).  `_partial`: with wrap= given it needs WRAP to be
                          named at most once in ~Version; the hypothesis is necessary
                          (Props/C16.v, C16_idempotent_refuted_dup_wrap: one more WRAP item —
                          WRAP:3, WRAP:4, ... — per cycle: a growing suffix).
     C11_values_fixed     every ~Well/~Parameter value left in memory is a fixed point of
                          standardize_value; C11_standardize_idem; C11_refreshed_is_text: what
                          update_start_stop_step stores is a text; C11_refresh_idem_values:
                          refresh, normalise, refresh, normalise = refresh, normalise.
     C11_data_tokens_fixed, C11_cell_text_fixed, C11_column_text_cycles
                          under the ORACLE hypothesis  Hfix : fmtv f (fmtv f t) = fmtv f t
                          (printing a printed number with the same format gives the same text),
                          a column printed, read back as the printed tokens and printed again —
                          any number of times — gives the same texts: no accumulating loss.
     C11_iter             abstract induction over the number of cycles.  Instance meant:
                          X := file texts, F x := write (read x) o, P x := x is read and written
                          without error, R x y := canon (read x) = canon (read y); then
                          F_fix is the one-step statement C11_fix and the conclusion is the
                          property for cycle counts 2..k.
   NOT proved (covered by the correspondence runs of harness/props/c11.py only): C11_fix itself,
   i.e. the composition through the reader — that the header lines format_item prints are parsed
   back to the same items (C03 + C04 restricted to writer normal form), that the data lines are
   parsed back to the printed tokens (C01), and that F respects R.  F15 (a ~Curves unit starting
   with '.') is the known place where writer normal form is not closed. *)
From Coq Require Import List NArith ZArith Bool Arith String.
Import ListNotations.
Require Import PyStr Regex NumLit Num Tables SectionParse DataRead Read TextWrap Writer
               WriteStateProofs WriteIdemProofs FixedPointProofs.
Open Scope string_scope.
Open Scope list_scope.
Open Scope N_scope.

Section C11.
Variable fmtv : list N -> list N -> list N.
Variable fmt_diff : list N -> list N -> list N -> list N.
Variable fmt_pi : list N -> list N.
Variable fstr : list N -> list N.
Variable fzero : list N -> bool.
Variable numeq : list N -> list N -> bool.
Notation write := (write fmtv fmt_diff fmt_pi fstr fzero numeq).

Theorem C11_second_write_same_text_partial : forall o m text m',
  (wo_wrap o <> None ->
   named_once (s_transforms (l_version (m_las m))) (s2l "WRAP") (s_items (l_version (m_las m)))) ->
  write o m = WOk text m' -> write o m' = WOk text m'.
Proof. exact (write_idempotent fmtv fmt_diff fmt_pi fstr fzero numeq). Qed.

Theorem C11_second_write_same_text_nowrap : forall o m text m',
  wo_wrap o = None -> write o m = WOk text m' -> write o m' = WOk text m'.
Proof. exact (write_idempotent_nowrap fmtv fmt_diff fmt_pi fstr fzero numeq). Qed.

Theorem C11_standardize_idem : forall v u,
  standardize fzero (standardize fzero v u) u = standardize fzero v u.
Proof. exact (standardize_idem fzero). Qed.

(* value_fixed it :  standardize (value it) (unit it) = value it *)
Theorem C11_values_fixed : forall o m text m',
  write o m = WOk text m' ->
  Forall (value_fixed fzero) (s_items (l_well (m_las m'))) /\
  Forall (value_fixed fzero) (s_items (l_params (m_las m'))).
Proof. exact (write_values_fixed fmtv fmt_diff fmt_pi fstr fzero numeq). Qed.

Theorem C11_refreshed_is_text : forall f c, exists s, fmt_index_cell fmtv f c = VStr s.
Proof. exact (refreshed_is_text fmtv). Qed.

Theorem C11_refreshed_shapes : forall f idx,
  (strt_of fmtv f idx = VNone \/ exists s, strt_of fmtv f idx = VStr s) /\
  (stop_of fmtv f idx = VNone \/ exists s, stop_of fmtv f idx = VStr s) /\
  (step_of fmtv fmt_diff f idx = VNone \/ exists s, step_of fmtv fmt_diff f idx = VStr s).
Proof. exact (fun f idx => conj (strt_of_shape fmtv f idx) (conj (stop_of_shape fmtv f idx) (step_of_shape fmtv fmt_diff f idx))). Qed.

(* norm_las: the in-place normalisation of ~Well and ~Parameter values *)
Theorem C11_refresh_idem_values : forall f m l2,
  refresh_sss fmtv fmt_diff numeq f m = Some l2 ->
  exists l2', refresh_sss fmtv fmt_diff numeq f (mkmlas (norm_las fzero l2) (m_index_initial m)) = Some l2' /\
              norm_las fzero l2' = norm_las fzero l2.
Proof. exact (fun f => refresh_std_idem fmtv fmt_diff numeq f fzero). Qed.

Section Tokens.
Hypothesis Hfix : forall f t, fmtv f (fmtv f t) = fmtv f t.

Theorem C11_data_tokens_fixed : forall f toks, map (fmtv f) (map (fmtv f) toks) = map (fmtv f) toks.
Proof. exact (tokens_fixed fmtv Hfix). Qed.

(* reprint_cell f c: the cell read back from what `f % c` printed *)
Theorem C11_cell_text_fixed : forall f nt col,
  map (cell_text fmtv f nt) (map (reprint_cell fmtv f) col) = map (cell_text fmtv f nt) col.
Proof. exact (column_text_fixed fmtv Hfix). Qed.

Theorem C11_column_text_cycles : forall f nt col k,
  map (cell_text fmtv f nt) (Nat.iter k (map (reprint_cell fmtv f)) col) = map (cell_text fmtv f nt) col.
Proof. exact (column_text_cycles fmtv Hfix). Qed.
End Tokens.

End C11.

Theorem C11_iter : forall (X : Type) (F : X -> X) (R : X -> X -> Prop) (P : X -> Prop),
  (forall x, R x x) -> (forall x y z, R x y -> R y z -> R x z) ->
  (forall x y, R x y -> R (F x) (F y)) ->
  (forall x, P x -> R (F (F x)) (F x)) ->
  forall x k, P x -> (1 <= k)%nat -> R (Nat.iter k F x) (F x).
Proof. exact cycles_fixed. Qed.

Theorem C11_iter_from_fix : forall (X : Type) (F : X -> X) (R : X -> X -> Prop) (P : X -> Prop),
  (forall x, R x x) -> (forall x y z, R x y -> R y z -> R x z) ->
  (forall x y, R x y -> R (F x) (F y)) ->
  (forall x, P x -> R (F (F x)) (F x)) ->
  forall x k, P x -> (1 <= k)%nat -> R (Nat.iter k F x) (F x).
Proof. exact cycles_fixed. Qed.

(* ---- non-vacuity ---------------------------------------------------------------------------------- *)
Definition t_fmtv (f t : list N) : list N := match t with [] => s2l "0.00000" | _ => t end.
Definition t_fmt_diff (f b a : list N) : list N := s2l "1.00000".
Definition t_fmt_pi (f : list N) : list N := s2l "3.14159".
Definition t_fstr (t : list N) : list N := t.
Definition t_fzero (t : list N) : bool := str_eqb t (s2l "0.0").
Definition t_numeq (a b : list N) : bool := str_eqb a b.
Definition ex_it (name unit : string) (v : hval) (d : string) : hitem :=
  mkitem (s2l name) (s2l name) (s2l unit) v (s2l d).
Definition ex_idx : list cell := [CNum (s2l "1.0"); CNum []; CNum (s2l "3.0")].
Definition ex_las : las :=
  mklas (mksect [ex_it "VERS" "" (VFloat (s2l "2.0")) "v"; ex_it "WRAP" "" (VStr (s2l "NO")) "w"] false)
        (mksect [ex_it "STRT" "M" (VFloat (s2l "1.0")) ""; ex_it "STOP" "M" (VFloat (s2l "3.0")) "";
                 ex_it "STEP" "M" (VFloat (s2l "1.0")) ""; ex_it "NULL" "" (VFloat (s2l "-999.25")) "";
                 ex_it "EKB" "M" VNone "elevation"] false)
        (mksect [ex_it "DEPT" "M" (VStr []) "depth"; ex_it "A" "V" (VStr []) "a"] false)
        (mksect [ex_it "BHT" "DEGC" (VStr []) "temp"] false)
        [] [] [ex_idx; [CNum (s2l "5"); CNaN; CNum (s2l "7")]] false.
Definition ex_m : mlas := mkmlas ex_las (Some ex_idx).
Definition ex_o (w : option bool) : wopts :=
  mkwopts None w (s2l "%.5f") [] LAuto (s2l " ") (s2l " ") 79 60 (s2l "~ASCII") false.
Definition ex_write := write t_fmtv t_fmt_diff t_fmt_pi t_fstr t_fzero t_numeq.

Example C11_ex_Hfix : forall f t, t_fmtv f (t_fmtv f t) = t_fmtv f t.
Proof. intros f [|c t]; reflexivity. Qed.

(* the second write of the object the first write left behind: same text, same object;
   empty-with-unit values went to 0 the first time and stay *)
Example C11_ex_second_write : forall w,
  match ex_write (ex_o w) ex_m with
  | WOk t m' => ex_write (ex_o w) m' = WOk t m' /\
                map i_value (s_items (l_params (m_las m'))) = [VInt 0] /\
                map i_value (skipn 4 (s_items (l_well (m_las m')))) = [VInt 0]
  | WErr _ => False
  end.
Proof. intros [[|]|]; vm_compute; repeat split; reflexivity. Qed.

Example C11_ex_column :
  map (cell_text t_fmtv (s2l "%.5f") None) (Nat.iter 3 (map (reprint_cell t_fmtv (s2l "%.5f"))) ex_idx)
  = [Some (s2l "1.0"); Some (s2l "0.00000"); Some (s2l "3.0")].
Proof. vm_compute. reflexivity. Qed.

Example C11_ex_iter : Nat.iter 5 (fun n => Nat.min n 3) 10%nat = (fun n => Nat.min n 3) 10%nat.
Proof.
  apply (C11_iter nat (fun n => Nat.min n 3) eq (fun _ => True)).
  - reflexivity.
  - intros; congruence.
  - intros; congruence.
  - intros x _. rewrite <- Nat.min_assoc, Nat.min_id. reflexivity.
  - exact I.
  - repeat constructor.
Qed.

Print Assumptions C11_second_write_same_text_partial.
Print Assumptions C11_second_write_same_text_nowrap.
Print Assumptions C11_standardize_idem.
Print Assumptions C11_values_fixed.
Print Assumptions C11_refreshed_is_text.
Print Assumptions C11_refreshed_shapes.
Print Assumptions C11_refresh_idem_values.
Print Assumptions C11_data_tokens_fixed.
Print Assumptions C11_cell_text_fixed.
Print Assumptions C11_column_text_cycles.
Print Assumptions C11_iter.
Print Assumptions C11_iter_from_fix.

(* ====================================================================================== *)
(* FILE LEVEL (appended).  Proofs in Proofs/FileRoundTrip*.v, Proofs/WriteIdemProofs.v.     *)
(* ====================================================================================== *)
(* The reader side of the fixed point, composed with the writer side above.

     C11_reread_fixed_point_partial
        write o m = WOk text m'  (m any file in memory, e.g. the result of a read) and the
        file-level domain hypotheses on the written form hs of m' (file_hypsb: Props/C03.v
        C03_file_hypsb_ok, Props/C01.v) give:
          (a) write o m' = WOk text m'          — m' is a fixed point of write, the second,
              third, ... write of the object lasio holds print the SAME text (C16), so
              read (W^k) = read (W) for all k >= 1 trivially;
          (b) read text = ROk l                  — lasio reads its own output without error;
          (c) l IS the object m' left in memory by the write, as far as the property looks:
              header items with the metadata C03 expects (header_read_back: values through
              str() and num(), mnemonics case-mapped), ~Other with its lines stripped, no
              custom section, data = the printed tokens of m' through the NULL rule
              (C01_file_roundtrip; C01_file_cell_num / C01_file_cell_nan).
        Hence R (W o m) is a function of the fixed point m' of the writer: the information the
        first cycle keeps is exactly what m' holds; nothing further can be lost by writing
        again WITHOUT re-reading.
     `_partial`, what is missing for  R (W o (R (W o m))) ~ R (W o m)  (write applied to the
     object READ BACK instead of the object left in memory):
        (i)   closure of the domain: that the object read back (l with index_initial = its
              index column) again satisfies file_hypsb after a write — conformance of the
              re-read items (conf_item is about the texts str(value) that num() produced) —
              F15 (a ~Curves unit starting with '.') is the known place where it fails;
        (ii)  that write changes nothing observable on an object it has itself produced and
              read back: STRT/STOP/STEP refresh on re-read values (C11_refresh_idem_values is
              the in-memory half), standardize_value on values num() returns (C11_values_fixed
              is the in-memory half), expected_item o expected_item = expected_item;
        (iii) the ORACLE hypothesis Hfix (fmt % (fmt % x) = fmt % x as texts) to conclude that
              the tokens of the second cycle are those of the first (C11_data_tokens_fixed).
        The correspondence runs of harness/props/c11.py cover (i)-(iii) empirically. *)
Require Import Sections WriteOptionsProofs WriteHeaderProofs WriteReadProofs WriteDataProofs WriteDataTextProofs ItemsBindProofs
  FileRoundTripText FileRoundTripBlocks FileRoundTripFind FileRoundTripFirstPass FileRoundTripHeader
  FileRoundTripData FileRoundTripLines FileRoundTrip FileRoundTripMain FileRoundTripCheck.

Theorem C11_reread_fixed_point_partial :
  forall fmtv fmt_diff fmt_pi fstr fzero numeq fhex ro o m text m' hs dl rts nt,
  write fmtv fmt_diff fmt_pi fstr fzero numeq o m = WOk text m' ->
  (wo_wrap o <> None ->
   named_once (s_transforms (l_version (m_las m))) (s2l "WRAP") (s_items (l_version (m_las m)))) ->
  write_sections fmtv fmt_diff fstr fzero numeq (wo_version o) (wo_wrap o) (col_fmt o 0%nat) m = Some hs ->
  dsh_of fmtv fmt_pi fstr o hs = Some dl ->
  las_null_text fstr (hs_las hs) = Some nt ->
  opt_all (map (row_text fmtv fmt_pi o (Some nt) 0%nat) (las_rows (hs_las hs))) = Some rts ->
  file_hypsb fmtv fmt_pi fstr fhex ro o hs nt = true -> o_ignore_data ro = false ->
  write fmtv fmt_diff fmt_pi fstr fzero numeq o m' = WOk text m' /\
  m_las m' = hs_las hs /\
  exists l pn,
    read fhex fstr numeq ro text = ROk l /\
    header_read_back fstr ro hs l /\ null_read fstr ro hs pn /\
    l_data l = data_result fhex numeq ro pn (List.length (s_items (l_curves (hs_las hs))))
                 (tok_matrix fmtv o nt (las_rows (hs_las hs))).
Proof.
  intros fmtv fmt_diff fmt_pi fstr fzero numeq fhex ro o m text m' hs dl rts nt Hw Hn Hs Hdl Hnt Hrts Hb Hig.
  split; [exact (write_idempotent fmtv fmt_diff fmt_pi fstr fzero numeq o m text m' Hn Hw)|].
  split.
  - destruct (write_ok_inv fmtv fmt_diff fmt_pi fstr fzero numeq o m text m' Hw) as (hs0 & d & Hs0 & _ & _ & ->).
    rewrite Hs in Hs0. injection Hs0 as <-. reflexivity.
  - exact (read_written_file_checked fmtv fmt_diff fmt_pi fstr fzero numeq fhex ro o m text m' hs dl rts nt
             Hw Hs Hdl Hnt Hrts Hb Hig).
Qed.

(* ---- non-vacuity: ex_m (above), for wrap = None / True / False ------------------------------- *)
Definition t_fhex (t : list N) : option (list N) := match py_float_dec t with Some _ => Some t | None => None end.
Definition t_ro : ropts := mkropts false CasePreserve true true false.
Definition t_hs (w : option bool) : hdr_sections :=
  match write_sections t_fmtv t_fmt_diff t_fstr t_fzero t_numeq None w (col_fmt (ex_o w) 0%nat) ex_m with
  | Some hs => hs
  | None => mkhs false V20 [] [] [] [] [] empty_las
  end.
Definition t_text (w : option bool) : list N := match ex_write (ex_o w) ex_m with WOk t _ => t | WErr _ => [] end.

Example C11_ex_file_domain : forall w,
  write_sections t_fmtv t_fmt_diff t_fstr t_fzero t_numeq (wo_version (ex_o w)) (wo_wrap (ex_o w)) (col_fmt (ex_o w) 0%nat) ex_m
    = Some (t_hs w) /\
  file_hypsb t_fmtv t_fmt_pi t_fstr t_fhex t_ro (ex_o w) (t_hs w) (s2l "-999.25") = true /\
  named_once (s_transforms (l_version (m_las ex_m))) (s2l "WRAP") (s_items (l_version (m_las ex_m))).
Proof.
  intros w. split; [destruct w as [[|]|]; vm_compute; reflexivity|].
  split; [destruct w as [[|]|]; vm_compute; reflexivity|].
  split; [vm_compute; apply le_n|].
  intros it Hin. cbn [ex_m m_las ex_las l_version s_items In] in Hin.
  destruct Hin as [<-|[<-|[]]]; reflexivity.
Qed.

(* one full cycle more, computed: read the written text, write what was read (index_initial =
   the index column read), read again — the same header metadata and the same data *)
Definition t_canon (l : las) :=
  (map meta (s_items (l_version l)), map meta (s_items (l_well l)), map meta (s_items (l_curves l)),
   map meta (s_items (l_params l)), l_other l, l_data l).
Example C11_ex_two_cycles : forall w,
  match read t_fhex t_fstr t_numeq t_ro (t_text w) with
  | ROk l1 =>
      match ex_write (ex_o w) (mkmlas l1 (Some (nth 0%nat (l_data l1) []))) with
      | WOk t2 _ =>
          match read t_fhex t_fstr t_numeq t_ro t2 with
          | ROk l2 => t_canon l2 = t_canon l1 /\ t2 = t_text w
          | RErr _ => False
          end
      | WErr _ => False
      end
  | RErr _ => False
  end.
Proof. intros [[|]|]; vm_compute; split; reflexivity. Qed.

Print Assumptions C11_reread_fixed_point_partial.
