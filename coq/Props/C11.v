(* Props.C11 — placeholder; theorems are being added. *)
Require Import PyStr Writer.
